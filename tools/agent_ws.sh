#!/bin/sh
# tools/agent_ws.sh NAME : private copy of the lean project for a proof worker (outside /verif)
set -e
D=/tmp/agents/$1
rm -rf "$D"; mkdir -p "$D"
cp -r /verif/lean "$D/lean"
echo "$D/lean"
