#!/bin/sh
# tools/evalenv.sh PATCH CHECK...  — run checks against a patched SECOND checkout (/tmp/evalenv), leaving /repo and /verif/lean untouched
# (used while long runs occupy /repo); syncs harness/, tools/, lean sources and known_findings first.
set -e
E=/tmp/evalenv
[ -d $E/repo ] || { mkdir -p $E; git -C /repo worktree add -q --detach $E/repo HEAD; }
[ -d $E/verif ] || cp -r /verif $E/verif
rsync -a --delete --exclude .lake --exclude replay --exclude evidence --exclude seeded --exclude .git /verif/ $E/verif/
P="$1"; shift
git -C $E/repo checkout -q -- .
if [ "$P" != "-" ]; then git -C $E/repo apply "$(realpath "$P")"; fi
cd $E/verif
for c in "$@"; do PICOTOOL_REPO=$E/repo bin/check $c 2>&1 | grep -a -E '^(OK|VIOLATION|INFRA)' | tail -1 | cut -c1-140; done
git -C $E/repo checkout -q -- .
