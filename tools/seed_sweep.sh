#!/bin/sh
# tools/seed_sweep.sh SEED... — run every quick check on the current tree for each seed; print one line per run (false-alarm hunt)
cd "$(dirname "$0")/.."
for s in "$@"; do
  for i in 01 02 03 04 05 06 07 08 09 10 11 12 13 14 15 16 17 18 19 20; do
    out=$(VERIF_SEED=$s bin/check C$i --tier quick 2>&1); rc=$?
    echo "seed=$s C$i rc=$rc $(echo "$out" | grep -a -E '^(OK|VIOLATION|INFRA|KNOWN)' | tail -1 | cut -c1-110)"
  done
done
