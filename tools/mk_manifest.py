#!/usr/bin/env python3
"""Regenerates MANIFEST.json from the table below (kept valid at all times)."""
import json, os
HERE = os.path.dirname(os.path.dirname(os.path.abspath(__file__)))
props = [json.loads(l) for l in open(os.path.join(HERE, 'properties.jsonl'))]
ids = [p['id'] for p in props]

# id -> (technique, level text, level note, design ref)
CLAIMED = {
 'C15': ('Lean 4 proof: induction over byte strings + decide +kernel side conditions on the regenerated P8SCII table; correspondence with compiled model',
         'Machine-checked proof (Lean 4): roundtrip/unambiguity/UTF-8 validity for ALL byte strings by induction, with the six facts about the concrete 256-row table (regenerated from lua.py each run) discharged by kernel evaluation. The converters are hand-modelled and tied to the code by differential execution on all 65,792 strings of length <=2 plus random and malformed streams.',
         'Trusted: Lean kernel; gen_tables.py; CPython UTF-8 codec (model works on code points); correspondence is testing.',
         '5/C15'),
 'C18': ('Lean 4 proof: pointwise/list characterisation of write_cart_data by list lemmas + omega over the regenerated memory map; correspondence with compiled model',
         'Machine-checked proof (Lean 4) that for EVERY memory contents, data and address a write inside 0x4300 yields flat[:a]++data++flat[a+len:], keeps all five region sizes, that a write past 0x4300 is rejected, and that any sequence of writes equals the flat-memory specification (induction over the history). The memory map is regenerated from game.py by ast on every run; the function is hand-modelled (Python slice-assignment semantics included) and tied to the code by differential execution on all boundary-centred (start,end) pairs, random writes and write sequences, plus a direct flat-memory oracle on the implementation.',
         'Trusted: Lean kernel; gen_tables.py (ast extraction of memmap); bytearray slice semantics as modelled by pySlice/pySliceAssign; correspondence is testing.',
         '5/C18'),
 'C05': ('Lean 4 proof: loop invariants of the compressor (findBlock/compressLoop) against a reference decoder written from the :c: format; simulation proof decoder vs reference; correspondence with compiled model',
         'Machine-checked proof (Lean 4), for EVERY byte string: the emitted stream is well formed and the reference decoder (Spec.refDecode, written from the format description) recovers the text (+PICO-8 suffix); picotool\'s decoder loop agrees with the reference decoder on EVERY well-formed stream (overlapping blocks included), and decoding header+stream+padding returns exactly the text under an explicit guard (length < 65536, text not ending in the compatibility suffix - the excluded case is a recorded known finding). The model is tied to compress.py by differential execution on all strings <= 6/8 over a 4-symbol alphabet, Lua-like text, window-edge repeats, _update60 texts, generated well-formed and malformed streams; an independent Python decoder is the oracle on the implementation.',
         'Trusted: Lean kernel; gen_tables.py (char table, suffix strings); hand model of compress.py; correspondence is testing. Known finding: text ending with the compatibility suffix.',
         '5/C05'),
 'C16': ('Lean 4 proof: model = reference format description (Spec.Formats) for all region contents, per-byte/per-field facts by kernel evaluation lifted by induction; correspondence with compiled model and Spec renderings',
         'Machine-checked proof (Lean 4) that the section text and PNG pixel encodings of the model equal a reference description written from the PICO-8 formats (pixel rows in screen order, plain hex rows, 16-bit note words with documented bit fields, music flag byte, A2R2G2B2 channel split, memory layout) for ALL region contents, and that reading inverts writing. The model is tied to the code by differential execution (all 65,536 note words, every byte value at every gfx column, all music flag patterns, random regions, malformed lines); the implementation\'s text is also compared directly with the Lean Spec rendering and with PICO-8-written fixtures.',
         'Trusted: Lean kernel; that Spec/Formats.lean is PICO-8\'s format (anchored by the fixtures); pypng/zlib container; correspondence is testing.',
         '5/C16'),
 'C03': ('Lean 4 proof: file-level round trip readP8(writeP8 c) = normCart c by induction over sections/lines, using C15\'s bijection and per-section codec round trips; correspondence with compiled model',
         'Machine-checked proof (Lean 4) that for EVERY well-formed cart (all region bytes, any label, any version, any code whose lines are not section headers) reading the written .p8 text yields the same cart with the final newline supplied and the one unrepresentable music bit cleared, that re-writing is byte-identical, and that the normalised cart is again well formed. The file model (header, section scanner with dict semantics, per-section codecs, Unicode layer) is tied to p8.py by differential execution: real carts written by the implementation must equal the model\'s bytes, and files read by both (including malformed files) must give the same cart; the Lua layer is opaque here (C06/C07).',
         'Trusted: Lean kernel; UTF-8 codec; gen_tables.py; the Lua layer (echo writer/lexer) outside this model; correspondence is testing.',
         '5/C03'),
 'C04': ('Lean 4 proof: code-area encode/decode (via C05), 2-bit steganography round trip and upper-six-bit preservation by induction over rows/pixels, refusal when the code does not fit; correspondence with compiled model; independent PNG decoder as oracle',
         'Machine-checked proof (Lean 4): for EVERY cart with well-sized regions and every RGBA label image, if the code fits the written pixel rows read back to identical regions, version and code (CR->space, newline for raw storage) whether stored compressed or raw; a cart whose code does not fit is refused; the written image equals the label in the upper six bits of every channel. Explicit guards (version 0 with compressed code, raw code containing NUL, the 3-byte code \':c:\', text ending in the compatibility suffix) are recorded known findings. The PNG container is outside the model: the written file is decoded by an independent decoder and by the real reader in the harness.',
         'Trusted: Lean kernel; pypng/zlib container (cross-checked by harness/ref/png.py); hand model of p8png.py; correspondence is testing. Partial: PNG file bytes <-> pixel rows not modelled.',
         '5/C04'),
 'C17': ('Lean 4 proof: each setter characterised against the plain pixel/cell/flag/note semantics (get-after-set, frame condition, size preservation, no error in contract) by induction over rows/columns and per-byte kernel-evaluated tables; stateful correspondence with compiled model',
         'Machine-checked proof (Lean 4) for ALL in-contract arguments and ALL memory contents: set_sprite paints exactly the non-transparent sprite pixels that fall on the sheet (clipped, no wrap, no error) and nothing else; set_cell/set_rect_tiles write exactly the addressed cells of the 128x64 map incl. the half aliased into sprite memory; flag, note, property and music setters read back and leave every other byte unchanged; getters return the documented grid values. Histories are covered by composing these complete per-operation characterisations; the harness runs random operation histories on the implementation against the stateful Lean model and an independent plain-grid oracle, comparing the whole memory after every operation.',
         'Trusted: Lean kernel; hand model of the accessors; correspondence is testing. get_rect_pixels is covered by the harness only.',
         '5/C17'),
 'C02': ('Lean 4 proof: state invariant of the name factory by induction over the request history; injectivity of the base-26 enumeration by strong induction; termination of the skip loop by pigeonhole; correspondence with compiled model',
         'Machine-checked proof (Lean 4) for EVERY request history (every identifier occurrence of a program in order, labels included) and every configuration (default, keep-all, any keep file): equal inputs get equal outputs, different inputs different outputs (also when one is kept), reserved/kept names are unchanged, generated names are never reserved, the short-name enumeration is injective for all ids, and the allocation loop always terminates within |reserved|+1 steps. Reserved-name tables are regenerated from lua.py/lexer.py. The factory is hand-modelled and tied to the code by differential execution on histories up to 5000 requests, all ids below 20,000/200,000, and by aligning name tokens of real luamin output with the input on generated programs.',
         'Trusted: Lean kernel; gen_tables.py; float division int(id/26) exact below 2^53 (stated, not proved); that every identifier occurrence goes through get_short_name is by the correspondence of the writer model (C01).',
         '5/C02'),
 'C06': ('Lean 4 proof: invariant over the lexer state machine (token texts cover the source, positions), re-escaping vs reference string grammar by induction with per-byte kernel-evaluated tables; correspondence with compiled model',
         'Machine-checked proof (Lean 4) for EVERY source the lexer accepts as one chunk: the concatenation of the tokens\' source texts is the source (nothing dropped or duplicated), each token carries the line/column of its first character, and for every token but a quoted string the echo writer\'s text IS the source text; for EVERY byte string, quote kind and following text, the re-escaped spelling of a quoted string denotes exactly the same bytes under the reference string grammar and ends at its closing quote (so \\0 before a digit, \\xhh etc. cannot drift), and the lexer\'s string loop agrees with the reference grammar on every string of the dialect. Tied to lexer.py/lua.py by differential execution (generated programs, all string bodies up to length 3/4 over a 12-symbol alphabet, every byte in every escape form), with the Lean reference lexer as oracle on the real echo output and the writep8 path.',
         'Trusted: Lean kernel; gen_tables.py (escape tables, matcher table); per-line chunking equivalence is C07.chunk_independent (tested, see C07); correspondence is testing.',
         '5/C06'),
 'C19': ('Lean 4 proof: induction over the token list with the writer state generalised (header scan), join lemma, lexer read-back lemmas for line and block comments; correspondence with compiled model',
         'Machine-checked proof (Lean 4) for EVERY token list and configuration: the luamin output begins with the first two comments that precede any code, verbatim, each followed by a line feed; a kept comment followed by that line feed reads back under the reference grammar as exactly that comment and a newline whatever follows (so title and byline survive); once two header comments were kept or code was seen a comment token produces no output and leaves the writer state unchanged. The clause "code never turns into a comment" is C01\'s re-lex statement; here it is additionally checked on every generated case by re-lexing the real output with the Lean reference lexer.',
         'Trusted: Lean kernel; hand model of LuaMinifyTokenWriter; correspondence is testing.',
         '5/C19'),
 'C08': ('Lean 4 proof: generic grammar interpreter (mirrors _accept/_expect/node spans/chains/short-if fence); coverage and fence theorems by induction on fuel for EVERY grammar, read at picotool\'s grammar transcription; tree+span correspondence with compiled model',
         'Machine-checked proof (Lean 4), for every grammar and token array: a successful parse returns trees whose leaves in order are exactly the significant tokens of the consumed range (nothing skipped or used twice, operators and operands in source order); every construct restores the short-if limit it found (so a nested short-if cannot lift the outer one\'s), and the body of every short-if invocation, at any nesting, lies before the first newline token after its condition. picotool\'s parser is transcribed as grammar data and tied to parser.py by comparing full trees with all (start,end) spans on generated and malformed programs; statement kinds/extents are checked against the generator\'s own structure. PARTIAL: that every dialect program is accepted to its last token is tested, not proved.',
         'Trusted: Lean kernel; the grammar transcription (correspondence-tested); gen_tables.py operator tables. Known model gap: empty parentheses `x=()` (malformed input) are a parse error in the model.',
         '5/C08'),
 'C07': ('Lean 4 proof: ordered first-match table = longest match of the reference grammar (general lemma + kernel-evaluated side conditions on the regenerated table, first-byte class analysis); whole-source agreement and chunk independence by state-machine induction; correspondence with compiled model',
         'Machine-checked proof (Lean 4), for EVERY source: walking picotool\'s ordered pattern table (first match wins) yields the longest match among the token classes of the reference grammar with the same kind and extent (the side conditions - e.g. no earlier literal is a proper prefix of a later one - are re-checked against the table regenerated from lexer.py on every run, so `>>` before `>>>` breaks the proof); whenever the reference grammar accepts a source the lexer returns exactly its token list (boundaries, kinds, decoded strings, line/column); tokenisation is the same for one chunk and for per-line chunks. Tied to lexer.py by differential execution on all strings up to length 3/4 over a 30-symbol alphabet, random strings, generated programs; numeric values are compared with exact rationals of the Spec in the harness (floats are not modelled in Lean).',
         'Trusted: Lean kernel; gen_tables.py (sre_parse classification of the matcher table); hand-written matchers for the 13 structured regex patterns (validated against Python re through the real lexer); Spec/LuaLex.lean as the statement of the dialect (DESIGN 4.1 decisions); TokNumber.value (float) checked by the harness only.',
         '5/C07'),
 'C01': ('Lean 4 proof: end-to-end re-lex theorem for the token minifier (per-kind lexer lemmas, invariants of lexer-produced tokens, induction over the token list with the writer and name-factory state); correspondence with compiled model',
         'Machine-checked proof (Lean 4) for EVERY source the lexer accepts and every configuration: the text luamin writes lexes to exactly the input\'s significant tokens in order - keywords, symbols, numbers by spelling, strings by decoded value and quote kind, identifiers and labels up to one renaming function - provided no two adjacent symbol/number tokens form a pair that fuses when written back to back and that luamin does not separate (FusablePair: `~` `=`, `<` `<`, `.` `5`, ...); such pairs cannot be adjacent in a program the parser accepts (grammar fact, covered by the generator-based checks, not proved). Also proved: the four fusing pairs of valid programs are separated, word-like tokens are always separated, newline tokens are kept (line-scoped shorthands keep their extent), token count is invariant under the read-back relation. Tied to lua.py by differential execution on programs x layouts x configurations and all grammatical ordered pairs of 70 token-class representatives; the real output is re-lexed by the Lean reference lexer.',
         'Trusted: Lean kernel; hand models of LuaMinifyTokenWriter/lexer; that accepted programs contain no FusablePair (tested); CLI wiring (luamin, build --lua-minify) by correspondence only.',
         '5/C01'),
 'C09': ('Lean 4 proof: writer model = parser tree walk (indent assignment) + run renderer + assembler; theorems on the assembler for EVERY run renderer and on the formatter\'s regex pipeline; correspondence with compiled model',
         'Machine-checked proof (Lean 4): (1) for every run renderer, a successful tree-driven write is exactly the walked tokens\' codes in stream order, each preceded by the rendering of the trivia tokens in front of it, the walked tokens being consecutive significant tokens with none left at the end (with C08.cover: all tokens the parser consumed); (2) if the walk stops before a significant token of the stream - the code could not be parsed to its end - the writer fails instead of writing a shortened program; (3) the formatter\'s rendering of a run differs from the run only in whitespace characters and contains a line break iff the run did (short-if bodies and end-of-line comments keep their extent); (4) the indent walk visits exactly the tree\'s leaves in order. Tied to lua.py by differential execution of luafmt and LuaASTEchoWriter on generated programs x layouts x widths 0-8, malformed programs and degenerate programs; the real output is re-lexed by the Lean reference lexer. PARTIAL: "luafmt succeeds on every valid program" is tested (agreement of parser and writer grammars); known finding: parenthesised prefix expressions.',
         'Trusted: Lean kernel; hand model of the walk handlers (indent assignment) and of the regex pipeline; parser model (C08); correspondence is testing. String literals are re-spelled by TokString.code (C06) and compared by value.',
         '5/C09'),
 'C10': ('Lean 4 proof: invariants established stage by stage through the regex pipeline (no space before LF, no triple LF, exact indentation), idempotence and layout-invariance lemmas; correspondence with compiled model and an independent nesting-depth oracle',
         'Machine-checked proof (Lean 4) about what LuaFormatterWriter writes for ANY run of space/newline/comment text, width, indent level and position: no line ends in whitespace, never more than one blank line, no blank line or trailing space at the end of the file, a code token that begins a line is preceded by exactly width x depth spaces, rendering is idempotent, and trailing spaces/tabs of an input line as well as the indentation of blank, comment and code-start lines do not influence the output. Tied to lua.py by comparing the real _get_code_for_spaces and the real luafmt with the model on synthetic runs and generated programs; the harness checks idempotence, re-indentation invariance and the line-shape clauses on real output with a nesting depth computed independently of picotool. PARTIAL: lifting the run-level invariance to whole programs (the tree depends only on significant tokens and newline gaps) is tested, not proved.',
         'Trusted: Lean kernel; hand model of the regex pipeline (Python re semantics for these seven patterns) and of the indent assignment; correspondence is testing.',
         '5/C10'),
 'C11': ('Lean 4 proof of the write protocol as a trace machine (failure at any point leaves the destination untouched; destination operations come last); fault enumeration on the real code checks the recorded operation trace against the protocol',
         'Machine-checked proof (Lean 4) about the protocol model of file.to_file for EVERY encoder behaviour (any number of writes, then return or raise): on failure the destination is unchanged and no operation that creates/truncates/writes it occurs; on success it holds exactly what the encoder wrote; in every run the destination-touching operations are the very last ones. The model is tied to the code by fault injection: the k-th write to the temporary stream raises for every k (sampled in quick), plus internal failure sources (writer raises, section encoder raises, PNG: oversize code / bad label / version > 255) x {.p8,.p8.png} x {destination exists, absent} x each Lua writer, comparing destination bytes and the recorded open/write trace. PARTIAL by nature: OS-level faults during the final copy are outside the model.',
         'Trusted: Lean kernel; the protocol abstraction (formatters as "writes then returns/raises"); tempfile/open semantics; fault injection is testing.',
         '5/C11'),
 'C13': ('Lean 4 proof of the section-selection fold (invariant over the six sections), conflict/unusable-argument failure; correspondence through real CLI builds',
         'Machine-checked proof (Lean 4) for EVERY argument assignment, file facts and previous OUT: after a successful build each section is the named source\'s section, the empty default, or OUT\'s previous section exactly as the arguments say; --X with --empty-X, a missing file or a wrong extension for any section makes the command fail before anything is written; a bad output name fails; no arguments reproduce OUT. Tied to build.py/tool.py by real `p8tool build` runs (quick: random assignments + every conflict kind for every section; thorough: all 4^6 assignments) whose outputs are read back and compared per section, including label preservation for .p8 and .p8.png outputs. PARTIAL: argparse wiring and cart I/O are correspondence-tested.',
         'Trusted: Lean kernel; the abstraction of carts as section->bytes; readers/writers (C03/C04); correspondence is testing.',
         '5/C13'),
}
NOT_YET = 'check not built yet in this round (framework under construction); will be claimed when its Lean model, theorems and correspondence run'

checks = []
for i in ids:
    if i in CLAIMED:
        tech, text, note, ref = CLAIMED[i]
        checks.append({
            'property_id': i,
            'quick_cmd': 'bin/check %s --tier quick' % i,
            'thorough_cmd': 'bin/check %s --tier thorough' % i,
            'evidence_file': 'evidence/%s.json' % i,
            'replay_cmd_template': 'bin/check %s --replay {path}' % i,
            'engine': 'lean4-proof+correspondence',
            'level_claimed': {'category': 'proof', 'text': text, 'design_ref': 'DESIGN.md section ' + ref},
            'level_note': note,
            'technique': tech,
        })
man = {
 'version': 1,
 'setup_cmd': 'bin/setup',
 'hooks': {
   'guard': 'PICOTOOL_VERIF',
   'enable': 'no source hooks are needed: every observation point is reached in-process by the harness (wrappers around open/os.path/temp streams and writer primitives)',
   'baseline_off_cmd': 'cd /repo && /venv/bin/python -m pytest -ra -q -p no:cacheprovider --timeout=900 --continue-on-collection-errors',
   'source_commits': [],
   'add_only': True,
 },
 'engines': [{
   'name': 'lean4-proof+correspondence', 'path': 'lean/ + harness/',
   'serves_properties': sorted(CLAIMED),
   'kind_free_text': 'Lean 4 theorems over hand-written executable models + tables regenerated from /repo on every run; compiled model driver diffed against the implementation (correspondence); direct property oracle on the implementation as failing-input search',
 }],
 'checks': checks,
 'notes': 'bin/check <id> regenerates lean/PicoVerif/Gen from /repo, rebuilds and audits the proofs, runs the correspondence and the failing-input search. See DESIGN.md.',
 'not_applicable': [{'property_id': i, 'reason': NOT_YET} for i in ids if i not in CLAIMED],
}
json.dump(man, open(os.path.join(HERE, 'MANIFEST.json'), 'w'), indent=1)
print('claimed', len(checks), 'unclaimed', len(man['not_applicable']))
