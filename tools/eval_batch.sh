#!/bin/sh
# tools/eval_batch.sh LETTER ID... — validate and evaluate sub-agent changes /tmp/mut/<ID>-out against the second checkout (/tmp/evalenv)
L="$1"; shift
/verif/tools/evalenv.sh - C18 >/dev/null 2>&1
cd /tmp/evalenv/verif || exit 2
for p in "$@"; do
  [ -f /tmp/mut/$p-out/patch.diff ] || { echo "$p: no patch"; continue; }
  PICOTOOL_REPO=/tmp/evalenv/repo python3 tools/eval_mutant.py /tmp/mut/$p-out $p $p-$L 2>&1 | python3 -c "
import sys,json
t=sys.stdin.read()
try:
    j=json.loads(t[t.index('{'):]); print(j['name'], j['verified'], j['tests'], j['demo'], j['checks'])
except Exception as e: print('ERR', t[-400:])
"
done
