#!/usr/bin/env python3
"""tools/eval_mutant.py SRC_DIR PROP NAME [--checks C01,C06]

Validate a seeded change produced by an independent sub-agent and run the registered check(s) against it.
SRC_DIR holds patch.diff, demo.py, meta.json.  Steps:
  1. scratch worktree of /repo HEAD (outside /repo and /verif): demo on the unchanged code must exit 0;
  2. apply the patch there: the full test suite must still pass (278), the demo must exit 1;
  3. remove the worktree;
  4. apply the patch to /repo, run `bin/check <prop> --tier quick` for each requested property, undo the patch;
  5. store patch, demo and an extended meta.json under /verif/seeded/NAME/.
"""
import json
import os
import re
import shutil
import subprocess
import sys

VERIF = os.path.dirname(os.path.dirname(os.path.abspath(__file__)))
REPO = os.environ.get('PICOTOOL_REPO', '/repo')      # the tree the checks look at (a second checkout allows evaluating in parallel)
PY = '/venv/bin/python'


def sh(cmd, cwd=None, timeout=3600):
    p = subprocess.run(cmd, cwd=cwd, shell=isinstance(cmd, str), capture_output=True, text=True, timeout=timeout)
    return p.returncode, p.stdout + p.stderr


def main():
    src, prop, name = sys.argv[1:4]
    checks = [prop]
    if '--checks' in sys.argv:
        checks = sys.argv[sys.argv.index('--checks') + 1].split(',')
    patch = os.path.join(src, 'patch.diff')
    demo = os.path.join(src, 'demo.py')
    meta = {}
    if os.path.exists(os.path.join(src, 'meta.json')):
        try:
            meta = json.load(open(os.path.join(src, 'meta.json')))
        except Exception:
            meta = {'raw_meta': open(os.path.join(src, 'meta.json')).read()[:2000]}
    wt = '/tmp/mutcheck-%s' % name
    sh(['git', '-C', '/repo', 'worktree', 'remove', '--force', wt])
    shutil.rmtree(wt, ignore_errors=True)
    sh(['git', '-C', '/repo', 'worktree', 'prune'])
    rc, out = sh(['git', '-C', '/repo', 'worktree', 'add', '-q', '--detach', wt, 'HEAD'])
    result = {'verified': False}
    try:
        rc0, out0 = sh([PY, demo], cwd=wt)
        result['demo_on_unchanged'] = rc0
        rca, outa = sh(['git', 'apply', os.path.abspath(patch)], cwd=wt)
        result['patch_applies'] = (rca == 0)
        if rca == 0:
            rct, outt = sh([PY, '-m', 'pytest', '-q', '-p', 'no:cacheprovider', 'tests'], cwd=wt)
            m = re.search(r'(\d+) passed', outt)
            result['tests_passed'] = int(m.group(1)) if m else 0
            result['tests_failed'] = ('failed' in outt.splitlines()[-1]) if outt.strip() else True
            rc1, out1 = sh([PY, demo], cwd=wt)
            result['demo_on_changed'] = rc1
            result['demo_output'] = out1[-600:]
            result['verified'] = (rc0 == 0 and rc1 == 1 and result['tests_passed'] == 278 and not result['tests_failed'])
    finally:
        sh(['git', '-C', '/repo', 'worktree', 'remove', '--force', wt])
        shutil.rmtree(wt, ignore_errors=True)
    result['checks'] = {}
    if result.get('patch_applies'):
        rca, outa = sh(['git', '-C', REPO, 'apply', os.path.abspath(patch)])
        try:
            if rca == 0:
                for c in checks:
                    rcc, outc = sh([os.path.join(VERIF, 'bin', 'check'), c, '--tier', 'quick'], cwd=VERIF)
                    line = [l for l in outc.splitlines() if l.startswith('VIOLATION') or l.startswith('OK ') or l.startswith('INFRA')]
                    entry = {'exit': rcc, 'line': line[-1] if line else outc[-300:]}
                    m = re.search(r'replay=(\S+)', entry['line'])
                    if m and os.path.exists(os.path.join(VERIF, m.group(1))):
                        rep = json.load(open(os.path.join(VERIF, m.group(1))))
                        entry['replay_kind'] = rep.get('kind')
                        entry['replay_what'] = (rep.get('what') or str(rep.get('theorem') or rep.get('correspondence')))[:400]
                    result['checks'][c] = entry
        finally:
            sh(['git', '-C', REPO, 'checkout', '--', '.'])
    dst = os.path.join(VERIF, 'seeded', name)
    os.makedirs(dst, exist_ok=True)
    shutil.copy(patch, os.path.join(dst, 'patch.diff'))
    shutil.copy(demo, os.path.join(dst, 'demo.py'))
    meta.update({'breaks_property': prop, 'validation': result,
                 'what_i_ran': ['demo on unchanged worktree (expect 0)', 'git apply patch.diff; pytest (expect 278 passed); demo (expect 1)',
                                'git -C /repo apply patch.diff; bin/check %s --tier quick; git -C /repo checkout -- .' % ','.join(checks)]})
    json.dump(meta, open(os.path.join(dst, 'meta.json'), 'w'), indent=1)
    print(json.dumps({'name': name, 'verified': result['verified'], 'tests': result.get('tests_passed'),
                      'demo': (result.get('demo_on_unchanged'), result.get('demo_on_changed')),
                      'checks': {k: (v['exit'], v.get('replay_kind'), (v.get('replay_what') or '')[:140]) for k, v in result['checks'].items()}}, indent=1))


if __name__ == '__main__':
    main()
