#!/bin/sh
# tools/mk_regress.sh COMMIT NAME : patch (against /repo HEAD) that re-introduces the defect fixed by COMMIT
set -e
W=/tmp/regress-wt
rm -rf $W; git -C /repo worktree prune; git -C /repo worktree add -q --detach $W HEAD
( cd $W && git revert -n "$1" >/dev/null && git diff HEAD > /verif/seeded/regress/$2.diff && git reset -q --hard )
git -C /repo worktree remove --force $W
echo "wrote seeded/regress/$2.diff"
