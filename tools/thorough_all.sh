#!/bin/sh
# tools/thorough_all.sh [SEED] — run every thorough check once on the current tree, one line per property with wall time
cd "$(dirname "$0")/.."
S=${1:-0}
for i in 01 02 03 04 05 06 07 08 09 10 11 12 13 14 15 16 17 18 19 20; do
  t0=$(date +%s)
  out=$(VERIF_SEED=$S timeout 7200 bin/check C$i --tier thorough 2>&1); rc=$?
  t1=$(date +%s)
  echo "C$i rc=$rc $((t1-t0))s $(printf '%s\n' "$out" | grep -a -E '^(OK|VIOLATION|INFRA)' | tail -1 | cut -c1-120)"
done
