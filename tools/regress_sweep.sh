#!/bin/sh
# tools/regress_sweep.sh — apply every seeded/regress/dNN-cXX-*.diff to /repo in turn and run the check of property CXX: each must
# report a VIOLATION with a failing input (one line per patch).
cd "$(dirname "$0")/.."
for f in seeded/regress/*.diff; do
  p=$(basename "$f" | sed -E 's/^d[0-9]+[a-z]?-c([0-9]+)-.*/C\1/')
  out=$(tools/with_patch.sh "$f" -- bin/check "$p" --tier quick 2>&1)
  line=$(printf '%s\n' "$out" | grep -a -E '^(OK|VIOLATION|INFRA|patch does not apply)' | tail -1 | cut -c1-90)
  kind=$(python3 -c "
import json,sys
try:
    d=json.load(open('replay/$p-${VERIF_SEED:-0}-0.json')); print(d.get('kind'))
except Exception as e: print('?')")
  echo "$(basename $f) $p: $line [$kind]"
done
