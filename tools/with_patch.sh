#!/bin/sh
# tools/with_patch.sh PATCH [-R] -- cmd...   apply PATCH to /repo, run cmd, always undo.
P="$1"; shift
REV=""
if [ "$1" = "-R" ]; then REV="-R"; shift; fi
[ "$1" = "--" ] && shift
git -C "${PICOTOOL_REPO:-/repo}" apply $REV "$(realpath "$P")" || { echo "patch does not apply"; exit 3; }
"$@"; RC=$?
git -C "${PICOTOOL_REPO:-/repo}" checkout -- . 
exit $RC
