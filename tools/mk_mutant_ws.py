#!/usr/bin/env python3
"""tools/mk_mutant_ws.py ROUND ID... — create scratch worktrees /tmp/mut/<ID> of /repo HEAD and /tmp/mut/<ID>-out with the
property text and the filled-in prompt (PROMPT.txt) for an independent sub-agent. Nothing from /verif besides the property text."""
import json
import os
import subprocess
import sys

VERIF = os.path.dirname(os.path.dirname(os.path.abspath(__file__)))


def main():
    rnd = sys.argv[1]
    ids = sys.argv[2:]
    props = {}
    for l in open(os.path.join(VERIF, 'properties.jsonl')):
        d = json.loads(l)
        props[d['id']] = d
    tmpl = open(os.path.join(VERIF, 'tools', 'mutant_prompt.txt')).read()
    os.makedirs('/tmp/mut', exist_ok=True)
    for i in ids:
        wt = '/tmp/mut/%s' % i
        subprocess.run(['git', '-C', '/repo', 'worktree', 'remove', '--force', wt], capture_output=True)
        subprocess.run(['git', '-C', '/repo', 'worktree', 'prune'])
        subprocess.run(['git', '-C', '/repo', 'worktree', 'add', '-q', '--detach', wt, 'HEAD'], check=True)
        out = wt + '-out'
        os.makedirs(out, exist_ok=True)
        d = props[i]
        text = '%s — %s\n\n%s\n\nQuantified over: %s\n\nWhy the tests cannot settle it: %s\n\nCode anchors: %s\n' % (
            d['id'], d['title'], d['statement'], d['quantifier']['text'], d['why_tests_cant'], json.dumps(d['anchors'], indent=1))
        open(os.path.join(out, 'property.txt'), 'w').write(text)
        extra = ('\nThis is round %s: other people have already tried the most obvious change for this property. Prefer a different code site or '
                 'mechanism than the first one that comes to mind — look through ALL the anchors and the code around them before choosing.\n' % rnd)
        ms = d['anchors'].get('mechanism', [])
        if rnd.isdigit() and int(rnd) >= 14:
            extra += ('Earlier rounds covered single-site slips, kept state, extreme sizes, unusual argument forms, cooperating edits and '
                      'well-meant fast paths / simplifications. Assume the property is ALREADY watched by a randomised differential checker '
                      'that feeds generated inputs through the code and compares with a reference. Read the "Quantified over" sentence and '
                      'choose a change whose failing inputs lie inside that domain but are ones a random generator would produce with '
                      'negligible probability: a precise coincidence of two values (a length equal to a particular multiple, two fields '
                      'equal to each other, a byte sequence that happens to spell something), a particular ORDER of otherwise ordinary '
                      'items, an item repeated exactly N times, a boundary reached only through a combination of options, or an input '
                      'that is the OUTPUT of another picotool command. The more ordinary each ingredient looks, the better.\n')
        elif rnd.isdigit() and int(rnd) >= 13:
            extra += ('Earlier rounds covered single-site slips, state kept between calls, extreme sizes, unusual argument forms and pairs of '
                      'cooperating edits. This time write the change the way a well-meaning contributor would: a performance FAST PATH that '
                      'skips work when a cheap test says the result cannot change (and the test is slightly too generous), a SIMPLIFICATION '
                      'that replaces a loop by a slice / regular expression / built-in whose behaviour differs at an edge (empty match, '
                      'overlapping matches, greedy vs lazy, bytes vs int iteration, negative index, step), a small NEW FEATURE or tolerance '
                      '("also accept ...") whose default path changes an existing behaviour, or a "fix" of something that was not broken. '
                      'The commit should read as an improvement to a reviewer.\n')
        elif rnd.isdigit() and int(rnd) >= 12:
            extra += ('Earlier rounds covered single-site slips, state kept between calls, extreme sizes and unusual argument forms. This time make '
                      'a change of TWO cooperating code sites that each look fine alone (e.g. a producer and a consumer changed consistently for '
                      'the common case but inconsistently for a rare one; a constant changed in one module and its twin left alone; an encoder '
                      'and decoder that still agree with each other but no longer with the documented format), or a change in a helper shared '
                      'by several callers that is right for the caller you would test first and wrong for another.\n')
        elif rnd.isdigit() and int(rnd) >= 10:
            extra += ('Earlier rounds ALSO covered state kept between calls (caches, shared defaults, class attributes). This time avoid caches '
                      'and shared state. Think instead of: deep nesting / recursion depth, very long or very many items, numeric extremes, '
                      'rarely used but legal syntax or option combinations, interactions between two features of the format, behaviour at '
                      'the very first or very last element, iteration order, integer vs byte vs str confusions, error paths that are taken '
                      'only for particular inputs.\n')
        elif rnd.isdigit() and int(rnd) >= 8:
            extra += ('Earlier rounds already covered: wrong table entries, off-by-one at size limits, dropped special cases in a single call. '
                      'Prefer a change whose effect needs a HISTORY (state kept between two calls in one process: caches, shared default '
                      'arguments, class attributes, in-place edits of arguments), an unusual but legal ARGUMENT FORM (types, empty values, '
                      'relative vs absolute names, options combined), or an ENVIRONMENT difference (working directory, environment variables, '
                      'existing files).\n')
        if ms and rnd.isdigit() and int(rnd) >= 4:
            k = (int(rnd) - 3) % len(ms)
            extra += ('Target specifically this mechanism of the property (one of its code anchors): "%s" at %s. Your change must be in or directly '
                      'around that code; do not change any other anchor.\n' % (ms[k]['name'], ms[k]['where']))
        open(os.path.join(out, 'PROMPT.txt'), 'w').write(tmpl.replace('@ID@', i).replace('@PROPERTY@', text) + extra)
        print(wt)


if __name__ == '__main__':
    main()
