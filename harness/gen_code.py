"""Small generator of lexable/parsable PICO-8 Lua text over all 256 P8SCII byte values (for cart-level
properties C03/C04/C13 where the Lua layer is not the subject). The full grammar-directed generator is gen_lua.py."""


def _ident(rng):
    first = b'abcdefghijklmnopqrstuvwxyz_' + bytes(range(0x80, 0x100))
    rest = first + b'0123456789'
    n = rng.choice([1, 1, 2, 3, 6])
    s = bytes([rng.choice(first)]) + bytes(rng.choice(rest) for _ in range(n - 1))
    if s in (b'if', b'do', b'in', b'or', b'end', b'and', b'for', b'nil', b'not'):
        s += b'_'
    return s


def _strbody(rng, quote, n):
    out = bytearray()
    for _ in range(n):
        b = rng.randrange(256)
        if b in (quote, 0x5c, 0x0a):
            continue
        out.append(b)
    return bytes(out)


def gen_code(rng, lines=None, final_newline=None, crlf=False):
    """Random code: comment lines, string assignments with arbitrary bytes, numbers, glyph identifiers."""
    n = rng.choice([0, 1, 2, 5, 12]) if lines is None else lines
    out = []
    for _ in range(n):
        k = rng.randrange(7)
        if k == 0:
            body = bytes(b for b in (rng.randrange(256) for _ in range(rng.randrange(0, 20))) if b not in (0x0a,))
            if body[:1] == b'[':
                body = b' ' + body          # (`--[[` / `--[=[` would open a block comment that never closes)
            out.append(b'--' + body)
        elif k == 1:
            q = rng.choice(b'"\'')
            out.append(_ident(rng) + b'=' + bytes([q]) + _strbody(rng, q, rng.randrange(0, 24)) + bytes([q]))
        elif k == 2:
            out.append(_ident(rng) + b' = ' + rng.choice([b'1', b'0x1f.8', b'0b101', b'12.5', b'.5', b'3e2', b'nil', b'true']))
        elif k == 3:
            out.append(b'function ' + _ident(rng) + b'(' + _ident(rng) + b') return ' + _ident(rng) + b'+1 end')
        elif k == 4:
            out.append(b'if (' + _ident(rng) + b') ' + _ident(rng) + b'=1')
        elif k == 5:
            out.append(b'')
        else:
            out.append(b'print("' + _strbody(rng, 0x22, 8) + b'")  // ' + _strbody(rng, 0, 5).replace(b'[[', b'[ ['))
    nl = b'\r\n' if crlf else b'\n'
    text = nl.join(out)
    if final_newline is None:
        final_newline = rng.random() < 0.6
    if final_newline and out:
        text += nl
    return text
