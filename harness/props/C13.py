"""C13 — build takes each section from exactly the source the arguments name: real CLI builds vs the selection model."""
import contextlib
import io
import itertools
import os
import shutil

from common import hx
import implutil as U
import gen_code
from ref import png as refpng

ASSUMPTIONS = ['code is compared as join(to_lines()) modulo the trailing-newline / CR normalisation of the .p8.png reader (C03/C04)',
               'lua from a .lua file is compared with the file\'s text (no require() in these sources; require is C14)']
TRUSTED_EXTRA = ['modelled by hand: the section loop of build.do_build (build.py:241-307) as Model/Build.lean; argparse wiring and the cart '
                 'readers/writers are exercised by the correspondence only']
PARTIAL = 'C13: proof of the selection logic; the wiring argparse -> do_build is correspondence-tested'
SECS = ('lua', 'gfx', 'gff', 'map', 'sfx', 'music')


def norm_code(c):
    return c.replace(b'\r', b' ').rstrip(b'\n')


def cart_contents(path):
    from pico8.game import file as gfile
    g = gfile.from_file(path)
    d = U.regions_of(g)
    d['music'] = bytes(b & 127 if i % 4 == 3 else b for i, b in enumerate(d['music']))
    d['lua'] = norm_code(b''.join(g.lua.to_lines()))
    d['label'] = bytes(g.label._data) if g.label is not None else None
    return d


class World:
    def __init__(self, ctx, rng):
        self.problems = []
        self.ctx, self.rng = ctx, rng
        self.n = 0
        from pico8.game import file as gfile
        self.gfile = gfile
        self.empty = None

    def new_cart(self, ext, with_label=False, path=None):
        rng = self.rng
        self.n += 1
        path = path or os.path.join(self.ctx.tmp, 'src%d%s' % (self.n, ext))
        code = b'-- cart %d\n' % self.n + gen_code.gen_code(rng, lines=rng.choice([1, 3]), final_newline=True)
        # (a NUL byte in code that a .p8.png stores raw is cut there: open known finding C04:raw-code-with-nul, not this property's subject)
        code = code.replace(b'\x00', b'\x01')
        label = U.rand_bytes(rng, 0x2000, 'uniform') if (with_label and ext == '.p8') else None
        try:
            g = U.make_game(rng=rng, code=code, version=8, label=label)
        except Exception:
            # (the small code generator can, rarely, produce text the lexer refuses: not a case for this property)
            code = b'-- cart %d\nx=%d\n' % (self.n, self.n)
            g = U.make_game(rng=rng, code=code, version=8, label=label)
        if with_label and ext == '.p8.png':
            # an existing .p8.png OUT carries its own picture (not the bundled blank one): written over a random 160x205 image
            from props import C04
            lab_path, lab_rows = C04.make_label(self.ctx, rng, 'label_src%d.png' % self.n)
            shutil.copy(lab_path, path)
            self.gfile.to_file(g, path)
            # the cart just written over that picture is an "existing OUT" of later builds: it must show the picture (whatever
            # ancillary chunks the picture file carried), or "OUT's own label" would silently mean the blank one from here on
            got_rows = refpng.decode(open(path, 'rb').read())[3]
            if any((x >> 2) != (y >> 2) for r1, r2 in zip(got_rows, lab_rows) for x, y in zip(r1, r2)):
                self.problems.append(('C13:existing-out-label', 'a cart written over an existing .p8.png picture does not show that picture '
                                      '(the label of an existing OUT is not kept)', {'label_file': os.path.basename(lab_path)}))
            return path
        self.gfile.to_file(g, path)
        return path

    def new_lua(self):
        self.n += 1
        path = os.path.join(self.ctx.tmp, 'src%d.lua' % self.n)
        with open(path, 'wb') as fh:
            fh.write(b'-- lua file %d\nx=%d\n' % (self.n, self.n))
        return path


def run_build(argv):
    from pico8 import tool
    buf = io.StringIO()
    with U.quiet(), contextlib.redirect_stdout(buf), contextlib.redirect_stderr(buf):
        try:
            return tool.main(['-q', 'build'] + argv)
        except SystemExit as e:
            return 'exit %s' % e.code
        except BaseException as e:
            return 'raise ' + type(e).__name__


def one_build(ctx, res, w, assign, out_state, out_ext, lines, expect, cases, conflict=None):
    """assign: per section one of 'u' (unspecified), 'p8', 'png', 'e' (empty), 'lua' (only lua)."""
    rng = w.rng
    w.n += 1
    out = os.path.join(ctx.tmp, '%s%d%s' % (rng.choice(['out', 'out', 'my.game', 'v1.2-', '.hidden', 'a.p8.b']), w.n, out_ext))
    prev = None
    if out_state == 'exists':
        src = w.new_cart(out_ext, with_label=True)
        shutil.copy(src, out)
        prev = cart_contents(out)
        prev_bytes = open(out, 'rb').read()
    argv, want, model_secs = [], {}, []
    empty = cart_contents_empty(w)
    # names that contain one another: the .p8 and the .p8.png of one game side by side (`build game.p8.png --gfx game.p8`), a source
    # whose name continues OUT's; each is a file of its own
    twin = {'p8': out[:-4] if out_ext == '.p8.png' else None, 'png': out + '.png' if out_ext == '.p8' else None}
    use_twin = rng.random() < 0.35
    for s in SECS:
        a = assign[s]
        if a in ('p8', 'png', 'lua'):
            tw = twin.get(a) if use_twin else None
            if tw and os.path.exists(tw):
                tw = None
            path = w.new_lua() if a == 'lua' else w.new_cart('.p8' if a == 'p8' else '.p8.png', path=tw)
            argv += ['--' + s, path]
            want[s] = norm_code(open(path, 'rb').read()) if a == 'lua' else cart_contents(path)[s]
            model_secs.append('%d,0,1,%d,%d' % (SECS.index(s) + 1, 0 if a == 'lua' else 1, 1 if a == 'lua' else 0))
        elif a == 'e':
            argv += ['--empty-' + s]
            want[s] = empty[s]
            model_secs.append('n,1,0,0,0')
        else:
            want[s] = prev[s] if prev is not None else empty[s]
            model_secs.append('n,0,0,0,0')
    if conflict:
        s, kind = conflict
        i = SECS.index(s)
        if kind == 'both':
            path = w.new_cart('.p8')
            argv += ['--' + s, path, '--empty-' + s]
            model_secs[i] = '%d,1,1,1,0' % (i + 1)
        elif kind == 'both-self':
            argv += ['--' + s, rng.choice([out, os.path.relpath(out), os.path.join(os.path.dirname(out), '.', os.path.basename(out))]), '--empty-' + s]       # the source is OUT itself
            model_secs[i] = '%d,1,%d,1,0' % (i + 1, 1 if prev is not None else 0)
        elif kind == 'missing-self':
            argv += ['--' + s, rng.choice([out, os.path.relpath(out)])]        # OUT itself, which does not exist (only used with OUT absent)
            model_secs[i] = '%d,0,0,1,0' % (i + 1)
        elif kind == 'missing':
            argv += ['--' + s, os.path.join(ctx.tmp, 'does_not_exist.p8')]
            model_secs[i] = '%d,0,0,1,0' % (i + 1)
        elif kind == 'empty':
            argv += ['--' + s, '']                      # an empty file name (e.g. an unset shell variable): a file that does not exist
            model_secs[i] = '%d,0,0,0,0' % (i + 1)
        elif kind == 'empty-both':
            argv += ['--' + s, '', '--empty-' + s]
            model_secs[i] = '%d,1,0,0,0' % (i + 1)
        elif kind == 'luaext':
            bad = os.path.join(ctx.tmp, 'code%d.lua' % w.n)   # a .lua file is a source for the lua section only
            open(bad, 'wb').write(b'x=1\n')
            argv += ['--' + s, bad]
            model_secs[i] = '%d,0,1,0,1' % (i + 1)
        elif kind == 'ext':
            bad = os.path.join(ctx.tmp, 'wrong%d.txt' % w.n)
            open(bad, 'wb').write(b'x')
            argv += ['--' + s, bad]
            model_secs[i] = '%d,0,1,0,0' % (i + 1)
    argv.append(out)
    rc = run_build(argv)
    res.evaluations += 1
    key = 'C13:%s:%s:%s%s' % (''.join(assign[s][0] for s in SECS), out_state, out_ext, ':' + '-'.join(conflict) if conflict else '')
    inp = {'assignment': assign, 'out': out_state, 'out_ext': out_ext, 'conflict': conflict}
    lines.append('build 1 %d %s' % (1 if prev is not None else 0, ' '.join(model_secs)))
    cases.append({'op': 'build', 'case': key})
    if conflict:
        expect.append('err')
        after = open(out, 'rb').read() if os.path.exists(out) else None
        if rc == 0:
            res.fail(key, 'conflicting/unusable arguments (%s) did not make build fail' % (conflict,), inp)
        elif (prev is None and after is not None) or (prev is not None and after != prev_bytes):
            res.fail(key, 'a failed build modified OUT', inp)
        return
    if rc != 0 or not os.path.exists(out):
        res.fail(key, 'build failed (rc=%r) on usable arguments' % (rc,), inp)
        expect.append('err')
        return
    got = cart_contents(out)
    tags = []
    for s in SECS:
        if got[s] != want[s]:
            res.fail(key, 'section %s of OUT is not the one the arguments name (%s)' % (s, assign[s]), inp,
                     observed=hx(got[s])[:400], expected=hx(want[s])[:400])
            break
    if prev is not None and out_ext == '.p8' and got['label'] != prev['label']:
        res.fail(key, 'the label section of an existing .p8 OUT was not kept', inp)
    if prev is not None and out_ext == '.p8.png':
        a = refpng.decode(prev_bytes)[3]
        b = refpng.decode(open(out, 'rb').read())[3]
        if any((x >> 2) != (y >> 2) for r1, r2 in zip(a, b) for x, y in zip(r1, r2)):
            res.fail(key, 'the label image of an existing .p8.png OUT was not kept', inp)
    expect.append('ok ' + ' '.join(('F%d' % (SECS.index(s) + 1)) if assign[s] in ('p8', 'png', 'lua') else ('E' if assign[s] == 'e' else ('O' if prev is not None else 'E'))
                                   for s in SECS) + (' O' if prev is not None else ' E'))      # (last field: the label is OUT's own, or the empty default)
    res.nontrivial.add((tuple(assign[s] for s in SECS), out_state, out_ext))


_EMPTY = {}


def cart_contents_empty(w):
    if not _EMPTY:
        # the empty default = what a fresh `p8tool` process starts from: computed in a separate interpreter, so that nothing this
        # (long-lived) process has loaded or edited before can leak into the reference
        import subprocess
        import sys
        from common import REPO
        p = os.path.join(w.ctx.tmp, 'empty_ref.p8')
        code = ('import sys; sys.path.insert(0, %r); sys.dont_write_bytecode = True\n'
                'from pico8.game.game import Game; from pico8.game import file\n'
                'file.to_file(Game.make_empty_game(), %r)\n' % (REPO, p))
        r = subprocess.run([sys.executable, '-c', code], capture_output=True, text=True)
        if r.returncode != 0 or not os.path.exists(p):
            raise RuntimeError('reference empty cart could not be produced: ' + r.stderr[-300:])
        _EMPTY.update(cart_contents(p))
    return _EMPTY


def run(ctx, res):
    rng = ctx.rng
    res.rule = ('assignments of {unspecified, from .p8, from .p8.png, empty} to the six sections (lua additionally from a .lua file) x '
                '{OUT absent, existing} x {.p8, .p8.png}: thorough = all 4^6 x 3 x ... , quick = a pairwise-covering random sample; plus every '
                'conflict/unusable-argument kind for every section; real `p8tool build` runs, outputs read back; '
                'distinct non-trivial = distinct (assignment, OUT state, OUT format)')
    w = World(ctx, rng)
    lines, expect, cases = [], [], []
    # history: this process has already created, loaded and edited carts before the first build (a long-lived tool or library user);
    # nothing of that may show up in what `build` treats as the empty default or as unspecified sections of a new OUT
    first = w.new_cart('.p8', with_label=True)
    gfirst = w.gfile.from_file(first)
    gfirst.gfx.set_sprite(0, [[1, 2, 3]])
    gfirst.sfx.set_note(0, 0, pitch=12, waveform=3, volume=5, effect=1)
    # ... and has created and edited empty carts (in place, through the library)
    from pico8.game.game import Game
    for _ in range(2):
        eg = Game.make_empty_game()
        eg.gfx.set_sprite(3, [[7, 8, 9, 10]])
        eg.map.set_cell(5, 5, 77)
        eg.gff.set_flags(9, 0x81)
        eg.sfx.set_note(2, 3, pitch=40, waveform=5, volume=6, effect=2)
        eg.music.set_channel(1, 2, 33)
        eg.write_cart_data(bytes([0x5a]) * 64, 0x2ff0)
    res.count('history-before-first-build')
    # the empty default itself: what `--empty-X` and a new OUT receive is the content of a new PICO-8 cart (Lean `Spec.Empty`, written from
    # the format: zero sheet/map/flags, silent music patterns 41 42 43 44, sound effects with speed 16 — speed 1 for sound effect 0 —, no code)
    if ctx.model.available:
        spec_e = ctx.model.run(['emptycart'])[0].split(' ')
        if spec_e[0] != 'ok' or len(spec_e) != 6:
            res.diff({'op': 'emptycart'}, 'ok <5 regions>', ' '.join(spec_e)[:80])
        else:
            spec_empty = dict(zip(('gfx', 'map', 'gff', 'music', 'sfx'), (bytes.fromhex(x) for x in spec_e[1:])))
            for how in ('flag', 'new-out'):
                outp = os.path.join(ctx.tmp, 'emptydef_%s.p8' % how)
                argv = (sum([['--empty-' + s_] for s_ in ('gfx', 'map', 'gff', 'music', 'sfx', 'lua')], []) if how == 'flag' else ['--empty-lua']) + [outp]
                if how == 'flag':
                    shutil.copy(first, outp)
                rc = run_build(argv)
                res.evaluations += 1
                res.count('empty-default-vs-spec')
                got = cart_contents(outp) if rc == 0 and os.path.exists(outp) else None
                for s_ in ('gfx', 'map', 'gff', 'music', 'sfx'):
                    if got is None or got[s_] != spec_empty[s_]:
                        at = next((i_ for i_ in range(len(spec_empty[s_])) if got is None or i_ >= len(got[s_]) or got[s_][i_] != spec_empty[s_][i_]), None)
                        res.fail('C13:empty-default:%s:%s' % (how, s_), 'p8tool build %s: section %s is not the content of a new PICO-8 cart (first difference at byte %s%s)' % (
                            ' '.join(a_ if not a_.startswith('/') else os.path.basename(a_) for a_ in argv), s_, at,
                            '' if got is None or at is None or at >= len(got[s_]) else ': %d instead of %d' % (got[s_][at], spec_empty[s_][at])),
                            {'argv': [os.path.basename(a_) if a_.startswith('/') else a_ for a_ in argv], 'out_existed': how == 'flag'})
                        break
                if got is not None and got['lua'].strip() != b'':
                    res.fail('C13:empty-default:%s:lua' % how, '--empty-lua left code in OUT: %r' % got['lua'][:60], {'argv': [os.path.basename(a_) if a_.startswith('/') else a_ for a_ in argv]})
    opts = ['u', 'p8', 'png', 'e']
    if ctx.tier == 'thorough':
        assigns = [dict(zip(SECS, t)) for t in itertools.product(opts, repeat=6)]
        rng.shuffle(assigns)
    else:
        assigns = [dict((s, rng.choice(opts)) for s in SECS) for _ in range(ctx.budget(70, 400))]
        assigns += [dict((s, o) for s in SECS) for o in opts]
    for i, a in enumerate(assigns):
        a = dict(a)
        if a['lua'] == 'p8' and i % 3 == 0:
            a['lua'] = 'lua'
        out_state = ['absent', 'exists'][i % 2]
        out_ext = ['.p8', '.p8.png'][(i // 2) % 2]
        one_build(ctx, res, w, a, out_state, out_ext, lines, expect, cases)
        res.count('builds')
    for s in SECS:
        for kind in ('both', 'missing', 'ext', 'empty', 'empty-both', 'both-self', 'missing-self') + (('luaext',) if s != 'lua' else ()):
            for out_state in ('absent', 'exists'):
                if kind == 'missing-self' and out_state == 'exists':
                    continue
                a = dict((t, rng.choice(['u', 'e'])) for t in SECS)
                a[s] = 'u'
                one_build(ctx, res, w, a, out_state, rng.choice(['.p8', '.p8.png']), lines, expect, cases, conflict=(s, kind))
                res.count('conflicts')
    # file names are taken as given: a directory literally named `~` (or `$HOME`, `%x`) is not the home directory
    tw = os.path.join(ctx.tmp, 'tilde')
    fake_home = os.path.join(ctx.tmp, 'fakehome')
    saved_cwd, saved_home = os.getcwd(), os.environ.get('HOME')
    try:
        for d in ('~', '$HOME', '~user'):
            os.makedirs(os.path.join(tw, d), exist_ok=True)
        os.makedirs(fake_home, exist_ok=True)
        os.chdir(tw)
        os.environ['HOME'] = fake_home
        for d in ('~', '$HOME', '~user'):
            src = w.new_cart('.p8')
            decoy = w.new_cart('.p8')
            shutil.copy(src, os.path.join(tw, d, 'a.p8'))
            shutil.copy(decoy, os.path.join(fake_home, 'a.p8'))
            for out_rel, out_abs in ((os.path.join(d, 'o.p8'), os.path.join(tw, d, 'o.p8')), ('o2.p8', os.path.join(tw, 'o2.p8'))):
                for pth in (out_abs, os.path.join(fake_home, 'o.p8')):
                    if os.path.exists(pth):
                        os.remove(pth)
                rc = run_build(['--gfx', os.path.join(d, 'a.p8'), out_rel])
                res.evaluations += 1
                res.count('literal-tilde-paths')
                res.nontrivial.add(('tilde', d, out_rel))
                key = 'C13:literal-path:%s:%s' % (d, out_rel)
                if rc != 0 or not os.path.exists(out_abs):
                    res.fail(key, 'build --gfx %s/a.p8 %s (directory literally named %s): rc=%r, OUT written at the named place: %s' % (
                        d, out_rel, d, rc, os.path.exists(out_abs)), {'argv': ['--gfx', d + '/a.p8', out_rel], 'cwd_has_dir': d})
                elif cart_contents(out_abs)['gfx'] != cart_contents(src)['gfx']:
                    res.fail(key, 'build --gfx %s/a.p8 took the gfx section from another file than the one named' % d,
                             {'argv': ['--gfx', d + '/a.p8', out_rel], 'cwd_has_dir': d})
    finally:
        os.chdir(saved_cwd)
        if saved_home is None:
            os.environ.pop('HOME', None)
        else:
            os.environ['HOME'] = saved_home
    # the same RELATIVE source and output names used from two working directories in one process: each build reads and writes the files
    # of ITS directory
    saved_cwd2 = os.getcwd()
    try:
        dirs = [os.path.join(ctx.tmp, 'wd_a'), os.path.join(ctx.tmp, 'wd_b')]
        contents = {}
        for d in dirs:
            os.makedirs(d, exist_ok=True)
            src = w.new_cart('.p8')
            shutil.copy(src, os.path.join(d, 'art.p8'))
            contents[d] = cart_contents(src)
        for rnd_ in range(2):
            for d in dirs:
                os.chdir(d)
                if os.path.exists('out.p8'):
                    os.remove('out.p8')
                rc = run_build(['--gfx', 'art.p8', '--sfx', 'art.p8', 'out.p8'])
                res.evaluations += 1
                res.count('relative-names-after-chdir')
                res.nontrivial.add(('chdir', os.path.basename(d), rnd_))
                key = 'C13:chdir:%s:%d' % (os.path.basename(d), rnd_)
                if rc != 0 or not os.path.exists(os.path.join(d, 'out.p8')):
                    res.fail(key, 'build --gfx art.p8 --sfx art.p8 out.p8 in %s: rc=%r, out.p8 written there: %s' % (
                        os.path.basename(d), rc, os.path.exists(os.path.join(d, 'out.p8'))), {'cwd': os.path.basename(d)})
                    continue
                got = cart_contents(os.path.join(d, 'out.p8'))
                if got['gfx'] != contents[d]['gfx'] or got['sfx'] != contents[d]['sfx']:
                    res.fail(key, 'build run in %s with relative names took gfx/sfx from another directory\'s art.p8' % os.path.basename(d),
                             {'cwd': os.path.basename(d), 'history': 'the same command was run in %s before' % os.path.basename(dirs[0])})
    finally:
        os.chdir(saved_cwd2)
    # output name that is not a cart
    rc = run_build(['--empty-gfx', os.path.join(ctx.tmp, 'out.txt')])
    res.evaluations += 1
    if rc == 0 or os.path.exists(os.path.join(ctx.tmp, 'out.txt')):
        res.fail('C13:bad-out-name', 'build with an output name that is neither .p8 nor .p8.png did not fail cleanly', {})
    res.sample({'assignment': assigns[0], 'model_line': lines[0], 'outcome': expect[0]})
    for k_, what_, inp_ in w.problems[:3]:
        res.fail(k_, what_, inp_)
    if ctx.model.available:
        for c, e, g in zip(cases, expect, ctx.model.run(lines)):
            gg = g if g.startswith('ok') else 'err'
            if e != gg:
                res.diff(c, e, g)


def replay(ctx, rep, res):
    run(ctx, res)
    return not res.failures and not res.diffs
