"""C12 — require() and #include never read outside the permitted directories: canary layouts + access recording + path model."""
import contextlib
import io
import itertools
import os

from common import hx, unhx
import implutil as U
import incutil as I

ASSUMPTIONS = ['"located under" is lexical (normalised absolute paths); symbolic links are outside the model',
               'cart and source file names handed to the tool are absolute']
TRUSTED_EXTRA = ['modelled by hand: os.path.normpath/join/dirname and the containment test as Base/Path.lean; the require() filter and candidate '
                 'construction, the #include check as Model/Include.lean']
PARTIAL = 'C12: proof over the lexical path model; symlinks and the real file system are outside it'
COMP = ['x', 'lib', '.', '..', '', 'foo', 'foobar', 'inc.lua', 'c.p8']


def run(ctx, res):
    rng = ctx.rng
    from pico8.game import file as gfile
    from pico8 import tool
    res.rule = ('path strings of up to 4 components over {name, ., .., empty, sub, prefix-sharing sibling, absolute, trailing/leading '
                'separators} for #include and require(); layouts with canary files outside every root; load paths default / relative / '
                'absolute / environment variable; every path reaching open/isfile/exists recorded; os.path functions vs the path model; '
                'distinct non-trivial = distinct path strings that contain a separator, a dot component or are absolute')
    base = os.path.join(ctx.tmp, 'layout')
    root = os.path.join(base, 'foo')           # cart directory = include root
    sib = os.path.join(base, 'foobar')         # prefix-sharing sibling
    outside = os.path.join(base, 'secret')
    for d, names in ((root, ['inc.lua', 'lib/inc.lua', 'x.lua', 'x/init.lua']), (sib, ['inc.lua', 'x.lua', 'init.lua']),
                     (outside, ['inc.lua', 'x.lua', 'init.lua']), (base, ['inc.lua', 'init.lua', 'x.lua']),
                     (os.path.join(base, 'libs'), ['x.lua', 'pkg/init.lua'])):
        for nme in names:
            I.write(os.path.join(d, nme), b'canary_%s=1\n' % os.path.basename(d).encode())
    allowed_inc = [root]
    lines, expect, cases = [], [], []
    # ---- #include
    paths = set()
    for n in range(1, 4):
        for tup in itertools.product(COMP, repeat=n):
            p = '/'.join(tup)
            if p:
                paths.add(p)
    paths |= {os.path.join(sib, 'inc'), os.path.join(outside, 'inc'), '/etc/passwd', '../foobar/inc', '../foo/inc', 'lib/../inc', './inc', '..//foobar/inc',
              'lib/../../secret/inc', '../secret/x', 'foo/../../foo/inc'}
    paths = sorted(paths)
    if not ctx.thorough():
        paths = rng.sample(paths, min(len(paths), 220)) + ['../foobar/inc', '../secret/inc', 'inc', 'lib/inc', os.path.join(outside, 'inc')]
    g = U.make_game(rng=rng, code=b'x=1\n', version=8)
    cart = os.path.join(root, 'main.p8')
    gfile.to_file(g, cart)
    template = open(cart, 'rb').read()
    for p in paths:
        target = p if p.endswith(('.lua', '.p8')) else p + '.lua'
        I.write(cart, template.replace(b'x=1\n', b'#include ' + target.encode() + b'\nx=1\n'))
        with I.Recorder() as rec:
            try:
                gfile.from_file(cart)
                status = 'ok'
            except Exception as e:
                status = 'err ' + U.exc_kind(e)
        res.evaluations += 1
        if '/' in p or '.' in p.split('/'):
            res.nontrivial.add(('inc', p))
        bad = [t for t in rec.touched() if not I.under(t, root) and t != os.path.normpath(cart)]
        full = os.path.normpath(os.path.join(root, target))
        key = 'C12:include:' + p
        if bad:
            res.fail(key, '#include %s made picotool access %s, outside the include root %s' % (target, bad[0], root), {'include': target})
        elif not I.under(full, root) and status == 'ok':
            res.fail(key, '#include %s resolves outside the include root but was accepted' % target, {'include': target})
        lines.append('incline %s %s %s' % (I.hp(root), I.hp(root), hx(b'#include ' + target.encode() + b'\n')))
        m_out = 'err outside-root' if status == 'err outside-root' else ('want' if status in ('ok', 'err not-found') or status.startswith('err') else status)
        expect.append(m_out)
        cases.append({'op': 'incline', 'include': target, 'impl': status})
        res.count('include:' + status)
    # ---- #include from a cart in a SUBFOLDER of the PICO-8 carts folder: the include root is the carts folder, not the cart's directory
    home = os.path.join(base, 'home2')
    carts = os.path.join(home, '.lexaloffle', 'pico-8', 'carts')
    for rel in ('x.lua', 'sub/y.lua', 'sub/deep/z.lua', 'other/x.lua'):
        I.write(os.path.join(carts, rel), b'inside_%s=1\n' % rel.replace('/', '_').replace('.', '_').encode())
    for rel in ('secret.lua', 'x.lua', 'y.lua', 'sub/y.lua', 'carts2/x.lua'):          # canaries above / beside the carts folder
        I.write(os.path.join(carts, '..', rel), b'canary_above=1\n')
        I.write(os.path.join(home, rel), b'canary_home=1\n')
    saved_home = os.environ.get('HOME')
    os.environ['HOME'] = home
    try:
        sub_cart = os.path.join(carts, 'sub', 'c.p8')
        os.makedirs(os.path.dirname(sub_cart), exist_ok=True)
        tails = ['x.lua', 'y.lua', 'secret.lua', 'sub/y.lua', 'sub/deep/z.lua', 'deep/z.lua', 'other/x.lua', 'carts/x.lua', 'carts/sub/y.lua',
                 'carts2/x.lua', 'pico-8/carts/x.lua', 'pico-8/secret.lua']
        incs = sorted({up + mid + t for up in ('', '../', '../../', '../../../', '../../../../') for mid in ('', './', 'deep/../', 'sub/../')
                       for t in tails})
        if not ctx.thorough():
            incs = rng.sample(incs, min(len(incs), 140)) + ['../secret.lua', '../x.lua', 'y.lua', '../../secret.lua', '../../carts/x.lua', '../../carts2/x.lua', 'deep/../../secret.lua']
        for p_ in incs:
            I.write(sub_cart, template.replace(b'x=1\n', b'#include ' + p_.encode() + b'\nx=1\n'))
            with I.Recorder() as rec:
                try:
                    gfile.from_file(sub_cart)
                    status = 'ok'
                except Exception as e:
                    status = 'err ' + U.exc_kind(e)
            res.evaluations += 1
            res.nontrivial.add(('inc-carts', p_))
            res.count('include-from-carts-subfolder:' + status)
            bad = [t for t in rec.touched() if not I.under(t, carts) and t != os.path.normpath(sub_cart)]
            full = os.path.normpath(os.path.join(os.path.dirname(sub_cart), p_))
            key = 'C12:include-carts:' + p_
            if bad:
                res.fail(key, '#include %s from %s made picotool access %s, outside the include root %s' % (p_, sub_cart, bad[0], carts), {'include': p_, 'cart': 'carts/sub/c.p8'})
            elif not I.under(full, carts) and status == 'ok':
                res.fail(key, '#include %s resolves outside the carts folder but was accepted' % p_, {'include': p_, 'cart': 'carts/sub/c.p8'})
            elif I.under(full, carts) and os.path.isfile(full) and status != 'ok':
                res.fail(key, '#include %s names a file inside the carts folder but was refused (%s)' % (p_, status), {'include': p_, 'cart': 'carts/sub/c.p8'})
            lines.append('incline %s %s %s' % (I.hp(carts), I.hp(os.path.dirname(sub_cart)), hx(b'#include ' + p_.encode() + b'\n')))
            expect.append('err outside-root' if status == 'err outside-root' else 'want')
            cases.append({'op': 'incline', 'include': p_, 'impl': status, 'from': 'carts/sub'})
    finally:
        if saved_home is None:
            os.environ.pop('HOME', None)
        else:
            os.environ['HOME'] = saved_home
    # ---- history: the same RELATIVE cart name loaded from two working directories in one process (a root worked out for the first
    # must not be reused for the second)
    saved_cwd = os.getcwd()
    try:
        da, db = os.path.join(base, 'proj_a'), os.path.join(base, 'proj_b')
        I.write(os.path.join(da, 'inc.lua'), b'in_a=1\n')
        I.write(os.path.join(db, 'inc.lua'), b'in_b=1\n')
        I.write(os.path.join(da, 'only_a.lua'), b'only_a=1\n')
        for d, inc in ((da, b'inc.lua'), (db, b'../proj_a/only_a.lua'), (db, b'inc.lua'), (da, b'../proj_b/inc.lua')):
            I.write(os.path.join(d, 'game.p8'), template.replace(b'x=1\n', b'#include ' + inc + b'\nx=1\n'))
        for d, inc in ((da, b'inc.lua'), (db, b'../proj_a/only_a.lua'), (da, b'../proj_b/inc.lua'), (db, b'inc.lua')):
            I.write(os.path.join(d, 'game.p8'), template.replace(b'x=1\n', b'#include ' + inc + b'\nx=1\n'))
            os.chdir(d)
            with I.Recorder() as rec:
                try:
                    gfile.from_file('game.p8')
                    status = 'ok'
                except Exception as e:
                    status = 'err ' + U.exc_kind(e)
            res.evaluations += 1
            res.count('include-relative-name-after-chdir:' + status)
            res.nontrivial.add(('inc-chdir', d, inc))
            bad = [t for t in rec.touched() if not I.under(t, d)]
            if bad or (inc.startswith(b'../') and status == 'ok'):
                res.fail('C12:include-chdir:%s:%s' % (os.path.basename(d), inc.decode()),
                         'after loading game.p8 in another directory, #include %s from %s/game.p8 (relative name) %s' % (
                             inc.decode(), os.path.basename(d), 'accessed %s outside its directory' % bad[0] if bad else 'was accepted'),
                         {'history': 'load proj_a/game.p8 as "game.p8" with cwd=proj_a, chdir proj_b, load "game.p8"', 'include': inc.decode()})
        # a cart directory literally named `~` (or `$HOME`), named relatively, with the working directory inside the (redirected) home
        home3 = os.path.join(base, 'home3')
        work = os.path.join(home3, 'work')
        saved_home3 = os.environ.get('HOME')
        os.environ['HOME'] = home3
        try:
            for dname in ('~', '$HOME', '~root'):
                cd = os.path.join(work, dname)
                I.write(os.path.join(cd, 'inc.lua'), b'inside=1\n')
                I.write(os.path.join(work, 'secret.lua'), b'canary_work=1\n')
                I.write(os.path.join(home3, 'secret.lua'), b'canary_home=1\n')
                I.write(os.path.join(home3, 'cart.p8'), template)
                os.makedirs(os.path.join(work, 'x'), exist_ok=True)
                os.chdir(work)
                for inc in (b'inc.lua', b'../secret.lua', b'../../secret.lua', home3.encode() + b'/secret.lua'):
                    # (a name that BEGINS with `~` is, by documented convention, the user's home: not exercised here)
                    for given in ('./%s/cart.p8' % dname, './/%s/cart.p8' % dname, 'x/../%s/cart.p8' % dname, os.path.join(work, dname, 'cart.p8')):
                        I.write(os.path.join(cd, 'cart.p8'), template.replace(b'x=1\n', b'#include ' + inc + b'\nx=1\n'))
                        with I.Recorder() as rec:
                            try:
                                gfile.from_file(given)
                                status = 'ok'
                            except Exception as e:
                                status = 'err ' + U.exc_kind(e)
                        res.evaluations += 1
                        res.count('include-literal-tilde-dir:' + status)
                        res.nontrivial.add(('inc-tilde', dname, inc, given))
                        bad = [t for t in rec.touched() if not I.under(t, cd)]
                        if bad or (inc != b'inc.lua' and status == 'ok') or (inc == b'inc.lua' and status != 'ok'):
                            res.fail('C12:include-tilde-dir:%s:%s:%s' % (dname, inc.decode(), given),
                                     'cart %s (a directory literally named %s): #include %s %s' % (
                                         given, dname, inc.decode(), 'accessed %s outside the cart directory' % bad[0] if bad else 'gave %s' % status),
                                     {'cart': given, 'include': inc.decode(), 'HOME': 'an ancestor of the working directory'})
        finally:
            if saved_home3 is None:
                os.environ.pop('HOME', None)
            else:
                os.environ['HOME'] = saved_home3
    finally:
        os.chdir(saved_cwd)
    # ---- require()
    main = os.path.join(root, 'main.lua')
    out = os.path.join(base, 'out', 'o.p8')
    os.makedirs(os.path.dirname(out), exist_ok=True)
    lps = [None, '?;?.lua', '?/init.lua;?.lua', 'lib/?.lua', os.path.join(base, 'libs') + '/?.lua;?.lua', '../foobar/?.lua', 'ENV']
    reqs = sorted({'/'.join(t) for n in range(1, 4) for t in itertools.product(['x', 'lib', '.', '..', '', 'foobar', 'pkg'], repeat=n)} |
                  {'..', '../foobar/x', '/etc/passwd', os.path.join(outside, 'x'), 'x', 'lib/inc', 'pkg', './x', 'x/.', 'x/..', '...', '..x', 'x..'})
    reqs = [r for r in reqs if r and '"' not in r]
    # strings using the load path's own metacharacters `;` and `?`
    meta = sorted({a + sep + b for a in ('x', 'lib', 'nothere', '') for sep in (';', '?', ';?', '?;', ';;')
                   for b in (os.path.join(outside, 'x'), os.path.join(outside, 'x.lua'), os.path.join(sib, 'x'), '/etc/passwd', '..', 'x', '?', '',
                             'lib/inc', '..x', '...', 'foobar/x')} - {''})
    if not ctx.thorough():
        reqs = rng.sample(reqs, min(len(reqs), 120)) + ['..', 'x', '../foobar/x', 'x/..', 'pkg', '...']
        meta = rng.sample(meta, 40) + ['x;' + os.path.join(outside, 'x'), 'nothere;' + os.path.join(outside, 'x.lua'), 'x;..', '?', ';']
    reqs += meta
    plan = [(r, rng.choice(lps)) for r in reqs]
    plan += [(r, lp) for r in ('..', 'x/..', '../foobar/x', '../secret/x', 'lib/../..', '.', 'pkg/..') for lp in lps]
    # require strings that are not valid UTF-8 (a Lua string is bytes): whatever happens to the stray bytes, nothing outside may be touched
    raw = [b'\xff/etc/passwd', b'\xff' + os.path.join(outside, 'x').encode(), b'.\xff.\xff/secret/x', b'.\xff./foobar/x', b'x\xff', b'\xff',
           b'..\xff/foobar/x', b'\xc3/..', b'\x80../secret/x', b'/\xff', b'\xfe\xff/' + os.path.join(sib, 'x').encode(), b'lib/\xffinc',
           b'.\xc0\xae/secret/x', b'\xe0\x80.\xe0\x80./secret/x']
    plan += [(rb, lp) for rb in raw for lp in (None, 'lib/?.lua', '?')]
    # names a shell or os.path.expanduser would expand (HOME is pointed at the directory of canaries while require() is exercised)
    # blanks before / after something that would be refused without them
    plan += [(ws1 + r_ + ws2, lp) for r_ in (os.path.join(outside, 'x'), '/etc/passwd', '../secret/x', '..', './x', os.path.join(sib, 'x.lua'))
             for ws1, ws2 in ((' ', ''), ('\t', ''), ('  ', ' '), ('', ' '), ('\x0b', ''), ('\xa0', '')) for lp in (None, '?', ' ?.lua ; ?')]
    plan += [(r_, lp) for r_ in ('~', '~/x', '~/inc', '~/init', '~root/x', 'x/~', '~/lib/inc', '$HOME/x', '${HOME}/x', '%HOME%/x')
             for lp in (None, '?', '?.lua;lib/?.lua', 'ENV')]
    saved_home_req = os.environ.get('HOME')
    os.environ['HOME'] = outside
    for r, lp in plan:
        rbytes = r if isinstance(r, bytes) else r.encode()
        r = r.decode('utf-8', 'surrogateescape') if isinstance(r, bytes) else r
        I.write(main, b'local m = require("' + rbytes + b'")\n')
        argv = ['-q', 'build', '--lua', main]
        env_lp = None
        if lp == 'ENV':
            env_lp = '?/init.lua;?.lua'
            os.environ['PICO8_LUA_PATH'] = env_lp
        elif lp is not None:
            argv += ['--lua-path', lp]
        argv.append(out)
        if os.path.exists(out):
            os.remove(out)
        with I.Recorder() as rec, U.quiet(), contextlib.redirect_stdout(io.StringIO()), contextlib.redirect_stderr(io.StringIO()):
            try:
                rc = tool.main(argv)
                status = 'ok' if rc == 0 else 'rc%s' % rc
            except Exception as e:
                status = 'err ' + U.exc_kind(e) + (':rejected' if 'cannot contain' in str(getattr(e, 'msg', e)) else '')
        os.environ.pop('PICO8_LUA_PATH', None)
        res.evaluations += 1
        res.nontrivial.add(('req', r, lp))
        eff = env_lp or lp or '?;?.lua'
        # directories the load path names: for an absolute template its fixed directory, for a relative one the requiring file's dir
        allowed = [root, os.path.dirname(out)]
        for tpl in eff.split(';'):
            fixed = tpl.split('?')[0]
            d = os.path.dirname(fixed) if fixed.startswith('/') else os.path.normpath(os.path.join(root, os.path.dirname(fixed)))
            allowed.append(d)
        bad = [t for t in rec.touched() if not any(I.under(t, a) for a in allowed)]
        key = 'C12:require:%s:%s' % (r, lp)
        if bad:
            res.fail(key, 'require("%s") with load path %r made picotool access %s, outside %s' % (r, eff, bad[0], allowed), {'require': r, 'lua_path': eff})
        if rbytes != r.encode('utf-8', 'surrogateescape') or b'\xff' in rbytes or not _is_utf8(rbytes):
            # (the implementation decodes the string before it looks at it: the filter decision is not observable; only the accesses count)
            res.count('require:non-utf8:' + status.split(' ')[0])
            continue
        lines.append('reqrej ' + hx(rbytes))
        expect.append('ok 1' if status == 'err build:rejected' else 'ok 0')
        cases.append({'op': 'reqrej', 'require': r, 'impl': status})
        # candidate expansion: the paths the real `_locate_require_file` probes, in order (it stops at the first file found)
        from pico8.build import build as build_mod
        if env_lp:
            os.environ['PICO8_LUA_PATH'] = env_lp
        with I.Recorder() as rec2:
            try:
                found = build_mod._locate_require_file(r, main, lua_path=lp if lp not in (None, 'ENV') else None)
            except Exception as e:
                found = 'err ' + U.exc_kind(e)
        os.environ.pop('PICO8_LUA_PATH', None)
        lines.append('reqcand %s %s %s' % (I.hp(r), I.hp(root), I.hp(eff)))
        expect.append(('cands', list(rec2.probed), found))
        cases.append({'op': 'reqcand', 'require': r, 'lua_path': eff})
        res.count('require:' + status.split(' ')[0])
    # project directories whose own NAME contains the load path's metacharacters (`?` is the placeholder, `;` the separator): they are
    # part of the directory, not of the pattern; next to each one stands the directory the name would turn into if they were expanded
    for dname, rq in (('game?', 'lib'), ('q?q/m?', 'lib'), ('a;b', 'lib'), ('?', 'x'), ('pro?ject', 'lib/inc')):
        for lp in (None, '?.lua', 'lib/?.lua;?.lua'):
            root2 = os.path.join(base, 'meta', dname)
            main2 = os.path.join(root2, 'main.lua')
            I.write(main2, b'local m = require("' + rq.encode() + b'")\n')
            for nm in (rq + '.lua', 'lib/' + rq + '.lua'):
                I.write(os.path.join(root2, nm), b'return {ok=1}\n')
            leaf = rq.split('/')[-1]
            for twin in {dname.replace('?', rq), dname.replace('?', leaf), dname.replace('?', ''), dname.split(';')[0], dname.replace(';', '/')}:
                if twin and twin != dname:
                    for nm in (rq + '.lua', 'lib/' + rq + '.lua', leaf + '.lua', 'main.lua'):
                        I.write(os.path.join(base, 'meta', twin, nm), b'canary_twin=1\n')
            out2 = os.path.join(base, 'out', 'm.p8')
            if os.path.exists(out2):
                os.remove(out2)
            with I.Recorder() as rec, U.quiet(), contextlib.redirect_stdout(io.StringIO()), contextlib.redirect_stderr(io.StringIO()):
                try:
                    rc = tool.main(['-q', 'build', '--lua', main2] + (['--lua-path', lp] if lp else []) + [out2])
                    status = 'ok' if rc == 0 else 'rc%s' % rc
                except Exception as e:
                    status = 'err ' + U.exc_kind(e)
            res.evaluations += 1
            res.count('require:metachar-directory')
            res.nontrivial.add(('req-meta', dname, lp))
            bad = [t for t in rec.touched() if not (I.under(t, root2) or I.under(t, os.path.dirname(out2)))]
            key = 'C12:require-metadir:%s:%s' % (dname, lp)
            if bad:
                res.fail(key, 'require("%s") from a project directory named %r made picotool access %s, outside that directory' % (rq, dname, bad[0]),
                         {'directory': dname, 'require': rq, 'lua_path': lp})
            elif status == 'ok' and b'canary' in b''.join(gfile.from_file(out2).lua.to_lines()):
                res.fail(key, 'require("%s") from a project directory named %r embedded a file from another directory' % (rq, dname),
                         {'directory': dname, 'require': rq, 'lua_path': lp})
    if saved_home_req is None:
        os.environ.pop('HOME', None)
    else:
        os.environ['HOME'] = saved_home_req
    # ---- os.path vs the path model
    alpha = ['a', 'b', '.', '..', '/', '//', '']
    for _ in range(ctx.budget(1500, 30000)):
        s = ''.join(rng.choice(alpha) + rng.choice(['/', '', '/']) for _ in range(rng.randrange(0, 6)))
        t = ''.join(rng.choice(alpha) for _ in range(rng.randrange(0, 4)))
        lines += ['normpath ' + I.hp(s), 'dirname ' + I.hp(s), 'pathjoin %s %s' % (I.hp(s), I.hp(t))]
        expect += ['ok ' + I.hp(os.path.normpath(s)), 'ok ' + I.hp(os.path.dirname(s)), 'ok ' + I.hp(os.path.join(s, t))]
        cases += [{'op': 'normpath', 's': s}, {'op': 'dirname', 's': s}, {'op': 'join', 's': s, 't': t}]
        res.evaluations += 1
    from pico8.game.formatter import p8
    home = os.path.join(base, 'home')
    os.environ_home = os.environ.get('HOME')
    os.environ['HOME'] = home
    try:
        for f in ['~/.lexaloffle/pico-8/carts/a.p8', '~/.lexaloffle/pico-8/carts2/a.p8', '~/.lexaloffle/pico-8/carts/sub/a.p8', '/tmp/x/a.p8',
                  '~/Library/Application Support/pico-8/carts/a.p8', '~/AppData/Roaming/pico-8/cartsX/a.p8',
                  # directories that differ from a carts folder in letter case, blanks or a dot component only: other directories
                  '~/.lexaloffle/pico-8/Carts/game/a.p8', '~/.LEXALOFFLE/pico-8/carts/a.p8', '~/library/application support/pico-8/carts/x/a.p8',
                  '~/appdata/roaming/pico-8/carts/a.p8', '~/.lexaloffle/pico-8/carts /a.p8', '~/.lexaloffle/PICO-8/carts/sub/a.p8',
                  '~/.lexaloffle/pico-8/cart/s/a.p8', '~/AppData/Roaming/pico-8/carts/deep/er/a.p8']:
            af = os.path.expanduser(f)
            lines.append('rootfor %s %s' % (I.hp(home), I.hp(af)))
            expect.append('ok ' + I.hp(p8.get_root_include_path(af)))
            cases.append({'op': 'rootfor', 'file': f})
            want_root = os.path.dirname(af)
            for c in p8.PICO8_CART_PATHS:
                if I.under(af, os.path.expanduser(c)):
                    want_root = os.path.expanduser(c)
            if p8.get_root_include_path(af) != want_root:
                res.fail('C12:root:' + f, 'include root of %s is %s, expected %s' % (f, p8.get_root_include_path(af), want_root), {'file': f})
            res.evaluations += 1
    finally:
        if os.environ_home is None:
            os.environ.pop('HOME', None)
        else:
            os.environ['HOME'] = os.environ_home
    res.sample({'include': '../foobar/inc.lua', 'from': 'foo/main.p8', 'expected': 'rejected'})
    if ctx.model.available:
        for c, e, g in zip(cases, expect, ctx.model.run(lines)):
            if c['op'] == 'incline':
                ok = (e == 'err outside-root') == (g == 'err outside-root')
            elif c['op'] == 'reqcand':
                _, probed, found = e
                mc = [unhx(w).decode('utf-8') for w in g[3:].split(':')] if g.startswith('ok ') and len(g) > 3 else []
                # the implementation probes the model's candidates in order and stops at the first existing file
                ok = (probed == mc[:len(probed)] and len(probed) >= 1 and
                      ((found is None and len(probed) == len(mc)) or (found == probed[-1] and os.path.isfile(found))))
                e = 'probed %r found %r' % (probed, found)
            else:
                ok = (e == g)
            if not ok:
                res.diff(c, e[:200], g[:200])


def _is_utf8(b):
    try:
        b.decode('utf-8')
        return True
    except UnicodeDecodeError:
        return False


def _rejected(r):
    b = r.encode()
    return b'./' in b or b.startswith(b'/') or any(p in (b'.', b'..') for p in b.split(b'/'))


def replay(ctx, rep, res):
    run(ctx, res)
    return not res.failures and not res.diffs
