"""C17 — section accessors: op histories on the implementation vs the stateful Lean model vs a plain
pixel/cell/flag/note oracle written from the documented semantics."""
from common import hx
import implutil as U

ASSUMPTIONS = ['rows of pixels/tiles are passed as lists, tuples, bytes or bytearrays (any sequence of ints)', 'arguments are in contract (ids/coords in range, colours 0..15 or TRANSPARENT, Map has its Gfx attached)']
TRUSTED_EXTRA = ['modelled by hand: gfx.py get/set_sprite, map.py get/set_cell, get/set_rect_tiles, gff.py flags, '
                 'sfx.py notes/properties, music.py channels/properties']


class Plain:
    """The documented semantics on plain grids (no bit packing for pixels/cells)."""

    def __init__(self, regs):
        g = regs['gfx']
        self.pix = [[(g[y * 64 + x // 2] >> (4 * (x % 2))) & 15 for x in range(128)] for y in range(128)]
        self.map = [list(regs['map'][y * 128:(y + 1) * 128]) for y in range(32)]
        self.gff = list(regs['gff'])
        self.sfx = list(regs['sfx'])
        self.mus = list(regs['music'])

    # shared memory: map rows 32..63 are sprite-sheet rows 64..127
    def cell(self, x, y):
        if y < 32:
            return self.map[y][x]
        i = (y - 32) * 128 + x
        py, px = 64 + i // 64, (i % 64) * 2
        return self.pix[py][px] | (self.pix[py][px + 1] << 4)

    def set_cell(self, x, y, v):
        if y < 32:
            self.map[y][x] = v
        else:
            i = (y - 32) * 128 + x
            py, px = 64 + i // 64, (i % 64) * 2
            self.pix[py][px], self.pix[py][px + 1] = v & 15, v >> 4

    def regions(self):
        gfx = bytes(self.pix[i // 64][(i % 64) * 2] | (self.pix[i // 64][(i % 64) * 2 + 1] << 4) for i in range(0x2000))
        return {'gfx': gfx, 'map': bytes(b for r in self.map for b in r), 'gff': bytes(self.gff),
                'sfx': bytes(self.sfx), 'music': bytes(self.mus)}

    def note(self, i, n):
        w = self.sfx[i * 68 + n * 2] | (self.sfx[i * 68 + n * 2 + 1] << 8)
        return (w & 63, ((w >> 6) & 7) | ((w >> 15) << 3), (w >> 9) & 7, (w >> 12) & 7)

    def set_note(self, i, n, p, wv, v, e):
        op, ow, ov, oe = self.note(i, n)
        p = op if p is None else p
        wv = ow if wv is None else wv
        v = ov if v is None else v
        e = oe if e is None else e
        w = p | ((wv & 7) << 6) | (v << 9) | (e << 12) | ((wv >> 3) << 15)
        self.sfx[i * 68 + n * 2], self.sfx[i * 68 + n * 2 + 1] = w & 255, w >> 8


def rows_arg(rows):
    return ':'.join(hx(bytes(r)) for r in rows) if rows else '.'


def gen_op(rng):
    k = rng.choice(list(range(20)) + [10, 11, 11, 11, 11, 13, 13, 13, 14, 14, 16, 16])      # (flag operations are cheap and have many partial-overlap cases)
    edge = lambda hi: rng.choice([0, 1, hi - 1, hi, rng.randrange(hi + 1)])  # noqa: E731
    if k == 0:
        return ('getsprite', rng.randrange(256), rng.choice([1, 1, 2, 3, 17]), rng.choice([1, 1, 2, 16, 17]))
    if k in (1, 2, 3):
        idv = rng.choice([rng.randrange(256), 15, 240, 255, 239, 14, 254])
        h = rng.choice([1, 2, 8, 9, 10, 20])
        rows = []
        for _ in range(h):
            w = rng.choice([0, 1, 7, 8, 9, 10, 17, 130])
            rows.append([rng.choice([rng.randrange(16), 16]) for _ in range(w)])
        # offsets inside the tile, exactly one tile, and beyond (a start past the right / bottom edge of the sheet is clipped away entirely)
        off = lambda: rng.choice([0, 0, 1, 7, 8, 9, 10, 16, 17, 100, 127, 128, 129])  # noqa: E731
        return ('setsprite', idv, off(), off(), rows)
    if k == 4:
        return ('getcell', rng.randrange(128), edge(63))
    if k in (5, 6):
        return ('setcell', edge(127), rng.choice([0, 31, 32, 63, rng.randrange(64)]), rng.randrange(256))
    if k == 7:
        x, y = rng.randrange(128), rng.randrange(64)
        return ('getrect', x, y, rng.choice([1, 2, 128 - x, 129 - x, 140]), rng.choice([1, min(2, 64 - y), 64 - y]))
    if k in (8, 9):
        h = rng.choice([1, 2, 3, 33, 70])
        rows = [[rng.randrange(256) for _ in range(rng.choice([0, 1, 2, 3, 130]))] for _ in range(h)]
        return ('setrect', rng.choice([0, 126, 127, rng.randrange(128)]), rng.choice([0, 30, 31, 32, 62, 63, rng.randrange(64)]), rows)
    if k == 10:
        return ('getflags', rng.randrange(256), rng.choice([255, 1, 0x90, rng.randrange(256)]))
    if k == 11:
        # flag sets that are disjoint from, equal to, inside, containing and partially overlapping what a tile usually has
        return (rng.choice(['setflags', 'setflags', 'clearflags', 'resetflags']), rng.choice([rng.randrange(256), 0, 1, 255]),
                rng.choice([255, 0, 1, 128, 3, 6, 0x0f, 0xf0, 0x81, 0x55, 0xaa, rng.randrange(256), rng.randrange(256)]))
    if k == 12:
        return ('getnote', rng.randrange(64), rng.randrange(32))
    if k in (13, 14):
        opt = lambda n: rng.choice([None, None, rng.randrange(n), n - 1, n // 2])  # noqa: E731  (partial updates: any subset of the fields)
        return ('setnote', rng.randrange(64), rng.randrange(32), opt(64), opt(16), opt(8), opt(8))
    if k == 15:
        return ('getprops', rng.randrange(64))
    if k == 16:
        opt = lambda: rng.choice([None, rng.randrange(256)])  # noqa: E731
        return ('setprops', rng.randrange(64), opt(), opt(), opt(), opt())
    if k == 17:
        return (rng.choice(['getchannel', 'getmprops']), rng.randrange(64), rng.randrange(4))
    if k == 18:
        return ('setchannel', rng.randrange(64), rng.randrange(4), rng.choice([None, rng.randrange(64), 63, 0]))
    ob = lambda: rng.choice([None, True, False])  # noqa: E731
    return ('setmprops', rng.randrange(64), ob(), ob(), ob())


def on(v):
    return 'n' if v is None else str(v)


def ob(v):
    return 'n' if v is None else ('t' if v else 'f')


def as_rows(rows, op):
    """the same pixel/tile data handed over as each sequence type a caller may use: lists, tuples, bytes, bytearrays (what
    get_rect_tiles / get_sprite return); the choice is a deterministic function of the operation"""
    kind = sum(len(r) for r in rows) + len(rows) + op[1] + op[2]
    kind %= 5
    if kind == 0:
        return rows
    if kind == 1:
        return tuple(tuple(r) for r in rows)
    if kind == 2:
        return [bytearray(r) for r in rows]
    if kind == 3:
        return [bytes(r) for r in rows]
    return [bytearray(r) if i % 2 else list(r) for i, r in enumerate(rows)]


def as_iter_rows(rows, op):
    """set_rect_tiles only iterates: besides the sequence types, the rows may be iterators — each row its own generator, or every row
    the next `width` values of ONE shared stream (a flat tile list cut into rows lazily); a row is consumed whole, on or off the map"""
    import itertools
    kind = (sum(len(r) for r in rows) + 3 * len(rows) + op[1] + 2 * op[2]) % 4
    if kind == 0 and rows:
        stream = iter([v for r in rows for v in r])
        widths = [len(r) for r in rows]
        return (itertools.islice(stream, w) for w in widths)
    if kind == 1:
        return (iter(list(r)) for r in rows)
    return as_rows(rows, op)


def apply_impl(g, op):
    k = op[0]
    if k == 'getsprite':
        pic = g.gfx.get_sprite(op[1], op[2], op[3])
        out = 'ok ' + rows_arg(pic)
        # the picture is the caller's to edit: its rows are independent of each other and of the cart
        if len(pic) > 1 and len(pic[0]) > 0:
            try:
                before = [bytes(r) for r in pic]
                pic[len(pic) - 1][0] = (pic[len(pic) - 1][0] + 1) % 16
                changed = [i for i, r in enumerate(pic[:-1]) if bytes(r) != before[i]]
                if changed:
                    return 'ok ALIASED-ROWS %s' % changed[:4]
            except TypeError:
                pass        # immutable rows cannot alias observably
        return out
    if k == 'setsprite':
        g.gfx.set_sprite(op[1], as_rows(op[4], op), tile_x_offset=op[2], tile_y_offset=op[3]); return None
    if k == 'getcell':
        return 'ok %d' % g.map.get_cell(op[1], op[2])
    if k == 'setcell':
        g.map.set_cell(op[1], op[2], op[3]); return None
    if k == 'getrect':
        rect = g.map.get_rect_tiles(op[1], op[2], op[3], op[4])
        out = 'ok ' + rows_arg(rect)
        if len(rect) > 1 and len(rect[0]) > 0:
            try:
                before = [bytes(r) for r in rect]
                rect[len(rect) - 1][0] = (rect[len(rect) - 1][0] + 1) % 256
                if any(bytes(r) != before[i] for i, r in enumerate(rect[:-1])):
                    return 'ok ALIASED-ROWS'
            except TypeError:
                pass
        return out
    if k == 'setrect':
        g.map.set_rect_tiles(as_iter_rows(op[3], op), op[1], op[2]); return None
    if k == 'getflags':
        return 'ok %d' % g.gff.get_flags(op[1], op[2])
    if k in ('setflags', 'clearflags', 'resetflags'):
        getattr(g.gff, {'setflags': 'set_flags', 'clearflags': 'clear_flags', 'resetflags': 'reset_flags'}[k])(op[1], op[2]); return None
    if k == 'getnote':
        return 'ok %d %d %d %d' % g.sfx.get_note(op[1], op[2])
    if k == 'setnote':
        g.sfx.set_note(op[1], op[2], pitch=op[3], waveform=op[4], volume=op[5], effect=op[6]); return None
    if k == 'getprops':
        return 'ok %d %d %d %d' % g.sfx.get_properties(op[1])
    if k == 'setprops':
        g.sfx.set_properties(op[1], editor_mode=op[2], note_duration=op[3], loop_start=op[4], loop_end=op[5]); return None
    if k == 'getchannel':
        return 'ok ' + on(g.music.get_channel(op[1], op[2]))
    if k == 'getmprops':
        return 'ok %s %s %s' % tuple('true' if b else 'false' for b in g.music.get_properties(op[1]))
    if k == 'setchannel':
        g.music.set_channel(op[1], op[2], op[3]); return None
    if k == 'setmprops':
        g.music.set_properties(op[1], begin=op[2], end=op[3], stop=op[4]); return None
    raise AssertionError(k)


def apply_plain(pl, op):
    k = op[0]
    if k == 'getsprite':
        i, tw, th = op[1:4]
        x0, y0 = i % 16 * 8, i // 16 * 8
        return 'ok ' + rows_arg([[pl.pix[y][x] if x < 128 and y < 128 else 0 for x in range(x0, x0 + 8 * tw)] for y in range(y0, y0 + 8 * th)])
    if k == 'setsprite':
        i, xo, yo, rows = op[1:5]
        x0, y0 = i % 16 * 8 + xo, i // 16 * 8 + yo
        for dy, row in enumerate(rows):
            for dx, v in enumerate(row):
                if v != 16 and x0 + dx < 128 and y0 + dy < 128:
                    pl.pix[y0 + dy][x0 + dx] = v
        return None
    if k == 'getcell':
        return 'ok %d' % pl.cell(op[1], op[2])
    if k == 'setcell':
        pl.set_cell(op[1], op[2], op[3]); return None
    if k == 'getrect':
        x, y, w, h = op[1:5]
        return 'ok ' + rows_arg([[pl.cell(xx, yy) if xx < 128 and yy < 64 else 0 for xx in range(x, x + w)] for yy in range(y, y + h)])
    if k == 'setrect':
        x, y, rows = op[1:4]
        for dy, row in enumerate(rows):
            for dx, v in enumerate(row):
                if x + dx < 128 and y + dy < 64:
                    pl.set_cell(x + dx, y + dy, v)
        return None
    if k == 'getflags':
        return 'ok %d' % (pl.gff[op[1]] & op[2])
    if k == 'setflags':
        pl.gff[op[1]] |= op[2] & 255; return None
    if k == 'clearflags':
        pl.gff[op[1]] &= ~op[2] & 255; return None
    if k == 'resetflags':
        pl.gff[op[1]] = op[2] & 255; return None
    if k == 'getnote':
        return 'ok %d %d %d %d' % pl.note(op[1], op[2])
    if k == 'setnote':
        pl.set_note(*op[1:7]); return None
    if k == 'getprops':
        return 'ok %d %d %d %d' % tuple(pl.sfx[op[1] * 68 + 64: op[1] * 68 + 68])
    if k == 'setprops':
        for j, v in enumerate(op[2:6]):
            if v is not None:
                pl.sfx[op[1] * 68 + 64 + j] = v
        return None
    if k == 'getchannel':
        p = pl.mus[op[1] * 4 + op[2]] & 127
        return 'ok ' + ('n' if p > 63 else str(p))
    if k == 'getmprops':
        return 'ok %s %s %s' % tuple('true' if pl.mus[op[1] * 4 + j] & 128 else 'false' for j in range(3))
    if k == 'setchannel':
        p = op[3] if op[3] is not None else 0x41 + op[2]
        pl.mus[op[1] * 4 + op[2]] = (pl.mus[op[1] * 4 + op[2]] & 128) | p; return None
    if k == 'setmprops':
        for j, v in enumerate(op[2:5]):
            if v is not None:
                pl.mus[op[1] * 4 + j] = (pl.mus[op[1] * 4 + j] & 127) | (128 if v else 0)
        return None
    raise AssertionError(k)


def model_line(op):
    k = op[0]
    if k == 'setsprite':
        return 'acc setsprite %d %d %d %s' % (op[1], op[2], op[3], rows_arg(op[4]))
    if k == 'setrect':
        return 'acc setrect %d %d %s' % (op[1], op[2], rows_arg(op[3]))
    if k == 'setnote':
        return 'acc setnote %d %d %s %s %s %s' % (op[1], op[2], on(op[3]), on(op[4]), on(op[5]), on(op[6]))
    if k == 'setprops':
        return 'acc setprops %d %s %s %s %s' % (op[1], on(op[2]), on(op[3]), on(op[4]), on(op[5]))
    if k == 'setchannel':
        return 'acc setchannel %d %d %s' % (op[1], op[2], on(op[3]))
    if k == 'setmprops':
        return 'acc setmprops %d %s %s %s' % (op[1], ob(op[2]), ob(op[3]), ob(op[4]))
    if k == 'getmprops':
        return 'acc getmprops %d' % op[1]
    return 'acc ' + ' '.join(str(x) for x in op)


def ser(op):
    return [x if not isinstance(x, list) else [list(r) for r in x] for x in op]


def edge_class(op):
    k = op[0]
    if k == 'setsprite':
        x0, y0 = op[1] % 16 * 8 + op[2], op[1] // 16 * 8 + op[3]
        w = max([len(r) for r in op[4]] + [0])
        return (k, min(max(x0 + w - 128, -1), 2), min(max(y0 + len(op[4]) - 128, -1), 2), any(16 in r for r in op[4]))
    if k == 'setrect':
        w = max([len(r) for r in op[3]] + [0])
        return (k, min(max(op[1] + w - 128, -1), 2), min(max(op[2] + len(op[3]) - 64, -1), 2), op[2] >= 32)
    if k in ('setcell', 'getcell'):
        return (k, op[2] >= 32, op[1] in (0, 127))
    return (k,)


def run_history(ctx, res, regs, ops, tag, lines, expect):
    g = U.make_game(regions=regs)
    pl = Plain(regs)
    lines.append('acc reset %s %s %s %s %s' % (hx(regs['gfx']), hx(regs['map']), hx(regs['gff']), hx(regs['sfx']), hx(regs['music'])))
    expect.append(('ok %d' % U.chk([regs['gfx'], regs['map'], regs['gff'], regs['sfx'], regs['music']]), tag, -1))
    for i, op in enumerate(ops):
        hist = {'regions': {k: hx(v) for k, v in regs.items()}, 'ops': [ser(o) for o in ops[:i + 1]]}
        try:
            out = apply_impl(g, op)
            status = 'ok'
        except Exception as e:
            out, status = None, 'err ' + U.exc_kind(e)
        want = apply_plain(pl, op)
        r = U.regions_of(g)
        key = 'C17:%s:%s' % (op[0], '/'.join(str(x) for x in edge_class(op)))
        if status != 'ok':
            res.fail(key, 'in-contract %s raised (%s)' % (op[0], status), hist)
            return
        if out != want:
            res.fail(key, '%s returned %s, documented semantics give %s' % (op[0], str(out)[:60], str(want)[:60]), hist)
            return
        pr = pl.regions()
        bad = [n for n in pr if pr[n] != r[n]]
        if bad:
            res.fail(key, 'after %s the %s region differs from the documented semantics (a byte not addressed changed, or the addressed one is wrong)' % (op[0], bad), hist)
            return
        lines.append(model_line(op))
        c = U.chk([r['gfx'], r['map'], r['gff'], r['sfx'], r['music']])
        expect.append(((out + ' %d' % c) if (out and not op[0].startswith('get')) else (out if out else 'ok %d' % c), tag, i))
        res.nontrivial.add(edge_class(op))
        res.count(op[0])


def run(ctx, res):
    rng = ctx.rng
    res.rule = ('random histories (<= 40 ops quick / 200 thorough) over all accessors from arbitrary region contents; ids/coords/'
                'sizes crossing each edge by 0, 1, many; TRANSPARENT pixels; ragged rows; whole memory compared with a plain '
                'pixel/cell/flag/note oracle after every op and with the stateful Lean model; distinct non-trivial = distinct '
                '(op, edge-overhang class) exercised')
    lines, expect, hists = [], [], []
    for h in range(ctx.budget(25, 300)):
        regs = {nm: U.rand_bytes(rng, sz) for nm, sz in U.REGION_SIZES}
        ops = [gen_op(rng) for _ in range(rng.randrange(1, ctx.budget(40, 200)))]
        hists.append((regs, ops))
        run_history(ctx, res, regs, ops, h, lines, expect)
        res.evaluations += len(ops)
    res.sample({'ops': [ser(o) for o in hists[0][1][:3]]})
    # several carts alive at once: an edit of one cart touches nothing of another — two new empty carts, and a cart whose sections were
    # made from the first one's bytes (`Section.from_bytes(other.to_bytes())`)
    from pico8.game.game import Game
    for h in range(ctx.budget(8, 60)):
        ga, gb = Game.make_empty_game(), Game.make_empty_game()
        gc = Game.make_empty_game()
        for nm, _ in U.REGION_SIZES:
            sec = getattr(ga, nm)
            try:
                setattr(gc, nm, type(sec).from_bytes(sec.to_bytes(), version=8))
            except Exception:
                pass
        snap = [U.regions_of(gb), U.regions_of(gc)]
        ops = [gen_op(rng) for _ in range(rng.randrange(3, 25))]
        done = []
        for op in ops:
            if op[0].startswith('get'):
                continue
            try:
                apply_impl(ga, op)
                done.append(op)
            except Exception:
                pass
        res.evaluations += len(done)
        res.count('two-carts-alive')
        for who, g_, before in (('another new empty cart', gb, snap[0]), ('a cart made from the first one\'s bytes', gc, snap[1])):
            after = U.regions_of(g_)
            bad = [n for n in after if after[n] != before[n]]
            if bad:
                res.fail('C17:aliasing:%s' % bad[0], 'editing one cart changed the %s region of %s' % (bad, who), {'ops': [ser(o) for o in done]})
                break
    if ctx.model.available:
        mo = ctx.model.run(lines)
        seen = set()
        for (exp, tag, i), got in zip(expect, mo):
            if exp != got and tag not in seen:
                seen.add(tag)
                res.diff({'history': tag, 'op_index': i, 'op': ser(hists[tag][1][i]) if i >= 0 else 'reset'}, exp[:100], got[:100])


def replay(ctx, rep, res):
    inp = rep.get('input') or {}
    if 'ops' in inp:
        regs = {k: bytes.fromhex(v) for k, v in inp['regions'].items()}
        ops = [tuple(o) for o in inp['ops']]
        run_history(ctx, res, regs, ops, 0, [], [])
        return not res.failures
    run(ctx, res)
    return not res.failures and not res.diffs
