"""C19 — luamin keeps the title and author comments: header shapes x programs; oracle via Spec lexer + stats getters."""
from common import hx
import lexutil as L
import minutil as M
import gen_lua

ASSUMPTIONS = ['lexical rules are Spec/LuaLex.lean; "code never turns into a comment / comments never into code" is checked as in C01']
TRUSTED_EXTRA = ['modelled by hand: header logic of LuaMinifyTokenWriter._to_chunks (lua.py); title/byline getters']


def title_byline(chunks):
    from pico8.lua import lua
    l = lua.Lua(version=8)
    l._lexer.process_lines(list(chunks))
    return l.get_title(), l.get_byline()


def gen_header(rng):
    n = rng.choice([0, 1, 2, 2, 3, 4])
    out = bytearray()
    out += rng.choice([b'', b'', b'\n', b'  ', b'\n\n ', b'\t'])
    for i in range(n):
        k = rng.randrange(4)
        text = rng.choice([b' my game', b'by me', b'', b' \x8e title --', b' x=1', b'[[', b' "q', b'-', b'[==[ z', b'- star quest ---', b'/ by nova /--', b'// t', b'-/-'])
        if k == 0:
            out += b'--' + text + b'\n'
        elif k == 1:
            out += b'//' + text + b'\n'
        elif k == 2:
            out += b'--[[' + text.replace(b']]', b'') + rng.choice([b'', b'\nline two ']) + b']]' + rng.choice([b'\n', b' ', b''])
        else:
            out += b'--' + text + b'\r\n'
        out += rng.choice([b'', b'', b'\n', b' ', b'\n  \n'])
    if rng.random() < 0.3:
        # a file with DOS line ends throughout: every line end of the header (also of blank lines and after block comments) is CRLF
        out = bytearray(bytes(out).replace(b'\r\n', b'\n').replace(b'\n', b'\r\n'))
    return bytes(out), n


def run(ctx, res):
    rng = ctx.rng
    res.rule = ('programs x header shapes: 0..4 leading comments of kinds --, //, block (one/two lines), CRLF; blank lines/spaces before and '
                'between; header followed by code on the next or the same line; x {default, keep-all}; distinct non-trivial = distinct '
                '(number of leading comments, kinds, code-on-same-line) shapes with at least one comment')
    cases = []
    for _ in range(ctx.budget(600, 10000)):
        hdr, n = gen_header(rng)
        prog = gen_lua.gen_program(rng)[0] if rng.random() < 0.9 else b''
        cases.append((hdr + prog, rng.choice(['default', 'keepall'])))
    cases += [(b'--a\n--b\n--c\nx=1\n', 'default'), (b'x=1 --a\n--b\n', 'default'), (b'--[[t]] x=1\n', 'default'), (b'--a', 'default'),
              (b'', 'default'), (b'--a\n\n\n--b\nx=1-- c\ny=2', 'default'), (b'-- a\nx = b - -c\n', 'default')]
    spec, model, outs = [], [], []
    for src, cfg in cases:
        try:
            out = M.minify([src], cfg)
        except Exception as e:
            out = None
        outs.append(out)
        spec += ['speclex ' + hx(src), 'speclex ' + (hx(out) if out is not None else '-')]
        model.append('minify %s - %s' % (cfg, L.chunks_arg([src])))
        res.evaluations += 1
    res.sample({'source': repr(cases[0][0][:100]), 'minified': repr((outs[0] or b'')[:100])})
    if not ctx.model.available:
        return
    mo = ctx.model.run(spec + model)
    n = len(cases)
    for i, (src, cfg) in enumerate(cases):
        out = outs[i]
        key = 'C19:%s:%s' % (cfg, hx(src)[:60])
        inp = {'source': hx(src), 'cfg': cfg}
        if out is None:
            if L.impl_lex([src])[0].startswith('ok'):
                res.fail(key, 'luamin raised on a lexable program', inp)
            continue
        if mo[2 * n + i] != 'ok ' + hx(out):
            res.diff({'op': 'minify', 'source': hx(src)}, hx(out)[:160], mo[2 * n + i][:160])
        ss, so = mo[2 * i], mo[2 * i + 1]
        if ss == 'none':
            continue
        a = M.parse_toks(ss)
        lead = []
        for t in a:
            if t[0] == 'comment':
                lead.append(t[1])
            elif t[0] not in M.TRIVIA:
                break
        want = b''.join(c + b'\n' for c in lead[:2])
        kinds = tuple(('block' if c.startswith(b'--[[') else c[:2].decode()) for c in lead[:2])
        if lead:
            res.nontrivial.add((min(len(lead), 3), kinds, b'\n' in src))
        res.count('lead%d' % min(len(lead), 3))
        if not out.startswith(want):
            res.fail(key, 'the first two leading comments are not verbatim, each on its own line, at the top of the output', inp,
                     observed=hx(out)[:120], expected=hx(want)[:120])
            continue
        if so == 'none':
            res.fail(key, 'luamin output does not lex', inp)
            continue
        b = M.parse_toks(so)
        if [t[1] for t in b if t[0] == 'comment'] != lead[:2]:
            res.fail(key, 'comments of the output are not exactly the first two leading comments (code became a comment or a comment was altered)', inp)
            continue
        if len(M.sig(a)) != len(M.sig(b)):
            res.fail(key, 'a later comment turned into code or code into a comment (significant token count %d -> %d)' % (len(M.sig(a)), len(M.sig(b))), inp)
            continue
        # no header, no title: what stats reports must come from THIS program's first tokens (nothing remembered from another cart)
        if not (a and a[0][0] == 'comment'):
            for what, txt in (('input', src), ('luamin output', out)):
                ti0, bi0 = title_byline([txt])
                if txt is out and so != 'none' and b and b[0][0] == 'comment':
                    continue
                if ti0 is not None:
                    res.fail(key, 'stats reports title %r for a %s that does not start with a comment' % (ti0, what), inp)
                    break
        # title / byline as `stats` derives them, when the header is in the canonical position PICO-8 uses
        if len(lead) >= 1 and src.startswith(lead[0]):
            ti, bi = title_byline([src])
            to, bo = title_byline([out])
            # what is derived: the comment without its two-character marker, stripped of blanks (nothing more)
            if ti != lead[0][2:].strip() or (len(lead) >= 2 and len(a) > 2 and a[1][0] in ('newline', 'space') and a[2][0] == 'comment' and bi != lead[1][2:].strip()):
                res.fail(key, 'title/byline derived from the header %r are %r/%r, not the comments without their markers' % (lead[:2], ti, bi), inp)
                continue
            # (stats takes the byline from token 2: that is the second leading comment only in the forms comment NEWLINE comment and
            # block-comment BLANKS comment)
            if ti != to or (len(lead) >= 2 and len(a) > 2 and a[1][0] in ('newline', 'space') and a[2][0] == 'comment' and bi != bo):
                res.fail(key, 'title/byline derived by stats changed: %r/%r -> %r/%r' % (ti, bi, to, bo), inp)


def replay(ctx, rep, res):
    run(ctx, res)
    return not res.failures and not res.diffs
