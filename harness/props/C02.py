"""C02 — luamin renaming: correspondence (model vs MinifyNameFactory) + consistency/injectivity/reserved oracle."""
import os
from common import hx
import lexutil as L
import minutil as M
import gen_lua

ASSUMPTIONS = ['_name_for_id uses float division int(id / 26): exact below 2^53 (a 65,535-character program cannot reach it)']
TRUSTED_EXTRA = ['modelled by hand: MinifyNameFactory._name_for_id/get_short_name/read_names_file (lua.py:1259-1332); '
                 'Gen.preservedNames, Gen.nameChars regenerated']


def gen_history(rng, n, reserved):
    pop = [b'a', b'b', b'c', b'ba', b'aa', b'ab', b'z', b'zz', b'foo', b'bar', b'x1', b'player_x', b'\x80x', b'T', b'_v', b'hp\x87', b'\x8b', b'x\xff_1']
    pop += [b'v%d' % i for i in range(rng.choice([0, 5, 40, 800, 3000]))]
    pop += rng.sample(sorted(reserved), 8)
    return [rng.choice(pop) for _ in range(n)]


def check_relation(res, key, inp, ins, outs, reserved, keep, keep_all):
    fwd, bwd = {}, {}
    for a, b in zip(ins, outs):
        if fwd.setdefault(a, b) != b:
            res.fail(key, 'identifier %r is renamed to both %r and %r' % (a, fwd[a], b), inp)
            return
        if bwd.setdefault(b, a) != a:
            res.fail(key, 'identifiers %r and %r both become %r' % (bwd[b], a, b), inp)
            return
        if (keep_all or a in reserved or a in keep) and b != a:
            res.fail(key, 'reserved/kept identifier %r was renamed to %r' % (a, b), inp)
            return
        if b != a and (b in reserved or b in keep):
            res.fail(key, 'generated name %r (for %r) is a keyword/reserved/kept name' % (b, a), inp)
            return


def run(ctx, res):
    rng = ctx.rng
    from pico8.lua import lua
    # reserved names: PICO-8's API (a fixed list kept with the check, not read from picotool), Lua's keywords, and whatever else the
    # implementation preserves
    api = set(open(os.path.join(os.path.dirname(os.path.dirname(os.path.abspath(__file__))), 'ref', 'pico8_api.txt'), 'rb').read().split())
    keywords = set(b'and break do else elseif end false for function goto if in local nil not or repeat return then true until while'.split())
    reserved = set(lua.MinifyNameFactory.PRESERVED_NAMES) | api | keywords
    res.rule = ('request histories of 1..5000 names over populations containing would-be generated names (a, b, ba, aa), builtins, keywords, '
                'glyph names and thousands of distinct names x {default, keep-all, keep-file with comments/blank/padded lines}; '
                '_name_for_id for ids 0..N exhaustively; luamin on generated programs with aligned name tokens; '
                'distinct non-trivial = distinct (history, config)')
    lines, expect, cases = [], [], []
    for h in range(ctx.budget(60, 800)):
        n = rng.choice([1, 5, 30, 200, 1500, 5000]) if h % 7 == 0 else rng.choice([1, 5, 30, 200])
        ins = gen_history(rng, n, reserved)
        if 3 <= h < 6:
            # several passes in one process that each need far more than 26*26 generated names
            ins = [b'n%d_%d' % (h, k) for k in range(rng.choice([700, 1500, 2100]))]
            rng.shuffle(ins)
            ins = ins + ins[:50]
        if h < 3:
            # every API name and keyword-like name once, among ordinary names
            ins = sorted(api | keywords) + gen_history(rng, 40, reserved)
            rng.shuffle(ins)
        cfg = rng.choice(['default', 'keepall', 'keepfile'])
        keep = []
        args = {}
        keeptxt = '-'
        if cfg == 'keepall':
            args['keep_all_names'] = True
        elif cfg == 'keepfile' and h % 5 == 4:
            # a long keep file (tens of kilobytes): the names that matter are near its end
            keep = [b'filler_name_%05d' % k for k in range(rng.choice([700, 2500]))] + [b'a', b'b', b'zz', b'foo']
            kp = M.write_keep_file(ctx, keep, 'kbig%d.txt' % (h % 3), style=h % 2)
            args['keep_names_from_file'] = kp
            keeptxt = hx(open(kp, 'rb').read())
        elif cfg == 'keepfile':
            keep = rng.sample([b'a', b'b', b'c', b'd', b'aa', b'ba', b'foo', b'v3', b'zz', b'end', b'hp\x87', b'\x8b', b'\x80x', b'x\xff_1'], rng.randrange(0, 8))
            kp = M.write_keep_file(ctx, keep, 'k%d.txt' % (h % 20), style=h % 2)
            args['keep_names_from_file'] = kp
            keeptxt = hx(open(kp, 'rb').read())
        f = lua.MinifyNameFactory(keep_all_names=args.get('keep_all_names', False), keep_names_from_file=args.get('keep_names_from_file'))
        outs = [f.get_short_name(x) for x in ins]
        res.evaluations += 1
        res.nontrivial.add((tuple(ins[:50]), cfg, tuple(keep)))
        res.count(cfg)
        inp = {'names': [hx(x) for x in ins[:400]], 'cfg': cfg, 'keep': [hx(k) for k in keep]}
        check_relation(res, 'C02:history:%s:%s' % (cfg, hx(b','.join(ins[:6]))), inp, ins, outs, reserved, set(keep), cfg == 'keepall')
        lines.append('shortnames %s %s %s' % (cfg, keeptxt, ' '.join(hx(x) for x in ins)))
        expect.append('ok ' + ':'.join(hx(o) for o in outs))
        cases.append({'op': 'shortnames', 'cfg': cfg, 'n': n})
    res.sample({'history': [x.decode('latin-1') for x in ins[:8]], 'out': [x.decode('latin-1') for x in outs[:8]]})
    # _name_for_id exhaustively
    top = ctx.budget(20000, 200000)
    seen = {}
    for i in list(range(top)) + [26 ** 3 - 1, 26 ** 3, 26 ** 4, 26 ** 5 + 7, 10 ** 9, 2 ** 40 + 3]:
        nm = lua.MinifyNameFactory._name_for_id(i)
        if nm in seen and seen[nm] != i:
            res.fail('C02:name-for-id:%d' % i, '_name_for_id(%d) == _name_for_id(%d) == %r' % (i, seen[nm], nm), {'id': i})
        seen[nm] = i
        lines.append('nameforid %d' % i)
        expect.append('ok ' + hx(nm))
        cases.append({'op': 'nameforid', 'id': i})
    res.evaluations += len(seen)
    res.extra['name_for_id_exhaustive_upto'] = top
    # end to end: real luamin on programs; align names of input and output
    import re
    nprog = ctx.budget(150, 3000)
    for i in range(nprog + 40):
        if i < nprog:
            src = gen_lua.gen_program(rng)[0]
        else:
            nm = rng.choice([b'again', b'a', b'foo', b'l\x99', b'top_1', b'b'])
            src = b'n=0\n::' + nm + b'::\nn+=1\nif n<9 then goto ' + nm + b' end\n::' + nm + b'2:: goto ' + nm + b'2\n'
        cfg = rng.choice(['default', 'keepfile'])
        keep = rng.sample([b'a', b'b', b'c', b'ba', b'foo', b'x', b'again'], 3) if cfg == 'keepfile' else []
        kp = M.write_keep_file(ctx, keep, 'e%d.txt' % (i % 20)) if keep else None
        # the identifiers are those of `src`; the text given to luamin may spell its labels with blanks inside the `::` (legal Lua, the
        # same identifiers in the same order)
        given = src
        if i % 3 == 0 or i >= nprog:
            bl = rng.choice([b' ', b'\t', b'  ', b' \t'])
            given = re.sub(br'::([A-Za-z_\x80-\xff][A-Za-z0-9_\x80-\xff]*)::', lambda m_: b'::' + bl + m_.group(1) + rng.choice([bl, b'']) + b'::', src)
            if given != src:
                res.count('labels-with-blanks')
        try:
            out = M.minify([given], cfg, kp)
            ti = [t for t in M.real_tokens([src]) if type(t).__name__ in ('TokName', 'TokLabel')]
            to = [t for t in M.real_tokens([out]) if type(t).__name__ in ('TokName', 'TokLabel')]
        except Exception:
            continue
        res.evaluations += 1
        res.count('programs')
        if len(ti) != len(to):
            continue   # token fusing is C01's subject
        strip = lambda t: t._data[2:-2] if type(t).__name__ == 'TokLabel' else t._data  # noqa: E731
        check_relation(res, 'C02:program:%s:%s' % (cfg, hx(given)[:50]), {'source': hx(given), 'cfg': cfg, 'keep': [hx(k) for k in keep]},
                       [strip(t) for t in ti], [strip(t) for t in to], reserved, set(keep), False)
    # two minifications alive at the same time: the writer's to_lines() is lazy, so a caller can read part of cart A's minified code,
    # minify cart B, and read the rest of A; each output must still carry ONE consistent injective renaming of its own identifiers
    from pico8.lua import lua as lua_
    for i in range(ctx.budget(6, 60)):
        na, nb = rng.choice([31, 40, 60, 700]), rng.choice([1, 5, 30, 800])
        srcs = [b''.join(b'%s%d_%d = %d\n' % (tag, i, k, k) for k in range(n)) + b''.join(b'f(%s%d_%d)\n' % (tag, i, k) for k in range(0, n, 3))
                for tag, n in ((b'alpha', na), (b'beta', nb))]
        try:
            wa = lua_.LuaMinifyTokenWriter(tokens=M.real_tokens([srcs[0]]), root=None, args={})
            ga = wa.to_lines()
            head = []
            for _ in range(rng.choice([27, 33, 90])):
                head.append(next(ga))
            outb = b''.join(lua_.LuaMinifyTokenWriter(tokens=M.real_tokens([srcs[1]]), root=None, args={}).to_lines())
            outa = b''.join(head) + b''.join(ga)
        except StopIteration:
            continue
        except Exception as e:
            res.fail('C02:interleaved:%d' % i, 'minifying two carts alternately raised %r' % (e,), {'a': hx(srcs[0])[:200], 'b': hx(srcs[1])[:200]})
            continue
        res.evaluations += 1
        res.count('interleaved-minifications')
        for src_, out_, nm_ in ((srcs[0], outa, 'first (read in two parts)'), (srcs[1], outb, 'second')):
            ti = [t._data for t in M.real_tokens([src_]) if type(t).__name__ == 'TokName']
            to = [t._data for t in M.real_tokens([out_]) if type(t).__name__ == 'TokName']
            if len(ti) == len(to):
                check_relation(res, 'C02:interleaved:%d:%s' % (i, nm_[:5]), {'first': hx(srcs[0]), 'second': hx(srcs[1]), 'which': nm_},
                               ti, to, reserved, set(), False)
    # command line wiring of the keep options: `p8tool luamin [--keep-all-names | --keep-names-from-file F] cart` = the library minifier
    # with the same configuration (on .p8 and .p8.png carts)
    import contextlib
    import io
    import implutil as U
    from pico8 import tool
    from pico8.game import file as gfile
    for i in range(ctx.budget(9, 90)):
        src = gen_lua.gen_program(rng)[0]
        cfg = ['default', 'keepall', 'keepfile'][i % 3]
        keep = rng.sample([b'a', b'b', b'c', b'ba', b'foo', b'x', b'player_x', b'tbl'], 4) if cfg == 'keepfile' else []
        kp = M.write_keep_file(ctx, keep, 'cli%d.txt' % i, style=i % 2) if keep else None
        ext = ['.p8', '.p8.png'][(i // 3) % 2]
        try:
            g = U.make_game(rng=rng, code=src, version=8)
        except Exception:
            continue
        cart = os.path.join(ctx.tmp, 'c02cli%d%s' % (i, ext))
        gfile.to_file(g, cart)
        stored = b''.join(gfile.from_file(cart).lua.to_lines())
        argv = ['-q', 'luamin'] + (['--keep-all-names'] if cfg == 'keepall' else []) + (['--keep-names-from-file', kp] if kp else []) + [cart]
        with U.quiet(), contextlib.redirect_stdout(io.StringIO()), contextlib.redirect_stderr(io.StringIO()):
            try:
                rc = tool.main(argv)
            except Exception as e:
                rc = 'raised %r' % (e,)
        res.evaluations += 1
        res.count('cli:' + cfg + ext)
        res.nontrivial.add(('cli', cfg, ext, i))
        outp = cart[:-len(ext)] + '_fmt' + ext
        key = 'C02:cli:%s:%s' % (cfg, hx(src)[:50])
        inp = {'source': hx(src), 'cfg': cfg, 'keep': [hx(k) for k in keep], 'cart': ext}
        if rc != 0 or not os.path.exists(outp):
            res.fail(key, 'p8tool luamin (%s) failed on a valid cart: %s' % (cfg, rc), inp)
            continue
        got = b''.join(gfile.from_file(outp).lua.to_lines())
        want = M.minify([stored], cfg, kp)
        if got.rstrip(b'\n') != want.rstrip(b'\n'):
            res.fail(key, 'p8tool luamin with %s does not write what the minifier produces with that configuration (option wiring)' % (
                {'default': 'no option', 'keepall': '--keep-all-names', 'keepfile': '--keep-names-from-file'}[cfg]), inp,
                observed=hx(got)[:200], expected=hx(want)[:200])
    if ctx.model.available:
        mo = ctx.model.run(lines)
        for c, e, g in zip(cases, expect, mo):
            if e != g:
                res.diff(c, e[:160], g[:160])


def replay(ctx, rep, res):
    run(ctx, res)
    return not res.failures and not res.diffs
