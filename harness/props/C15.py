"""C15 — P8SCII <-> Unicode bijection: correspondence + direct oracle."""
from common import hx

ASSUMPTIONS = ['UTF-8 encode/decode of valid scalar values is CPython\'s (trusted); the model works on code points']
TRUSTED_EXTRA = ['modelled by hand: p8scii_to_unicode, unicode_to_p8scii (lua.py:293-324); table Gen.p8scii regenerated']


def _impl():
    from pico8.lua import lua
    return lua


def _u2p(lua, s):
    try:
        return 'ok ' + (' '.join(str(b) for b in lua.unicode_to_p8scii(s)) or '-')
    except (KeyError, IndexError):
        return 'err key'


def _cases(ctx):
    rng = ctx.rng
    cases = [bytes([b]) for b in range(256)]
    cases += [bytes([a, b]) for a in range(256) for b in range(256)]
    n = ctx.budget(300, 5000)
    for _ in range(n):
        ln = rng.choice([0, 1, 3, 8, 40, 300, 2000])
        cases.append(bytes(rng.randrange(256) for _ in range(ln)))
    # long strings (whole carts of code are converted in one call): multi-code-point glyphs at and around every power-of-two offset
    # of the Unicode text, and dense random glyph text
    multi = [b for b in range(256)]
    for k in range(ctx.budget(4, 40)):
        ln = rng.choice([0x8000, 0xffff, 0x10000, 0x10001, 0x12000, 0x20003])
        body = bytearray(rng.choice(b'abc \n=') for _ in range(ln))
        for off in (0x0fff, 0x1000, 0x3fff, 0x7fff, 0x8000, 0xfffe, 0xffff, 0x10000, 0x1ffff, 0x20000):
            for d in (-2, -1, 0, 1):
                if 0 <= off + d < ln:
                    body[off + d] = rng.choice([0x83, 0x8b, 0x8e, 0x91, 0x94, 0x97, rng.randrange(0x80, 0x100), rng.randrange(0x10, 0x20)])
        cases.append(bytes(body))
        cases.append(bytes(rng.randrange(0x80, 0x100) for _ in range(0x9000)))
    # one run of two-code-point glyphs straddling each power-of-two offset of the TEXT, in both alignments (the rest is ASCII, so byte
    # offsets before the run are text offsets)
    two_cp = [b for b in range(256) if len(_impl().p8scii_to_unicode(bytes([b]))) >= 2] or [0x83]
    for B in (0x1000, 0x8000, 0x10000, 0x20000):
        for par in (0, 1):
            body = bytearray(b'a' * (B + 64))
            for j in range(6):
                body[B - 5 - par + j] = rng.choice(two_cp)
            cases.append(bytes(body))
    return cases


def run(ctx, res):
    lua = _impl()
    res.rule = ('all 256 single bytes, all 65536 byte pairs, seeded random strings (len 0..2000) and long texts (32k-128k bytes, multi-code-point glyphs around power-of-two offsets) through '
                'p8scii_to_unicode/unicode_to_p8scii and the Lean model; malformed Unicode stream (unknown code points, '
                'truncated multi-code-point spellings); every byte value in comment lines of a cart written to .p8 and read back; distinct = distinct byte strings / texts; non-trivial = non-empty')
    cases = _cases(ctx)
    # ---- oracle + p2u correspondence
    lines = []
    impl_out = []
    for bs in cases:
        try:
            u = lua.p8scii_to_unicode(bs)
            impl_out.append('ok ' + (' '.join(str(ord(c)) for c in u) or '-'))
        except Exception as e:  # IndexError when the table is short
            u = None
            impl_out.append('err ' + type(e).__name__)
        lines.append('p2u ' + hx(bs))
        res.evaluations += 1
        if bs:
            res.nontrivial.add(bs)
        # direct property oracle
        if u is None:
            res.fail('C15:p2u-raises:' + hx(bs), 'p8scii_to_unicode raises on bytes %s' % hx(bs), {'bytes': hx(bs)})
            continue
        try:
            u.encode('utf-8')
        except UnicodeEncodeError:
            res.fail('C15:utf8:' + hx(bs), 'Unicode text of %s is not UTF-8 encodable' % hx(bs), {'bytes': hx(bs)})
        try:
            back = lua.unicode_to_p8scii(u)
        except Exception as e:
            back = type(e).__name__
        if back != bs:
            res.fail('C15:roundtrip:' + hx(bs), 'unicode_to_p8scii(p8scii_to_unicode(b)) != b for b=%s (got %r)' % (hx(bs), back),
                     {'bytes': hx(bs)}, observed=repr(back), expected=hx(bs))
    res.count('single', 256)
    res.count('pairs', 65536)
    res.count('random', len(cases) - 65792)
    res.count('long(>=32768 bytes)', sum(1 for c in cases if len(c) >= 0x8000))
    res.sample({'bytes': hx(cases[300]), 'unicode': lua.p8scii_to_unicode(cases[300]) if len(lua.P8SCII_CHARSET) >= 256 else None})
    res.sample({'bytes': hx(cases[-1][:24])})
    # table-level clauses of the property
    sp = [c.p8string for c in lua.P8SCII_CHARSET]
    if len(sp) != 256:
        res.fail('C15:table-len', 'P8SCII_CHARSET has %d rows' % len(sp), {'rows': len(sp)})
    if len(set(sp)) != len(sp):
        dup = sorted(i for i, s in enumerate(sp) if sp.count(s) > 1)
        res.fail('C15:dup:' + str(dup), 'duplicate Unicode spellings for codes %s' % dup, {'codes': dup})
    for i, a in enumerate(sp):
        for j, b in enumerate(sp):
            if i != j and a != b and b.startswith(a):
                res.fail('C15:prefix:%d:%d' % (i, j), 'spelling of %d is a prefix of spelling of %d' % (i, j), {'codes': [i, j]})
    # ---- "the Unicode text stored in .p8 files": every byte value in a comment line of a cart written to .p8 and read back,
    # alone on an otherwise ASCII line, next to a glyph >= 0x80, and pairs of low glyph bytes (the file layer must use the mapping for every line)
    import io as _io
    import implutil as U
    from pico8.game.formatter.p8 import P8Formatter
    code_lines = []
    for b in range(256):
        if b in (10, 13):
            continue
        code_lines += [b'--' + bytes([b]) + b'z\n', b'--\x8b' + bytes([b]) + b'\n', b'--' + bytes([b, 0x10 + b % 16]) + b'\n']
    # lines that look like a section header once the glyphs are spelled in Unicode letters (`__<kana>__`), inside a long string / comment
    groups = [code_lines[k:k + 96] for k in range(0, len(code_lines), 96)]
    for g_ in (0x9a, 0xb0, 0xfd, 0x89, 0x95, 0x80, 0xff):
        groups.append([b'x=[[\n', b'__' + bytes([g_]) + b'__\n', b'__' + bytes([g_, 0x9b]) + b'lua__\n', b']]\n', b'--[[\n', b'__' + bytes([g_]) + b'gfx__\n', b']]\n'])
    for k, chunk in enumerate(groups):
        res.evaluations += 1
        res.count('p8-file-lines', len(chunk))
        try:
            g = U.make_game(code=b''.join(chunk), version=8)
            fh = _io.BytesIO()
            P8Formatter.to_file(g, fh)
            text = fh.getvalue()
            text.decode('utf-8')
            back = b''.join(P8Formatter.from_file(_io.BytesIO(text)).lua.to_lines())
        except Exception as e:
            back = repr(e)
        if back != b''.join(chunk):
            res.fail('C15:p8-file:%d' % k, 'comment lines holding each byte value do not survive .p8 write/read (%s)' % (
                back if isinstance(back, str) else 'code differs'), {'code': hx(b''.join(chunk))})
    # ---- the same conversion in an interpreter started with -O (assert statements are not executed there): all single bytes, all pairs
    import subprocess
    import sys
    from common import REPO
    code = ('import sys; sys.path.insert(0, %r); sys.dont_write_bytecode = True\n'
            'from pico8.lua import lua\n'
            'bad = []\n'
            'for a in range(256):\n'
            '    for b in [None] + list(range(256)):\n'
            '        s = bytes([a]) if b is None else bytes([a, b])\n'
            '        try:\n'
            '            ok = lua.unicode_to_p8scii(lua.p8scii_to_unicode(s)) == s\n'
            '        except Exception as e:\n'
            '            ok = False\n'
            '        if not ok: bad.append(s.hex())\n'
            'print(len(bad), " ".join(bad[:8]))\n' % REPO)
    for flag in ('-O', '-OO'):
        r = subprocess.run([sys.executable, flag, '-c', code], capture_output=True, text=True)
        res.evaluations += 1
        res.count('optimised-interpreter-runs')
        first = (r.stdout.strip().split() or ['?'])
        if r.returncode != 0 or first[0] != '0':
            res.fail('C15:python%s' % flag, 'under `python %s` %s byte strings of length 1-2 do not round-trip (e.g. %s)%s' % (
                flag, first[0], ' '.join(first[1:4]), (' [stderr: %s]' % r.stderr[-200:]) if r.returncode else ''), {'interpreter_flag': flag})
    # ---- u2p correspondence incl. malformed stream
    rng = ctx.rng
    alphabet = sorted({ch for s in sp for ch in s}) + ['Ā', '\U0001F600', '⬇', '️', 'é']
    texts = [''.join(rng.choice(alphabet) for _ in range(rng.choice([1, 2, 3, 5, 9]))) for _ in range(ctx.budget(2000, 40000))]
    texts += [s for s in sp] + [s[:-1] for s in sp if len(s) > 1] + [s + s for s in sp]
    tl = ['u2p ' + (' '.join(str(ord(c)) for c in t) or '-') for t in texts]
    ti = [_u2p(lua, t) for t in texts]
    res.count('u2p_texts', len(texts))
    res.count('u2p_err', sum(1 for x in ti if x.startswith('err')))
    res.evaluations += len(texts)
    res.nontrivial |= {('t', t) for t in texts if t}
    res.sample({'text_codepoints': [ord(c) for c in texts[0]], 'impl': ti[0]})
    if ctx.model.available:
        mo = ctx.model.run(lines + tl)
        for case, a, b in zip(cases, impl_out, mo[:len(lines)]):
            if a != b:
                res.diff({'op': 'p2u', 'bytes': hx(case)}, a, b)
        for t, a, b in zip(texts, ti, mo[len(lines):]):
            if a != b:
                res.diff({'op': 'u2p', 'codepoints': [ord(c) for c in t]}, a, b)


def replay(ctx, rep, res):
    lua = _impl()
    inp = rep.get('input') or {}
    if 'bytes' in inp:
        bs = bytes.fromhex(inp['bytes']) if inp['bytes'] != '-' else b''
        try:
            ok = lua.unicode_to_p8scii(lua.p8scii_to_unicode(bs)) == bs
        except Exception:
            ok = False
        if not ok:
            res.fail(rep.get('key', 'C15'), rep.get('what', ''), inp)
        return ok
    run(ctx, res)
    return not res.failures and not res.diffs
