"""C07 — lexer vs the lexical grammar: correspondence (model vs lexer.py) + oracle (implementation vs Lean Spec lexer)."""
import itertools
from fractions import Fraction

from common import hx
import implutil as U
import lexutil as L
import gen_lua

ASSUMPTIONS = ['dialect decisions of DESIGN 4.1 (numeral forms, --[==[ is a line comment, lone CR is a newline token that does '
               'not advance the line counter, escape set); sources outside the dialect (Spec returns none) are not judged',
               'TokNumber.value is a Python float; compared with the exact rational of the Spec within float rounding']
TRUSTED_EXTRA = ['modelled by hand: Lexer._process_token/_process_line/process_lines, TokString.code, TokNumber (lexer.py); '
                 'hand-written matchers for the 13 structured regex patterns (validated against the real lexer on all short strings); '
                 'Gen.matcherShape / keywords / escapes regenerated; Spec/LuaLex.lean is the reference grammar']
ALPHA = [b'.', b'=', b'<', b'>', b'~', b'!', b'-', b'/', b'[', b']', b':', b'&', b'|', b'^', b'+', b'*', b'%', b'\\', b'@',
         b'$', b'#', b'?', b'"', b'1', b'x', b'e', b'n', b'\x80', b' ', b'\n']
WORDS = [b'end', b'if', b'0x', b'0b', b'--', b'//', b'[[', b']]', b'::', b'..', b'\r', b'\\', b"'", b'0', b'_', b'E', b'X', b'B',
         b'f', b'\t', b'(', b')', b'{', b'}', b';', b',', b'local', b'elseif', b'not', b'goto']


def classify(src):
    s = set()
    for a in (b'--', b'//', b'[[', b'"', b"'", b'0x', b'0b', b'..', b'::', b'\n', b'\r', b'\\', b'\x80', b'e'):
        if a in src:
            s.add(a)
    return (len(src) if len(src) < 6 else 6, tuple(sorted(s)))


def run(ctx, res):
    rng = ctx.rng
    n_exh = ctx.budget(3, 4)
    res.rule = ('all strings up to length %d over a %d-symbol alphabet hitting every operator prefix, quotes, digits, exponent/hex letters, '
                'a glyph byte, space and LF; random strings over that alphabet plus keyword/bracket words up to length 12; generated '
                'programs in random layouts; numeral spelling grid; each source as one chunk and as per-line chunks; '
                'distinct non-trivial = distinct sources that lex to >= 2 tokens' % (n_exh, len(ALPHA)))
    srcs = []
    for ln in range(n_exh + 1):
        for tup in itertools.product(ALPHA, repeat=ln):
            srcs.append(b''.join(tup))
    res.extra['exhaustive_upto_len'] = n_exh
    res.count('exhaustive', len(srcs))
    pool = ALPHA + WORDS
    for _ in range(ctx.budget(20000, 400000)):
        srcs.append(b''.join(rng.choice(pool) for _ in range(rng.randrange(1, 9))))
    nprog = ctx.budget(300, 6000)
    for _ in range(nprog):
        srcs.append(gen_lua.gen_program(rng)[0])
    res.count('random-strings', ctx.budget(20000, 400000))
    res.count('programs', nprog)
    # hand-picked anchors (past defects + dialect corners)
    srcs += [b'end\x80=1', b'x\x80end', b'a>>>b', b'a>><b', b'a<<>b', b'a..=b', b'1..x', b'1...', b'0x.8', b'0XA.f', b'0b.1', b'0B1',
             b'1e-5', b'1e+5', b'1E5x', b'.5e3', b'5.', b'5..', b'0x1p4', b'::a::', b'::1::', b'a:b', b'--[==[x\n]==]', b'--[[x\n]]y',
             b'[==[a]=]b]==]', b'"\\0001"', b'"\\x41"', b'"\\z"', b'"\\300"', b'x="a\\\nb"', b'a\r\nb\rc\n', b'?"x"', b'a!=b', b'a~=b',
             b'a^^b', b'@a', b'$a', b'%a', b'a\\b', b'"unterminated', b'[[unterminated', b'--[[unterminated', b'`', b'a!b']
    # positions after tokens that span lines or contain escapes: every such shape followed by more tokens on the same and on the next line
    tails = [b' y=1\nz=2\n', b'..k -- c\n::l:: w=3']
    for a in ([x for x in srcs[-44:] if b'\n' in x or b'\\' in x or b'[' in x] + gen_lua.string_escape_cases(rng, ctx.budget(150, 3000))):
        srcs.append(a.rstrip(b'\n') + rng.choice(tails))
    for body in (b'a\\\nb', b'\\\n', b'\\\n\\\n', b'a\\\n\\\nb\\\n', b'\\\r', b'a\\\r\nb', b'\\n', b'\\10', b'\\x0a', b'a\nb', b'\n', b'\r\n', b'\\\\\nq', b'\\\\\\\nq'):
        for q in (b'"', b"'"):
            srcs += [b'x=' + q + body + q + t for t in tails] + [b'f(' + q + body + q + b',' + q + body + q + b') g()\nh()']
    impl, lines_one, lines_spec, lines_split = [], [], [], []
    multi = []
    for s in srcs:
        out, toks = L.impl_lex([s])
        impl.append((out, toks))
        lines_one.append('lex ' + L.chunks_arg([s]))
        lines_spec.append('speclex ' + hx(s))
        res.evaluations += 1
        if toks is not None and len(toks) >= 2:
            res.nontrivial.add(s)
        if b'\n' in s:
            multi.append(s)
    res.sample({'source': repr(srcs[len(srcs) // 2]), 'tokens': impl[len(srcs) // 2][0][:200]})
    res.sample({'source': repr(srcs[-60][:80]), 'tokens': impl[-60][0][:200]})
    kinds = {}
    for out, toks in impl:
        for t in (toks or []):
            kinds[L.KIND[type(t).__name__]] = kinds.get(L.KIND[type(t).__name__], 0) + 1
        if toks is None:
            kinds[out] = kinds.get(out, 0) + 1
    res.histogram.update({'tok:' + k: v for k, v in kinds.items()})
    # chunk independence (oracle on the implementation)
    for s in multi:
        a, _ = L.impl_lex([s])
        b, _ = L.impl_lex(L.split_lines(s))
        res.evaluations += 1
        if a != b:
            res.fail('C07:chunking:' + hx(s)[:60], 'tokenisation depends on chunking (one chunk vs per-line chunks)', {'source': hx(s)},
                     observed=b[:200], expected=a[:200])
        lines_split.append('lex ' + L.chunks_arg(L.split_lines(s)))
    res.count('multi-line-sources', len(multi))
    if ctx.model.available:
        mo = ctx.model.run(lines_one + lines_spec + lines_split)
        n = len(srcs)
        for s, (out, toks), m, sp in zip(srcs, impl, mo[:n], mo[n:2 * n]):
            if out != m:
                res.diff({'op': 'lex', 'source': hx(s)}, out[:160], m[:160])
            # the Spec is the grammar: where it accepts the source, the implementation must produce exactly its tokens
            if sp != 'none' and out != sp:
                res.fail('C07:grammar:' + hx(s)[:60], 'token list differs from the lexical grammar (kinds/extents/values/positions)',
                         {'source': hx(s)}, observed=out[:300], expected=sp[:300])
        for s, m in zip(multi, mo[2 * n:]):
            a, _ = L.impl_lex(L.split_lines(s))
            if a != m:
                res.diff({'op': 'lex-split', 'source': hx(s)}, a[:160], m[:160])
    # token counting rules of `stats`: implementation vs model, and vs a count made from the reference lexer's tokens by PICO-8's rule
    # (every token except `: . ) ] }` symbols and the keywords `local`, `end`; a number with an exponent counts twice)
    import minutil as M
    tc_src = [b'x = "end"\n', b's = split(t, ":")\n', b'a = {")", "]", "}", ".", "local", "e"}\n', b"k = 'end' .. [[local]]\n", b'print("1e3")\n',
              b'y = 1e3 + 0x1e + 0x.e\n', b'local function f(a) return a.b:c(1)[2] end\n', b'::end_::  goto end_\n', b'e = 1 endx = 2 locale = 3\n',
              b'z = ".":rep(3)\n', b'-- end local\nq = 1 // end\n', b'w = [[)]] .. "}" .. \')\'\n']
    tc_src += [gen_lua.gen_program(rng)[0] for _ in range(ctx.budget(60, 1500))]
    tl = ['tokcount ' + L.chunks_arg([s_]) for s_ in tc_src] + ['speclex ' + hx(s_) for s_ in tc_src]
    tout = ctx.model.run(tl) if ctx.model.available else None
    for i, s_ in enumerate(tc_src):
        try:
            have = M.token_count([s_])
        except Exception:
            continue
        res.evaluations += 1
        res.count('token-count')
        res.nontrivial.add((b'tc', s_))
        if tout is None:
            continue
        if tout[i] != 'ok %d' % have and not tout[i].startswith('err'):
            res.diff({'op': 'tokcount', 'source': hx(s_)}, 'ok %d' % have, tout[i])
        sp = M.parse_toks(tout[len(tc_src) + i])
        if sp is not None:
            want = 0
            for t in sp:
                if t[0] in M.TRIVIA:
                    continue
                if (t[0] == 'symbol' and t[1] in (b':', b'.', b')', b']', b'}')) or (t[0] == 'keyword' and t[1] in (b'local', b'end')):
                    continue
                want += 2 if (t[0] == 'number' and b'e' in t[1]) else 1
            if want != have:
                res.fail('C07:token-count:' + hx(s_)[:60], 'stats counts %d tokens, PICO-8\'s rule on the grammar\'s tokens gives %d' % (have, want), {'source': hx(s_)})
    # numeric values: implementation float vs exact rational of the Spec
    nums = [b'0', b'7', b'12.5', b'5.', b'.5', b'1e3', b'1E3', b'1e-3', b'12.5e2', b'.5e1', b'0x10', b'0XfF', b'0x1f.8', b'0X.8', b'0x.08',
            b'0b101', b'0B1', b'0b1.1', b'0b.01', b'0xa.A', b'0xB', b'0xe', b'32767.99', b'0x7fff.ffff']
    # long fractions (digits far to the right still count): binary up to 48 places, hexadecimal up to 13 places with an integer part
    # and up to 16 places without one (so that the implementation's float arithmetic rounds at most once)
    for _ in range(ctx.budget(60, 600)):
        k = rng.randrange(1, 49)
        nums.append(rng.choice([b'0b', b'0B']) + rng.choice([b'', b'1', b'101']) + b'.' + bytes(rng.choice(b'01') for _ in range(k - 1)) + b'1')
        k = rng.randrange(1, 14)
        nums.append(rng.choice([b'0x', b'0X']) + rng.choice([b'', b'7', b'1f']) + b'.' + bytes(rng.choice(b'0123456789abcdefABCDEF') for _ in range(k - 1)) + rng.choice(b'123456789abcdef').to_bytes(1, 'big'))
        k = rng.randrange(13, 17)
        nums.append(b'0x.' + b'0' * (k - 1) + rng.choice(b'123456789abcdef').to_bytes(1, 'big'))
    nums += [b'0b.0000000000000001', b'0x.00000000000001', b'0b.' + b'0' * 30 + b'1', b'0x.0000000000001', b'0b1.' + b'0' * 20 + b'1']
    g = gen_lua.LuaGen(rng)
    nums += [g.number() for _ in range(ctx.budget(300, 5000))]
    from pico8.lua import lexer
    vlines = ['numval ' + hx(n) for n in nums]
    vout = ctx.model.run(vlines) if ctx.model.available else [None] * len(nums)
    for n, vo in zip(nums, vout):
        res.evaluations += 1
        res.nontrivial.add((b'num', n))
        try:
            v = lexer.TokNumber(n).value
        except Exception as e:
            res.fail('C07:number-value:' + n.decode(), 'TokNumber(%r).value raised %r' % (n, e), {'numeral': n.decode()})
            continue
        if vo is not None:
            _, a, b = vo.split()
            exact = Fraction(int(a), int(b))
            if float(exact) != v:
                res.fail('C07:number-value:' + n.decode(), 'value of numeral %r is %r, grammar says %s' % (n, v, exact), {'numeral': n.decode()})
    res.count('numerals', len(nums))


def replay(ctx, rep, res):
    inp = rep.get('input') or {}
    if 'source' in inp and ctx.model.available:
        s = bytes.fromhex(inp['source']) if inp['source'] != '-' else b''
        out, _ = L.impl_lex([s])
        sp = ctx.model.run(['speclex ' + hx(s)])[0]
        if sp != 'none' and out != sp:
            res.fail(rep.get('key', 'C07'), 'token list differs from the lexical grammar', inp)
        if b'\n' in s and out != L.impl_lex(L.split_lines(s))[0]:
            res.fail(rep.get('key', 'C07'), 'chunk dependence', inp)
        return not res.failures
    run(ctx, res)
    return not res.failures and not res.diffs
