"""C01 — luamin keeps the program: correspondence (model vs LuaMinifyTokenWriter) + oracle via the Lean Spec lexer."""
import re
import os

from common import hx
import implutil as U
import lexutil as L
import minutil as M
import gen_lua

ASSUMPTIONS = ['the lexical rules are Spec/LuaLex.lean (Lua 5.2 + PICO-8 extensions; see C07); programs come from the dialect generator',
               'the renaming must be a one-to-one function within each program; which names are chosen and kept (reserved names, histories) is C02']
TRUSTED_EXTRA = ['modelled by hand: LuaMinifyTokenWriter.to_lines/_to_chunks/_needs_space, MinifyNameFactory (lua.py); lexer model of C07',
                 'minify_relex_parsed / parsed_noFusable speak about the parser MODEL (grammar data run by the Peg interpreter): it is tied to parser.py by '
                 "C08's correspondence on full trees and by C08.census_matches_grammar (regenerated per-method token census)"]

# one representative per token class for the exhaustive adjacency stream
REPS = [b'+=', b'-=', b'*=', b'/=', b'%=', b'..=', b'==', b'~=', b'!=', b'<=', b'>=', b'&', b'|', b'^^', b'~', b'<<>', b'>>>', b'>><',
        b'<<', b'>>', b'\\', b'+', b'-', b'*', b'/', b'%', b'^', b'#', b'@', b'$', b'<', b'>', b'=', b'(', b')', b'{', b'}', b'[', b']',
        b';', b':', b',', b'...', b'..', b'.',
        b'x', b'foo9', b'_', b'\x8e', b'x\x80', b'?', b'end', b'and', b'not', b'print', b't',
        b'1', b'12.', b'.5', b'1.5e3', b'3e-2', b'0x1f', b'0x.8', b'0XA.b', b'0b101', b'0b.1',
        b'"s"', b"'s'", b'"a\\"b"', b'[[k]]', b'[=[k]=]', b'""', b'::lbl::']


BINOPS = set(gen_lua.BINOPS)
UNOPS = set(gen_lua.UNOPS)
ASSIGN = {b'=', b'+=', b'-=', b'*=', b'/=', b'%=', b'..='}
VALUE_KW = {b'nil', b'true', b'false'}


def ends_exp(t):
    return (t in (b')', b']', b'}', b'...', b'end') or t in VALUE_KW or t[:1] in b'"\'' or t[:2] in (b'[[', b'[=')
            or t[:1].isdigit() or (t[:1] == b'.' and t[1:2].isdigit())
            or (t not in gen_lua.KEYWORDS and (t[:1].isalpha() or t[:1] in (b'_', b'?') or t[:1] >= b'\x80')))


def starts_exp(t):
    return (t in (b'(', b'{', b'...', b'function') or t in UNOPS or t in VALUE_KW or t[:1] in b'"\'' or t[:2] in (b'[[', b'[=')
            or t[:1].isdigit() or (t[:1] == b'.' and t[1:2].isdigit())
            or (t not in gen_lua.KEYWORDS and (t[:1].isalpha() or t[:1] in (b'_', b'?') or t[:1] >= b'\x80')))


def can_follow(a, b):
    """Can token b directly follow token a somewhere in a program of the dialect? (conservative over-approximation
    limited to pairs that have a grammatical reading)"""
    is_name_b = b not in gen_lua.KEYWORDS and (b[:1].isalpha() or b[:1] in (b'_',) or b[:1] >= b'\x80')
    if a in (b'.', b':'):
        return is_name_b
    if a.startswith(b'::') and len(a) > 2:          # a label ends a statement
        return is_name_b or b in gen_lua.KEYWORDS or b.startswith(b'::') or b in (b';', b'?')
    if ends_exp(a):
        if b in BINOPS or b in ASSIGN or b in (b')', b']', b'}', b',', b';', b'.', b':', b'[', b'(', b'{'):
            return True
        if b[:1] in b'"\'' or b[:2] in (b'[[', b'[='):
            return True                               # string call argument
        if is_name_b or b == b'?' or (b.startswith(b'::') and len(b) > 2):
            return True                               # next statement
        return b in gen_lua.KEYWORDS and b not in (b'not',)
    # a expects an expression (operator, opening bracket, separator, keyword)
    if a in BINOPS or a in UNOPS or a in ASSIGN or a in (b'(', b'[', b'{', b',', b';') or a in gen_lua.KEYWORDS:
        if starts_exp(b):
            return True
        if a == b'(' and b == b')' or a == b'{' and b == b'}' or a in (b',', b';') and b == b'}':
            return True
        if a in (b';', b'do', b'then', b'else', b'repeat', b')') and (b in gen_lua.KEYWORDS or (b.startswith(b'::') and len(b) > 2)):
            return True
        if a in gen_lua.KEYWORDS and a not in (b'and', b'or', b'not') and b in gen_lua.KEYWORDS and b not in (b'and', b'or'):
            return True
    return False


def compare(res, key, inp, src_spec, out_spec, what):
    """Oracle: out must lex to the same significant tokens as src (names modulo renaming) with the same newline gaps."""
    a, b = M.sig(src_spec), M.sig(out_spec)
    if len(a) != len(b):
        res.fail(key, '%s: output has %d significant tokens, input %d (tokens fused, split or dropped)' % (what, len(b), len(a)), inp)
        return False
    ren = {}
    for x, y in zip(a, b):
        kx, ky = x[0], y[0]
        ok = kx == ky
        if ok and kx == 'name':
            ok = ren.setdefault(x[1], y[1]) == y[1]
        elif ok and kx == 'label':
            ok = ren.setdefault(x[1][2:-2], y[1][2:-2]) == y[1][2:-2]
        elif ok and kx == 'string':
            ok = x[1] == y[1]
        elif ok:
            ok = x[1] == y[1]
        if not ok:
            res.fail(key, '%s: token %r became %r' % (what, (kx, x[1]), (ky, y[1])), inp)
            return False
    inv = {}
    for k, v in ren.items():
        if inv.setdefault(v, k) != k:
            res.fail(key, '%s: identifiers %r and %r both became %r (not a renaming)' % (what, inv[v], k, v), inp)
            return False
    if M.gaps_have_newline(src_spec) != M.gaps_have_newline(out_spec):
        res.fail(key, '%s: a line break between two tokens was added or removed (line-scoped shorthand changes extent)' % what, inp)
        return False
    # no new comments: comments of the output are the first two leading comments of the input
    lead = []
    for t in src_spec:
        if t[0] == 'comment':
            lead.append(t[1])
        elif t[0] not in M.TRIVIA:
            break
    oc = [t[1] for t in out_spec if t[0] == 'comment']
    if oc != lead[:2]:
        res.fail(key, '%s: comments in the output %r are not the first two leading comments %r' % (what, oc[:3], lead[:2]), inp)
        return False
    return True


def run(ctx, res):
    rng = ctx.rng
    res.rule = ('dialect programs (grammar-directed, all statement/expression forms) in random layouts x {default, keep-all, keep-file}; '
                'all ordered pairs of %d token-class representatives glued with nothing / space / newline / comment; the real minifier\'s '
                'output is re-lexed by the Lean Spec lexer and compared with the input tokens (modulo renaming), newline gaps, comments, '
                'token count; distinct non-trivial = distinct ordered (last-token class, next-token class) adjacencies exercised' % len(REPS))
    cases = []   # (src, cfg, keepnames, tag)
    nprog = ctx.budget(500, 12000)
    for i in range(nprog):
        src, items, feats = gen_lua.gen_program(rng)
        cfg = rng.choice(['default', 'default', 'keepall', 'keepfile'])
        keep = None
        if cfg == 'keepfile':
            names = sorted({it.text for it in items if it.text[:1].isalpha() or it.text[:1] >= b'\x80'})
            keep = rng.sample(names, min(len(names), rng.randrange(0, 4))) + rng.sample([b'a', b'b', b'c', b'ba', b'zz'], 2)
        if rng.random() < 0.3:
            src = rng.choice([b'-- title\n-- by me\n', b'--t\n', b'// a\n//b\n--c\n', b'--[[ multi\nline ]]\n', b'-- see t[a[1]]\n', b'-- ]]\n-- [[\n',
                              b'// x]]\n', b'--[==[ a ]==]\n--]==]\n', b'--[[a]]--b]]\n', b'-- --[[\n']) + src
        cases.append((src, cfg, keep, 'program'))
        for k in feats:
            res.count('feat:' + k)
    for src, items in gen_lua.word_programs(rng):
        cases.append((src, rng.choice(['default', 'keepall']), None, 'word-program'))
    for src in gen_lua.lookalike_programs():
        cases.append((src, rng.choice(['default', 'keepall']), None, 'lookalike-line'))
    seps = [b'', b' ', b'\n', b' --c\n', b'--[[c]]']
    for a in REPS:
        for b in REPS:
            for sep in (seps if ctx.thorough() else [b'', b' ', b'\n']):
                if sep == b'' and gen_lua.must_separate(a, b):
                    continue
                if not can_follow(a, b):
                    continue
                cases.append((b'z ' + a + sep + b + b' z\n', 'default', None, 'pair'))
    res.count('pairs', len(cases) - nprog)
    # string literals: the same value under both delimiters and as a long string, in one program and in consecutive ones (both orders)
    for v in (b'"x"', b"'y'", b'a"b\'c', b'"', b"'", b'""', b"it's", b'say "hi"', b'\n', b'\\'):
        dq = b'"' + v.replace(b'\\', b'\\\\').replace(b'"', b'\\"').replace(b'\n', b'\\n') + b'"'
        sq = b"'" + v.replace(b'\\', b'\\\\').replace(b"'", b"\\'").replace(b'\n', b'\\n') + b"'"
        for prog in (b'a=' + sq + b' b=' + dq + b'\n', b'a=' + dq + b' b=' + sq + b'\n', b'a=' + sq + b'\n', b'a=' + dq + b'\n', b'a=' + sq + b'\n',
                     b'f' + dq + b' g' + sq + b' h{' + dq + b',' + sq + b'}\n'):
            cases.append((prog, 'default', None, 'string-delimiters'))
    for prog in gen_lua.string_escape_cases(rng, ctx.budget(300, 6000)):
        cases.append((prog, rng.choice(['default', 'keepall']), None, 'string-escapes'))
    keep_cache = {}
    speclines, modellines, outs = [], [], []
    for src, cfg, keep, tag in cases:
        kp = None
        if keep is not None:
            kp = M.write_keep_file(ctx, keep, 'keep%d.txt' % (len(keep_cache) % 50), style=len(keep_cache) % 2)
            keep_cache[kp] = 1
        try:
            out = M.minify([src], cfg, kp)
        except Exception as e:
            out = None
            err = e
        outs.append(out)
        res.evaluations += 1
        if out is None:
            st, _ = L.impl_lex([src])
            if st.startswith('ok'):
                res.fail('C01:raises:' + hx(src)[:60], 'luamin raised %r on a lexable program' % (err,), {'source': hx(src), 'cfg': cfg})
            speclines += ['speclex ' + hx(src), 'speclex -']
        else:
            speclines += ['speclex ' + hx(src), 'speclex ' + hx(out)]
        keeptxt = hx(open(kp, 'rb').read()) if kp else '-'
        modellines.append('minify %s %s %s' % (cfg, keeptxt, L.chunks_arg([src])))
    res.sample({'source': repr(cases[3][0][:120]), 'minified': repr((outs[3] or b'')[:120])})
    if not ctx.model.available:
        return
    mo = ctx.model.run(speclines + modellines)
    n = len(cases)
    for i, (src, cfg, keep, tag) in enumerate(cases):
        out = outs[i]
        inp = {'source': hx(src), 'cfg': cfg, 'keep': [hx(k) for k in keep] if keep else None}
        key = 'C01:%s:%s:%s' % (tag, cfg, hx(src)[:60])
        ss, so = mo[2 * i], mo[2 * i + 1]
        m = mo[2 * n + i]
        if out is not None:
            if m != 'ok ' + hx(out):
                res.diff({'op': 'minify', 'cfg': cfg, 'source': hx(src)}, hx(out)[:160], m[:160])
            if ss == 'none':
                continue   # outside the dialect's lexical grammar: not judged
            a = M.parse_toks(ss)
            if so == 'none':
                res.fail(key, 'luamin output does not lex under the PICO-8/Lua lexical rules', inp, observed=hx(out)[:200])
                continue
            b = M.parse_toks(so)
            sa = M.sig(a)
            for x, y in zip(sa, sa[1:]):
                res.nontrivial.add((x[0] if x[0] not in ('symbol', 'keyword') else x[1], y[0] if y[0] not in ('symbol', 'keyword') else y[1]))
            if compare(res, key, inp, a, b, 'luamin'):
                tc_in, tc_out = M.token_count([src]), M.token_count([out])
                if tc_in != tc_out:
                    res.fail(key, 'token count changed by luamin: %d -> %d' % (tc_in, tc_out), inp)
    cli_multi(ctx, res, rng)
    # CLI paths: p8tool luamin and build --lua-minify on a few carts
    from pico8 import tool
    from pico8.game import file as gfile
    looks = gen_lua.lookalike_programs()
    ncli = ctx.budget(6, 60)
    for i in range(ncli + ctx.budget(9, 45)):
        src = gen_lua.gen_program(rng)[0]
        if i >= ncli:
            # text lines inside strings/comments that begin like a section header, an include, a tab cut: still text after the cart files
            src = looks[(i - ncli) * 5 % len(looks)] + (src if i % 2 else b'')
        if i % 3 == 0:
            # bytes that some text APIs treat as line boundaries but the Lua lexer does not, inside a long string and a comment
            src = b'--[[h\x0ci]]\nlocal s=[[a\x0cb\x0bc\x1cd\x1de\x85f]] q="\x0c"\n' + src
        if i % 3 == 1:
            # empty lines and blank-only lines inside long strings and block comments are part of the string value / stay inside the comment
            src = b'local t=[[one\n\n\nfour\n]] u=[==[\n\n]==] v=[[\n \n\t\n]]\n--[[c\n\n]]\n' + src
        try:
            g = U.make_game(rng=rng, code=src, version=8)
        except Exception:
            continue
        # (a .p8.png cart stores the code as is: only there can the code end without a line feed)
        png = (i % 2 == 1)
        if png:
            src = re.sub(rb'\r(?!\n)', b'\n', src)      # (see cli_multi: a .p8.png turns CR into a space)
            try:
                g = U.make_game(rng=rng, code=src.rstrip(b'\r\n \t'), version=8)
                src = src.rstrip(b'\r\n \t')
            except Exception:
                png = False
        ext = '.p8.png' if png else '.p8'
        cart = os.path.join(ctx.tmp, 'cli%d%s' % (i, ext))
        gfile.to_file(g, cart)
        res.evaluations += 1
        res.count('cli' + ext)
        import contextlib, io
        buf = io.StringIO()
        rc = rc2 = None
        with U.quiet(), contextlib.redirect_stdout(buf), contextlib.redirect_stderr(buf):
            try:
                rc = tool.main(['-q', 'luamin', cart])
            except Exception as e:
                rc = 'raised %r' % (e,)
            lua_src = os.path.join(ctx.tmp, 'cli%d.lua' % i)
            open(lua_src, 'wb').write(src)
            try:
                rc2 = tool.main(['-q', 'build', '--lua', lua_src, '--lua-minify', os.path.join(ctx.tmp, 'cli%d_b.p8' % i)])
            except Exception as e:
                rc2 = 'raised %r' % (e,)
        if rc != 0 or rc2 != 0:
            res.fail('C01:cli:' + hx(src)[:60], 'p8tool luamin / build --lua-minify failed on a valid program (rc=%s / %s)' % (rc, rc2), {'source': hx(src), 'cart': ext})
            continue
        for path, what in ((os.path.join(ctx.tmp, 'cli%d_fmt%s' % (i, ext)), 'p8tool luamin'), (os.path.join(ctx.tmp, 'cli%d_b.p8' % i), 'build --lua-minify')):
            if not os.path.exists(path):
                res.fail('C01:cli:' + hx(src)[:60], '%s wrote no output (rc=%r/%r)' % (what, rc, rc2), {'source': hx(src)})
                continue
            got = b''.join(gfile.from_file(path).lua.to_lines())
            given = b''.join(g.lua.to_lines())
            if what == 'p8tool luamin':
                # luamin minifies what the cart file holds (a .p8.png holds the code with every CR turned into a space: the reader's
                # documented normalisation, C04)
                given = b''.join(gfile.from_file(cart).lua.to_lines())
            direct = M.minify([given], 'default')
            if got.rstrip(b'\n') != direct.rstrip(b'\n'):
                res.fail('C01:cli:' + hx(src)[:60], '%s output differs from LuaMinifyTokenWriter on the same code (wiring)' % what,
                         {'source': hx(src)}, observed=hx(got)[:200], expected=hx(direct)[:200])


def cli_multi(ctx, res, rng):
    """several carts on one `p8tool luamin` command line: each output holds its own cart's code"""
    from pico8 import tool
    from pico8.game import file as gfile
    import contextlib
    import io
    for trial in range(ctx.budget(2, 10)):
        carts, stored = [], []
        for k in range(rng.choice([2, 3])):
            src = b'-- cart %d of trial %d\nmarker%d_%d = %d\n' % (k, trial, trial, k, k) + gen_lua.gen_program(rng)[0]
            ext = rng.choice(['.p8', '.p8.png'])
            if ext == '.p8.png':
                # (a .p8.png returns every CR as a space — C04's documented normalisation; a lone CR that ends a line would make it a
                # different program, so programs stored there use LF / CRLF)
                src = re.sub(rb'\r(?!\n)', b'\n', src)
            try:
                g = U.make_game(rng=rng, code=src, version=8)
            except Exception:
                continue
            pth = os.path.join(ctx.tmp, 'multi%d_%d%s' % (trial, k, ext))
            gfile.to_file(g, pth)
            carts.append(pth)
            stored.append(b''.join(gfile.from_file(pth).lua.to_lines()))
        if len(carts) < 2:
            continue
        with U.quiet(), contextlib.redirect_stdout(io.StringIO()), contextlib.redirect_stderr(io.StringIO()):
            try:
                rc = tool.main(['-q', 'luamin'] + carts)
            except Exception as e:
                rc = 'raised %r' % (e,)
        res.evaluations += 1
        res.count('cli-multi-cart')
        res.nontrivial.add(('cli-multi', trial, len(carts)))
        for pth, code in zip(carts, stored):
            ext = '.p8.png' if pth.endswith('.p8.png') else '.p8'
            outp = pth[:-len(ext)] + '_fmt' + ext
            key = 'C01:cli-multi:%d:%s' % (trial, os.path.basename(pth))
            if rc != 0 or not os.path.exists(outp):
                res.fail(key, 'p8tool luamin with %d carts failed or wrote no %s (rc=%s)' % (len(carts), os.path.basename(outp), rc), {'carts': [os.path.basename(c) for c in carts]})
                break
            got = b''.join(gfile.from_file(outp).lua.to_lines())
            want = M.minify([code], 'default')
            if got.rstrip(b'\n') != want.rstrip(b'\n'):
                res.fail(key, 'p8tool luamin with %d carts: %s does not hold the minified code of %s' % (len(carts), os.path.basename(outp), os.path.basename(pth)),
                         {'carts': [os.path.basename(c) for c in carts]}, observed=hx(got)[:160], expected=hx(want)[:160])
                break


def replay(ctx, rep, res):
    inp = rep.get('input') or {}
    if 'source' in inp and ctx.model.available:
        src = bytes.fromhex(inp['source'])
        kp = M.write_keep_file(ctx, [bytes.fromhex(k) for k in inp['keep']]) if inp.get('keep') else None
        out = M.minify([src], inp.get('cfg', 'default'), kp)
        ss, so = ctx.model.run(['speclex ' + hx(src), 'speclex ' + hx(out)])
        if ss != 'none':
            if so == 'none':
                res.fail(rep.get('key', 'C01'), 'output does not lex', inp)
            else:
                compare(res, rep.get('key', 'C01'), inp, M.parse_toks(ss), M.parse_toks(so), 'luamin')
        return not res.failures
    run(ctx, res)
    return not res.failures and not res.diffs
