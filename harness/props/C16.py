"""C16 — on-disk encodings match the PICO-8 formats: implementation vs Lean Spec renderings + fixtures."""
import io
import os

from common import hx, unhx, REPO
import implutil as U

ASSUMPTIONS = ['Spec/Formats.lean is the PICO-8 format (anchored by the PICO-8-written fixtures in tests/testdata)',
               'PNG container (pypng, zlib) trusted; pixel rows compared']
TRUSTED_EXTRA = ['modelled by hand: Gfx/Gff/Map/Sfx/Music to_lines/from_lines, get_pngdata_from_picodata, '
                 'get_picodata_from_pngdata; Spec.Formats written from the format description']


def _secs():
    from pico8.gfx.gfx import Gfx
    from pico8.gff.gff import Gff
    from pico8.map.map import Map
    from pico8.sfx.sfx import Sfx
    from pico8.music.music import Music
    return Gfx, Gff, Map, Sfx, Music


def impl_lines(cls, data):
    try:
        return 'ok ' + hx(b''.join(cls(data=data, version=8).to_lines()))
    except Exception as e:
        return 'err ' + U.exc_kind(e)


def impl_from(cls, text):
    lines = text.split(b'\n')
    lines = [l + b'\n' for l in lines[:-1]] + ([lines[-1]] if lines[-1] else [])
    try:
        return 'ok ' + hx(bytes(cls.from_lines(lines, version=8)._data))
    except Exception:
        return 'err'


def norm_err(s):
    return 'err' if s.startswith('err') else s


def run(ctx, res):
    rng = ctx.rng
    Gfx, Gff, Map, Sfx, Music = _secs()
    res.rule = ('region contents: all 256 byte values at every column of a gfx row (4 rows), all 65536 sfx note words, '
                'all 2^3 music flag x 2^4 channel-high-bit patterns x channel values, random whole regions, record-structured regions (each row/pattern untouched-default / zero / sparse / random), the empty cart\'s own regions; each rendered by the '
                'implementation, the Lean model and the Lean Spec, and read back; PICO-8-written fixtures; '
                'distinct non-trivial = distinct (section, region bytes) with a non-zero byte')
    jobs = []   # (kind, cls, data)
    # gfx: all 256 values at every column
    for rep in range(ctx.budget(2, 8)):
        g = bytearray(U.rand_bytes(rng, 0x2000, 'uniform'))
        for col in range(64):
            for k in range(4):
                g[(rep * 8 + k) * 64 + col] = (col * 4 + k + rep * 37) % 256
        jobs.append(('gfx', Gfx, bytes(g)))
    g = bytearray(0x2000)
    for v in range(256):
        g[v * 32 + (v % 64) // 2] = v
    jobs.append(('gfx', Gfx, bytes(g)))
    # rows made of one repeated byte (solid and two-colour striped rows), every byte value once over two regions
    for half in (0, 1):
        jobs.append(('gfx', Gfx, b''.join(bytes([half * 128 + r]) * 64 for r in range(128))))
    jobs.append(('map', Map, b''.join(bytes([rng.choice([32, 9, 10, 13, 11, 12, 0x20, 0x85, rng.randrange(256)])]) * 128 for r in range(32))))
    jobs.append(('gff', Gff, bytes([32] * 128 + [9, 10, 11, 12, 13, 32] * 21 + [0x20, 0x0a])))
    for _ in range(ctx.budget(3, 40)):
        jobs.append(('gfx', Gfx, U.rand_bytes(rng, 0x2000)))
        jobs.append(('gff', Gff, U.rand_bytes(rng, 0x100)))
        jobs.append(('map', Map, U.rand_bytes(rng, 0x1000)))
        jobs.append(('sfx', Sfx, U.rand_bytes(rng, 0x1100)))
        jobs.append(('music', Music, U.rand_bytes(rng, 0x100)))
    # low-entropy regions and regions whose records begin the way the previous one ended
    for _ in range(ctx.budget(6, 40)):
        for st in ('motif', 'echo'):
            jobs.append(('gfx', Gfx, U.rand_bytes(rng, 0x2000, st)))
            jobs.append(('map', Map, U.rand_bytes(rng, 0x1000, st)))
            jobs.append(('gff', Gff, U.rand_bytes(rng, 0x100, st)))
            jobs.append(('sfx', Sfx, U.rand_bytes(rng, 0x1100, st)))
            jobs.append(('music', Music, U.rand_bytes(rng, 0x100, st)))
    # record-structured regions: every row/pattern is independently untouched (PICO-8's default, picotool's own empty default,
    # all zero), sparse, or random — carts mostly consist of untouched records
    for _ in range(ctx.budget(6, 60)):
        sx = bytearray()
        for pid in range(64):
            notes = rng.choice([bytes(64), bytes(64), U.rand_bytes(rng, 64, 'uniform'),
                                bytes(64 - 2 * (k := rng.randrange(32)) - 2) + bytes([rng.randrange(256), rng.randrange(256)]) + bytes(2 * k)])
            head = rng.choice([bytes([0, 16, 0, 0]), bytes([0, 16, 0, 0]), bytes([0, 1, 0, 0]), bytes(4), bytes([1, 16, 0, 0]), bytes([0, 16, 1, 0]),
                               bytes([0, 16, 0, 1]), bytes([0, 17, 0, 0]), U.rand_bytes(rng, 4, 'uniform')])
            sx += notes + head
        jobs.append(('sfx', Sfx, bytes(sx)))
        mu = bytearray()
        for pid in range(64):
            mu += rng.choice([bytes([0x41, 0x42, 0x43, 0x44]), bytes([0x41, 0x42, 0x43, 0x44]), bytes(4), bytes([0x40] * 4), U.rand_bytes(rng, 4, 'uniform'),
                              bytes([0xc1, 0x42, 0x43, 0x44]), bytes([0x41, 0xc2, 0x43, 0x44]), bytes([0x41, 0x42, 0xc3, 0x44])])
        jobs.append(('music', Music, bytes(mu)))
        for kind, cls, size, row in (('gfx', Gfx, 0x2000, 64), ('map', Map, 0x1000, 128), ('gff', Gff, 0x100, 128)):
            d = bytearray()
            while len(d) < size:
                d += rng.choice([bytes(row), bytes(row), b'\xff' * row, U.rand_bytes(rng, row, 'uniform'),
                                 bytes(row - 1) + bytes([rng.randrange(1, 256)]), bytes([rng.randrange(1, 256)]) + bytes(row - 1)])
            jobs.append((kind, cls, bytes(d[:size])))
    # each untouched-record value at the first, second and last record position, the other records random
    for rec in (bytes(64) + bytes([0, 16, 0, 0]), bytes(64) + bytes([0, 1, 0, 0]), bytes(68), bytes(64) + bytes([0, 32, 0, 0])):
        for pos in (0, 1, 63):
            sx = bytearray(U.rand_bytes(rng, 0x1100, 'uniform'))
            sx[pos * 68:pos * 68 + 68] = rec
            jobs.append(('sfx', Sfx, bytes(sx)))
    for rec in (bytes([0x41, 0x42, 0x43, 0x44]), bytes(4), bytes([0x40] * 4)):
        for pos in (0, 1, 63):
            mu = bytearray(U.rand_bytes(rng, 0x100, 'uniform'))
            mu[pos * 4:pos * 4 + 4] = rec
            jobs.append(('music', Music, bytes(mu)))
    # patterns / rows whose only content is one byte, for every byte position of a pattern (two regions cover positions 0..67 twice)
    for base in (0, 4):
        sx = bytearray(0x1100)
        for pid in range(64):
            sx[pid * 68 + (pid + base) % 68] = rng.randrange(1, 256)
        jobs.append(('sfx', Sfx, bytes(sx)))
    sx = bytearray(0x1100)
    for pid in range(64):
        sx[pid * 68 + 63] = rng.choice([0x10, 0x70, 0x80, 0x0e, 1, 255])       # only note 31's high byte
    jobs.append(('sfx', Sfx, bytes(sx)))
    from pico8.game.game import Game
    eg = Game.make_empty_game()
    for kind, cls in (('gfx', Gfx), ('map', Map), ('gff', Gff), ('sfx', Sfx), ('music', Music)):
        jobs.append((kind, cls, bytes(getattr(eg, kind)._data)))
    # sfx: all 65536 note words: 64 patterns x 32 notes = 2048 notes per region -> 32 regions
    for base in range(0, 65536, 2048):
        s = bytearray(U.rand_bytes(rng, 0x1100, 'uniform'))
        for k in range(2048):
            w = base + k
            pid, note = divmod(k, 32)
            s[pid * 68 + note * 2] = w & 255
            s[pid * 68 + note * 2 + 1] = w >> 8
        jobs.append(('sfx', Sfx, bytes(s)))
    res.count('sfx_note_words', 65536)
    # music: all flag/high-bit patterns
    m = bytearray()
    for pat in range(64):
        hb = pat % 16
        m += bytes([(rng.randrange(128)) | (0x80 if hb & (1 << k) else 0) for k in range(4)])
    jobs.append(('music', Music, bytes(m)))
    m = bytes((0x80 if (i // 4) & (1 << (i % 4)) else 0) | ((i * 5) % 128) for i in range(256))
    jobs.append(('music', Music, m))

    lines = []
    impl = []
    for kind, cls, data in jobs:
        il = impl_lines(cls, data)
        impl.append(il)
        if kind == 'gfx':
            lines += ['gfx2l ' + hx(data), 'spec_gfx ' + hx(data)]
        elif kind in ('gff', 'map'):
            lines += ['hex2l 128 ' + hx(data), 'spec_hex 128 %d %s' % (len(data) // 128, hx(data))]
        elif kind == 'sfx':
            lines += ['sfx2l ' + hx(data), 'spec_sfx ' + hx(data)]
        else:
            lines += ['mus2l ' + hx(data), 'spec_mus ' + hx(data)]
        res.evaluations += 1
        if any(data):
            res.nontrivial.add((kind, data))
        res.count(kind)
    res.sample({'section': jobs[0][0], 'first_line': (b''.join(jobs[0][1](data=jobs[0][2], version=8).to_lines())[:40]).decode()})
    mo = ctx.model.run(lines) if ctx.model.available else None
    for i, (kind, cls, data) in enumerate(jobs):
        il = impl[i]
        if mo is not None:
            ml, sp = mo[2 * i], mo[2 * i + 1]
            if ml != il:
                res.diff({'op': kind + ' to_lines', 'data': hx(data)[:64] + '...'}, il[:100], ml[:100])
            # the Spec is the format: implementation text must equal it (direct property oracle)
            if il != sp:
                res.fail('C16:%s-text:%s' % (kind, hx(data)[:32]), '%s section text differs from the PICO-8 format (Spec.%s)' % (kind, kind),
                         {'section': kind, 'data': hx(data)}, observed=il[:200], expected=sp[:200])
        # read back what the format prescribes
        if il.startswith('ok '):
            text = unhx(il[3:])
            back = impl_from(cls, text)
            want = data
            if kind == 'music':
                want = bytes(b & 127 if i % 4 == 3 else b for i, b in enumerate(data))
            if back != 'ok ' + hx(want):
                res.fail('C16:%s-read:%s' % (kind, hx(data)[:32]), 'reading the %s text does not give the memory bytes back' % kind,
                         {'section': kind, 'data': hx(data)})
    # reading: model vs implementation on format text incl. malformed lines
    rlines, rimpl, rcase = [], [], []
    for kind, cls, data in jobs[:ctx.budget(12, 60)]:
        il = impl[jobs.index((kind, cls, data))]
        if not il.startswith('ok '):
            continue
        text = unhx(il[3:])
        variants = [text]
        tl = text.split(b'\n')
        if len(tl) > 2:
            bad = list(tl)
            k = rng.randrange(len(bad) - 1)
            mode = rng.choice(['short', 'nonhex', 'drop', 'upper'])
            if mode == 'short':
                bad[k] = bad[k][:-1]
            elif mode == 'nonhex' and bad[k]:
                j = rng.randrange(len(bad[k]))
                bad[k] = bad[k][:j] + b'g' + bad[k][j + 1:]
            elif mode == 'drop':
                del bad[k]
            else:
                bad[k] = bad[k].upper()
            variants.append(b'\n'.join(bad))
        op = {'gfx': 'l2gfx', 'gff': 'l2hex', 'map': 'l2hex', 'sfx': 'l2sfx', 'music': 'l2mus'}[kind]
        for v in variants:
            rlines.append(op + ' ' + hx(v))
            rimpl.append(norm_err(impl_from(cls, v)))
            rcase.append((kind, v))
            res.evaluations += 1
    if ctx.model.available:
        for (kind, v), a, b in zip(rcase, rimpl, ctx.model.run(rlines)):
            if a != norm_err(b):
                res.diff({'op': kind + ' from_lines', 'text': hx(v)[:80] + '...'}, a[:80], b[:80])
    # PNG channel split: all 256 byte values in every channel position
    from pico8.game.formatter import p8png
    attrs = {'planes': 4}
    for trial in range(ctx.budget(2, 10)):
        label = [bytearray(rng.getrandbits(8) for _ in range(16 * 4)) for _ in range(17)]
        pico = bytes(range(256)) + bytes(rng.randrange(256) for _ in range(10))
        rows = p8png.get_pngdata_from_picodata(pico, label, attrs)
        back = p8png.get_picodata_from_pngdata(16, 17, rows, attrs)
        res.evaluations += 1
        res.nontrivial.add(('png', bytes(pico)))
        ok = bytes(back[:len(pico)]) == pico and all(
            (a >> 2) == (b >> 2) for r1, r2 in zip(rows, label) for a, b in zip(r1, r2))
        spec_ok = all(back[i] == ((rows[i // 16][(i % 16) * 4 + 3] & 3) << 6 | (rows[i // 16][(i % 16) * 4] & 3) << 4 |
                                  (rows[i // 16][(i % 16) * 4 + 1] & 3) << 2 | (rows[i // 16][(i % 16) * 4 + 2] & 3))
                      for i in range(16 * 17))
        if not ok or not spec_ok:
            res.fail('C16:png-channels:%d' % trial, 'PNG 2-bit channel split is not A2R2G2B2 / does not keep the upper six bits',
                     {'pico': hx(pico), 'label': [hx(r) for r in label]})
        if ctx.model.available:
            flat = b''.join(bytes(r) for r in label)
            out = ctx.model.run(['encrows 16 %s %s' % (hx(flat), hx(pico)), 'decrows 16 ' + hx(b''.join(bytes(r) for r in rows))])
            if out[0] != 'ok ' + hx(b''.join(bytes(r) for r in rows)):
                res.diff({'op': 'encrows', 'pico': hx(pico)[:40]}, hx(b''.join(bytes(r) for r in rows))[:80], out[0][:80])
            if out[1] != 'ok ' + hx(bytes(back)):
                res.diff({'op': 'decrows'}, hx(bytes(back))[:80], out[1][:80])
    # the whole memory image incl. the version byte at 0x8000 (and what follows), in a full-size 160x205 picture
    for trial in range(ctx.budget(2, 8)):
        label = [bytearray(rng.getrandbits(8) for _ in range(160 * 4)) for _ in range(205)]
        pico = bytes(rng.getrandbits(8) for _ in range(0x8000)) + bytes([rng.choice([0, 1, 5, 8, 32, 34, 41, 255])]) + bytes(rng.getrandbits(8) for _ in range(rng.choice([0, 1, 31])))
        rows = p8png.get_pngdata_from_picodata(pico, label, {'planes': 4})
        back = p8png.get_picodata_from_pngdata(160, 205, rows, {'planes': 4})
        res.evaluations += 1
        res.count('png-full-image')
        res.nontrivial.add(('png-full', pico[0x8000], len(pico)))
        if bytes(back[:len(pico)]) != pico:
            first = next(i for i in range(len(pico)) if back[i] != pico[i])
            res.fail('C16:png-full:%d' % trial, 'the memory image hidden in a full-size picture does not come back: first difference at 0x%x (the version byte is at 0x8000)' % first,
                     {'version_byte': pico[0x8000], 'length': len(pico)})
    # the whole .p8.png writer: the memory hidden in the written file (read here with pypng and the 2-bit rule, not with picotool) is
    # gfx, map, gff, music, sfx, code area (unused bytes zero), version — whatever picture the destination or the label held before
    import io
    import png as pypng
    from pico8.game.formatter.p8png import P8PNGFormatter
    prev = None
    for trial in range(ctx.budget(4, 24)):
        code = rng.choice([b'', b'x=1\n', b'print("hi")\n' * rng.randrange(1, 40), b'--' + bytes(rng.choice(b'abc =()1') for _ in range(rng.randrange(1, 3000))) + b'\nx=1\n'])
        g = U.make_game(regions={nm: U.rand_bytes(rng, sz) for nm, sz in U.REGION_SIZES}, code=code, version=rng.choice([0, 5, 8, 8, 16]))
        how = trial % 3
        out = io.BytesIO()
        try:
            if how == 0 or prev is None:
                P8PNGFormatter.to_file(g, out)
            else:
                lbl = os.path.join(ctx.tmp, 'c16lbl%d.p8.png' % trial)
                open(lbl, 'wb').write(prev)
                P8PNGFormatter.to_file(g, out, label_fname=lbl)
        except Exception as e:
            res.fail('C16:png-writer:%d' % trial, 'writing a cart as .p8.png raised %s' % U.exc_kind(e), {'code': hx(code)[:200], 'label': how})
            continue
        w, h_, rows, meta = pypng.Reader(bytes=out.getvalue()).asRGBA8()
        mem = bytearray()
        for r in rows:
            for c in range(w):
                mem.append((r[c * 4 + 3] & 3) << 6 | (r[c * 4] & 3) << 4 | (r[c * 4 + 1] & 3) << 2 | (r[c * 4 + 2] & 3))
        reg = U.regions_of(g)
        stored = bytes(p8png.get_bytes_from_code(b''.join(g.lua.to_lines()), g.version))
        want = reg['gfx'] + reg['map'] + reg['gff'] + reg['music'] + reg['sfx'] + stored + bytes(0x3d00 - len(stored)) + bytes([g.version])
        res.evaluations += 1
        res.count('png-writer:' + ('default-label', 'label-from-earlier-cart', 'label-from-earlier-cart')[how if prev is not None else 0])
        res.nontrivial.add(('png-writer', trial, len(code)))
        if bytes(mem[:0x8001]) != want or len(want) != 0x8001:
            first = next((i for i in range(min(len(want), len(mem))) if mem[i] != want[i]), min(len(want), len(mem)))
            res.fail('C16:png-writer:%d' % trial, 'the memory hidden in the written .p8.png differs from gfx,map,gff,music,sfx,code area,version at 0x%x '
                     '(code area = stored code then zeros; the picture used as label held another cart)' % first,
                     {'code': hx(code)[:200], 'label': ['default', 'earlier cart', 'earlier cart'][how], 'version': g.version})
        prev = out.getvalue()
    # a section object rendered, edited through the library (its own setters, the map's shared rows, raw cart writes), rendered again:
    # the second text is the text of the bytes it holds NOW (= what a fresh object with the same bytes renders)
    from props import C17
    for h in range(ctx.budget(8, 80)):
        g = U.make_game(regions={nm: U.rand_bytes(rng, sz) for nm, sz in U.REGION_SIZES}, code=b'', version=8)
        secs = {'gfx': g.gfx, 'map': g.map, 'gff': g.gff, 'sfx': g.sfx, 'music': g.music}
        first = {k: b''.join(o.to_lines()) for k, o in secs.items()}
        done = []
        for _ in range(rng.randrange(1, 6)):
            if rng.random() < 0.3:
                a = rng.randrange(0x4300 - 70)
                g.write_cart_data(bytes(rng.randrange(256) for _ in range(rng.choice([1, 3, 64, 70]))), a)
                done.append('write_cart_data@0x%x' % a)
                continue
            op = C17.gen_op(rng)
            try:
                C17.apply_impl(g, op)
                done.append(op[0])
            except Exception:
                pass
        res.evaluations += 1
        res.count('render-edit-render')
        res.nontrivial.add(('rer', h, tuple(done)))
        for k, o in secs.items():
            again = b''.join(o.to_lines())
            fresh = b''.join(type(o)(data=bytes(o._data), version=8).to_lines())
            if again != fresh:
                res.fail('C16:render-edit-render:%s:%d' % (k, h), 'after %s the %s text rendered by the same section object is not the text of its '
                         'current bytes (stale text from the first rendering?)' % (done, k), {'section': k, 'ops': done})
                break
    # fixtures written by PICO-8: same cart as .p8 and .p8.png loads to identical contents
    from pico8.game import file as gfile
    td = os.path.join(REPO, 'tests', 'testdata')
    for stem in ('test_cart', 'test_gol', 'test_cart_memdump'):
        a, b = os.path.join(td, stem + '.p8'), os.path.join(td, stem + '.p8.png')
        if not (os.path.exists(a) and os.path.exists(b)):
            continue
        ga, gb = gfile.from_file(a), gfile.from_file(b)
        res.evaluations += 1
        res.count('fixtures')
        ra, rb = U.regions_of(ga), U.regions_of(gb)
        ra['music'] = bytes(x & 127 if i % 4 == 3 else x for i, x in enumerate(ra['music']))
        rb['music'] = bytes(x & 127 if i % 4 == 3 else x for i, x in enumerate(rb['music']))
        if ra != rb:
            bad = [n for n in ra if ra[n] != rb[n]]
            res.fail('C16:fixture:' + stem, 'PICO-8-written %s.p8 and .p8.png load to different %s' % (stem, bad), {'fixture': stem})
        if ctx.model.available:
            # the fixture's section text must be what the Spec prescribes for its bytes
            txt = open(a, 'rb').read()
            for kind, op in (('gfx', 'spec_gfx'), ('sfx', 'spec_sfx')):
                sec = txt.split(b'__' + kind.encode() + b'__\n', 1)[1].split(b'__', 1)[0]
                want = ctx.model.run(['%s %s' % (op, hx(ra[kind]))])[0]
                got = b'\n'.join(l for l in sec.split(b'\n') if l) + b'\n'
                if want != 'ok ' + hx(got):
                    res.fail('C16:fixture-text:%s:%s' % (stem, kind), 'Spec rendering of %s differs from the PICO-8-written %s.p8' % (kind, stem),
                             {'fixture': stem, 'section': kind})


def replay(ctx, rep, res):
    run(ctx, res)
    return not res.failures and not res.diffs
