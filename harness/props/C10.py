"""C10 — luafmt output is canonical: indentation follows nesting, layout-independent, idempotent."""
import re
from common import hx
import lexutil as L
import fmtutil as F
import gen_lua
import implutil as U

ASSUMPTIONS = ['programs are laid out one statement per line (the property\'s quantifier); depth = blocks and brackets open at the token, a closing '
               'token counting as closed, computed by the harness from the generator\'s structure independently of picotool',
               're-indentation variants never touch the inside of multi-line strings or block comments']
TRUSTED_EXTRA = ['modelled by hand: LuaFormatterWriter._get_code_for_spaces regex pipeline as Model/AstWriters.normRun; indent assignment walkInd']
PARTIAL = 'C10: the per-run theorems (normRun) are proved; their composition to whole programs (layout independence / idempotence of luafmt) is correspondence-tested'


def relayout(rng, src):
    """Change only leading/trailing whitespace of lines (and blank-line runs), outside multi-line tokens."""
    toks = L.impl_lex([src])[1]
    # lines that start inside a multi-line token must be left alone
    protected = set()
    for t in toks:
        n = t.code.count(b'\n')
        if type(t).__name__ != 'TokNewline' and n:
            for k in range(1, n + 1):
                protected.add(t._lineno + k)
    lines = src.split(b'\n')
    out = []
    for i, ln in enumerate(lines):
        if i in protected:
            out.append(ln)
            continue
        cr = b''
        if ln.endswith(b'\r'):
            ln, cr = ln[:-1], b'\r'
        body = ln.strip(b' \t')
        lead = rng.choice([b'', b'  ', b'\t', b'    ', b' \t ', b'      '])
        trail = rng.choice([b'', b'', b' ', b'  ', b'\t'])
        if i + 1 in protected:
            trail = ln[len(ln.rstrip(b' \t')):]      # text continues into a multi-line token: keep its tail
        out.append(((lead + body + trail) if body else rng.choice([b'', b'  ', b'\t'])) + cr)
    return b'\n'.join(out)


def shape_problems(out, items, width, depths):
    """Line-shape clauses on the formatted text."""
    probs = []
    lines = out.split(b'\n')
    if out.endswith(b'\n'):
        lines = lines[:-1]
    blank = 0
    toks = L.impl_lex([out])[1]
    multi = set()
    for t in toks:
        n = t.code.count(b'\n')
        if type(t).__name__ != 'TokNewline' and n:
            for k in range(0, n + 1):
                multi.add(t._lineno + k)
    for i, ln in enumerate(lines):
        if i in multi:
            blank = 0
            continue
        if ln != ln.rstrip(b' \t'):
            probs.append('line %d ends in whitespace' % (i + 1))
        if not ln.strip():
            blank += 1
            if blank > 1:
                probs.append('more than one blank line in a row at line %d' % (i + 1))
        else:
            blank = 0
    if lines and not lines[-1].strip() and len(lines) > 1:
        probs.append('blank line at the end')
    # indentation of lines that begin with a code token
    sig = [t for t in toks if type(t).__name__ not in ('TokSpace', 'TokNewline', 'TokComment')]
    if len(sig) == len(items):
        k = 0
        at_start, indent = True, 0
        for t in toks:
            n = type(t).__name__
            if n == 'TokNewline':
                at_start, indent = True, 0
                continue
            if n == 'TokSpace':
                if at_start:
                    indent = len(t._data)
                continue
            if n == 'TokComment':
                at_start = False
                continue
            if at_start and indent != width * depths[k]:
                probs.append('token %r starts a line with indent %d, nesting depth %d x width %d expected' % (t._data[:12], indent, depths[k], width))
                break
            at_start = False
            k += 1
    return probs


def run(ctx, res):
    rng = ctx.rng
    res.rule = ('dialect programs laid out one statement per line with arbitrary leading/trailing whitespace, tabs, blank-line runs and comment '
                'lines x indent widths 0-8; each is formatted, re-laid-out (indentation/trailing space changes only) and formatted again, and '
                'the output formatted once more; line-shape clauses checked with an independent nesting-depth computation; '
                'distinct non-trivial = distinct (max depth, width) with at least one indented line')
    lines, expect, cases = [], [], []
    for i in range(ctx.budget(250, 6000)):
        g = gen_lua.LuaGen(rng)
        items = g.program()
        src = gen_lua.layout(rng, items, rng.choice(['lines', 'elements']), final_newline=rng.random() < 0.8)
        # (this stream re-lays lines out around LF and CRLF; classic-Mac line ends — a lone CR, LF CR — are C09's cases)
        src = re.sub(rb'\n\r(?!\n)|\r(?!\n)', b'\n', src)
        w = rng.randrange(0, 9)
        res.evaluations += 1
        inp = {'source': hx(src), 'indentwidth': w}
        key = 'C10:%d:%s' % (w, hx(src)[:60])
        try:
            out = F.luafmt(src, w)
        except Exception as e:
            res.fail(key, 'luafmt raised %r' % (e,), inp)
            continue
        F.mark_short_if_ends(items)
        depths = F.expected_depths(items)
        res.nontrivial.add((max(depths) if depths else 0, w))
        probs = shape_problems(out, items, w, depths)
        if probs:
            res.fail(key, 'formatted code is not canonical: ' + '; '.join(probs[:3]), inp, observed=hx(out)[:400])
            continue
        try:
            again = F.luafmt(out, w)
        except Exception as e:
            res.fail(key, 'formatting already formatted code raised %r' % (e,), inp)
            continue
        if again != out:
            res.fail(key, 'formatting already formatted code changes it', inp, observed=hx(again)[:300], expected=hx(out)[:300])
            continue
        var = relayout(rng, src)
        try:
            out2 = F.luafmt(var, w)
        except Exception as e:
            res.fail(key, 'luafmt raised %r on the re-indented variant' % (e,), {'source': hx(var), 'indentwidth': w})
            continue
        if out2 != out:
            res.fail(key, 're-indenting / adding trailing spaces to input lines changes the output', {'source': hx(src), 'variant': hx(var), 'indentwidth': w})
            continue
        lines.append('luafmt %d %s' % (w, L.chunks_arg([src])))
        expect.append('ok ' + hx(out))
        cases.append({'op': 'luafmt', 'width': w, 'source': hx(src)})
        if i == 1:
            res.sample({'source': repr(src[:160]), 'formatted': repr(out[:160]), 'width': w})
    # the indent width option: the same options dict used for several runs, the cart writer (which runs the writer twice), and the CLI
    import contextlib
    import io
    import os
    from pico8 import tool
    from pico8.game import file as gfile
    from pico8.lua import lua as lua_mod
    # long runs of own-line comments (9, 12, 40 in a row — more than any small count), every one indented differently in the input: each is
    # re-indented to its block's depth, and the result does not depend on the input indentation
    for n_ in (9, 12, 40):
        for mark in (b'--', b'//'):
            for w in (0, 2, 3):
                body = b''.join(b'%s%s c%d\n' % (b' ' * ((k * 3) % 7), mark, k) for k in range(n_))
                src = b'do\n' + body + b'x=1\nend\n'
                res.evaluations += 1
                res.count('comment-run')
                key = 'C10:comment-run:%d:%s:%d' % (n_, mark.decode(), w)
                try:
                    out = F.luafmt(src, w)
                    out2 = F.luafmt(b'do\n' + b''.join(b'%s%s c%d\n' % (b' ' * ((k * 5 + 1) % 4), mark, k) for k in range(n_)) + b'x=1\nend\n', w)
                except Exception as e:
                    res.fail(key, 'luafmt raised %r on a run of %d own-line comments' % (e, n_), {'source': hx(src), 'indentwidth': w})
                    continue
                want = b'do\n' + b''.join(b'%s%s c%d\n' % (b' ' * w, mark, k) for k in range(n_)) + b' ' * w + b'x=1\nend\n'
                if out != want or out2 != want:
                    res.fail(key, 'a run of %d own-line %s comments inside a block is not re-indented to the block\'s depth line by line '
                                  '(or the result depends on the input indentation)' % (n_, mark.decode()), {'source': hx(src), 'indentwidth': w},
                             observed=hx(out)[:300], expected=hx(want)[:300])
    for i in range(ctx.budget(7, 63)):
        src = gen_lua.layout(rng, gen_lua.LuaGen(rng).program(), 'lines', final_newline=True) + b'do\nwhile x do\ny=1\nend\nend\n'
        w = [0, 1, 3, 4, 5, 8, 2][i % 7]      # every width in turn — 0 (no indentation at all) is a width like any other
        try:
            want = F.luafmt(src, w)
            g = U.make_game(code=src, version=8)
        except Exception:
            continue
        res.evaluations += 1
        res.count('width-option')
        key = 'C10:width-option:%d:%s' % (w, hx(src)[:40])
        inp = {'source': hx(src), 'indentwidth': w}
        opts = {'indentwidth': w}
        outs = [b''.join(g.lua.to_lines(writer_cls=lua_mod.LuaFormatterWriter, writer_args=opts)) for _ in range(3)]
        if any(o != want for o in outs):
            res.fail(key, 'formatting with the same options dict a second time gives a different result (width %d lost?)' % w, inp)
            continue
        p1 = os.path.join(ctx.tmp, 'w%d.p8' % i)
        gfile.to_file(g, p1, lua_writer_cls=lua_mod.LuaFormatterWriter, lua_writer_args={'indentwidth': w})
        got = b''.join(gfile.from_file(p1).lua.to_lines())
        if got.rstrip(b'\n') != want.rstrip(b'\n'):
            res.fail(key, 'a cart written with the formatter (indentwidth %d) does not contain the formatter\'s output for that width' % w, inp)
            continue
        p2 = os.path.join(ctx.tmp, 'wc%d.p8' % i)
        gfile.to_file(g, p2)
        with U.quiet(), contextlib.redirect_stdout(io.StringIO()), contextlib.redirect_stderr(io.StringIO()):
            try:
                tool.main(['-q', 'luafmt'] + (['--indentwidth', str(w)] if (w != 2 or i % 2) else []) + [p2])      # (2 is also the default)
            except Exception as e:
                res.fail(key, 'p8tool luafmt --indentwidth %d raised %r' % (w, e), inp)
                continue
        p2o = p2[:-3] + '_fmt.p8'
        got = b''.join(gfile.from_file(p2o).lua.to_lines()) if os.path.exists(p2o) else None
        want2 = F.luafmt(b''.join(gfile.from_file(p2).lua.to_lines()), w)
        if got is None or got.rstrip(b'\n') != want2.rstrip(b'\n'):
            res.fail(key, 'p8tool luafmt --indentwidth %d did not write the output of the formatter at that width' % w, inp)
    # the regex pipeline itself: model normRun vs the real _get_code_for_spaces on synthetic runs
    from pico8.lua import lua, lexer
    alpha = [b' ', b' ', b'\t', b'\n', b'\n', b'\r', b'--c', b'-- x ', b'//d', b'--[[b\n  c]]']
    for _ in range(ctx.budget(600, 20000)):
        run_txt = b''.join(rng.choice(alpha) for _ in range(rng.randrange(0, 7)))
        for at_start, at_end in ((False, False), (True, False), (False, True)):
            src = (b'' if at_start else b'a') + run_txt + (b'' if at_end else b'b')
            try:
                toks = lexer.Lexer(version=8)
                toks.process_lines([src])
                toks = toks.tokens
            except Exception:
                continue
            trivia = [t for t in toks if isinstance(t, (lexer.TokSpace, lexer.TokNewline, lexer.TokComment))]
            if b''.join(t.code for t in trivia) != run_txt or (not at_start and not isinstance(toks[0], lexer.TokName)):
                continue
            w, d = rng.randrange(0, 5), rng.randrange(0, 4)
            wr = lua.LuaFormatterWriter(tokens=toks, root=None, args={'indentwidth': w})
            wr._pos = 0 if at_start else 1
            wr._indent = d
            got = wr._get_code_for_spaces(None)
            lines.append('normrun %d %d %d %d %s' % (w, d, 1 if at_start else 0, 1 if at_end else 0, hx(run_txt)))
            expect.append('ok ' + hx(got))
            cases.append({'op': 'normrun', 'run': hx(run_txt), 'w': w, 'd': d, 'at_start': at_start, 'at_end': at_end})
            res.evaluations += 1
    res.count('normrun-cases', len([c for c in cases if c['op'] == 'normrun']))
    if ctx.model.available:
        for c, e, g in zip(cases, expect, ctx.model.run(lines)):
            if e != g:
                res.diff(c, e[:160], g[:160])


def replay(ctx, rep, res):
    run(ctx, res)
    return not res.failures and not res.diffs
