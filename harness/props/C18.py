"""C18 — raw cart-memory writes: correspondence (model vs Game.write_cart_data) + flat-memory oracle."""
from common import hx
import implutil as U

ASSUMPTIONS = ['addresses are non-negative ints; data is bytes/bytearray (the documented contract)']
TRUSTED_EXTRA = ['modelled by hand: Game.write_cart_data (game.py:86-109) incl. bytearray slice-assignment semantics; '
                 'Gen.memmap/Gen.cartEnd regenerated from the source by ast']
BOUNDS = (0x0, 0x2000, 0x3000, 0x3100, 0x3200, 0x4300)
ORDER = ('gfx', 'map', 'gff', 'music', 'sfx')


def flat(regs):
    return b''.join(regs[n] for n in ORDER)


def region_class(a):
    for i, b in enumerate(BOUNDS):
        if abs(a - b) <= 2:
            return 'b%d%+d' % (i, a - b)
    for i in range(len(BOUNDS) - 1):
        if BOUNDS[i] < a < BOUNDS[i + 1]:
            return 'in%d' % i
    return 'beyond'


def gen_cases(ctx):
    rng = ctx.rng
    pts = sorted({b + d for b in BOUNDS for d in (-2, -1, 0, 1, 2) if b + d >= 0})
    cases = []
    for s in pts:
        for e in pts:
            if s <= e:
                cases.append((s, e - s))
    for _ in range(ctx.budget(150, 3000)):
        s = rng.choice([rng.randrange(0x4400), rng.choice(pts)])
        ln = rng.choice([0, 1, 2, 3, 17, 255, 256, 257, 0x1000, rng.randrange(0x4400)])
        cases.append((s, ln))
    return cases


def run_impl(regs, data, addr):
    g = U.make_game(regions=regs)
    try:
        g.write_cart_data(data, addr)
        return 'ok', U.regions_of(g)
    except Exception as e:
        return 'err ' + U.exc_kind(e), U.regions_of(g)


def oracle(res, regs, data, addr, status, after, tag):
    f = flat(regs)
    key = 'C18:%s:addr=0x%x,len=%d' % (tag, addr, len(data))
    inp = {'addr': addr, 'data': hx(data), 'regions_before': {k: hx(v) for k, v in regs.items()}}
    if addr + len(data) > 0x4300:
        if status == 'ok' or after != regs:
            res.fail(key, 'write passing 0x4300 (addr=0x%x len=%d) not rejected cleanly: %s' % (addr, len(data), status), inp)
        return
    exp = f[:addr] + data + f[addr + len(data):]
    sizes_ok = all(len(after[n]) == len(regs[n]) for n in ORDER)
    if status != 'ok' or not sizes_ok or flat(after) != exp:
        first = next((i for i, (x, y) in enumerate(zip(flat(after), exp)) if x != y), None)
        res.fail(key, 'write of %d bytes at 0x%x: status=%s sizes_ok=%s first differing address=%s' % (
            len(data), addr, status, sizes_ok, hex(first) if first is not None else None), inp,
            observed={'sizes': {n: len(after[n]) for n in ORDER}}, expected='flat[:a]+data+flat[a+len:]')


def run(ctx, res):
    rng = ctx.rng
    res.rule = ('all (start,end) with both ends within +-2 of the six region boundaries, plus seeded random (addr,len), '
                'random data and prior contents, plus write sequences interleaved with section-object replacements; distinct non-trivial = distinct '
                '(start class, end class) pairs with len>0, class = boundary index and offset or region interior')
    cases = gen_cases(ctx)
    lines = []
    impl = []
    base = {n: U.rand_bytes(rng, sz, 'uniform') for n, sz in U.REGION_SIZES}
    for i, (addr, ln) in enumerate(cases):
        regs = base if i % 4 else {n: U.rand_bytes(rng, sz) for n, sz in U.REGION_SIZES}
        if i % 7 == 3:
            # regions of equal size with equal contents (flags and music both cleared, both filled alike): still two regions
            twin = rng.choice([bytes(0x100), b'\xff' * 0x100, U.rand_bytes(rng, 0x100)])
            regs = dict(regs, gff=twin, music=twin)
        if i % 7 == 5:
            regs = dict(regs, gfx=regs['map'] * 2, sfx=(regs['gff'] * 17))       # larger regions built from the contents of smaller ones
        data = bytes(rng.randrange(1, 256) for _ in range(ln))
        if i % 3 == 0 and ln > 1 and addr + ln <= 0x4300:
            # data that repeats what memory already holds, except for its tail / its head / one byte (re-applying an edited dump)
            cur = flat(regs)[addr:addr + ln]
            mode = rng.choice(['tail', 'head', 'one'])
            k = rng.randrange(1, ln) if mode != 'one' else rng.randrange(ln)
            data = {'tail': cur[:k] + data[k:], 'head': data[:k] + cur[k:], 'one': cur[:k] + bytes([cur[k] ^ 0x55]) + cur[k + 1:]}[mode]
        status, after = run_impl(regs, data, addr)
        oracle(res, regs, data, addr, status, after, 'write')
        res.evaluations += 1
        if ln:
            res.nontrivial.add((region_class(addr), region_class(addr + ln)))
        res.count('rejected' if addr + ln > 0x4300 else 'accepted')
        lines.append('c18 %s %s %s %s %s %s %d' % (hx(regs['gfx']), hx(regs['map']), hx(regs['gff']), hx(regs['music']),
                                                 hx(regs['sfx']), hx(data), addr))
        impl.append(status if status != 'ok' else 'ok ' + ' '.join(hx(after[n]) for n in ORDER))
        if i in (7, 300):
            res.sample({'addr': hex(addr), 'len': ln, 'status': status})
    # sequences of writes (history): implementation vs flat spec
    for s in range(ctx.budget(20, 300)):
        regs = {n: U.rand_bytes(rng, sz) for n, sz in U.REGION_SIZES}
        if s % 3 == 1:
            twin = rng.choice([bytes(0x100), U.rand_bytes(rng, 0x100)])
            regs = dict(regs, gff=twin, music=twin)
        g = U.make_game(regions=regs)
        f = bytearray(flat(regs))
        hist = []
        for _ in range(rng.randrange(2, 9)):
            if rng.random() < 0.3:
                # between two writes a region is given a new section object, the way `p8tool build` installs a section
                # taken from another cart (setattr(result, section, getattr(source, section))): later writes go to it
                nm = rng.choice(ORDER)
                newdata = U.rand_bytes(rng, dict(U.REGION_SIZES)[nm])
                other = U.make_game(regions={nm: newdata})
                setattr(g, nm, getattr(other, nm))
                off = BOUNDS[ORDER.index(nm)]
                f[off:off + len(newdata)] = newdata
                hist.append({'replace_section': nm, 'data': hx(newdata)})
                res.count('sequence-section-replacements')
                continue
            addr = rng.choice([rng.randrange(0x4300), rng.choice(BOUNDS[:-1]) + rng.randrange(-2, 3)])
            addr = max(addr, 0)
            ln = min(rng.choice([1, 2, 5, 300, 0x1001]), 0x4300 - addr)
            if rng.random() < 0.25:
                # exactly one whole region (or two): the data may not become the region's own storage
                k = rng.randrange(5)
                addr, ln = BOUNDS[k], BOUNDS[min(k + rng.choice([1, 1, 2]), 5)] - BOUNDS[k]
            data = bytes(rng.randrange(256) for _ in range(ln))
            hist.append({'addr': addr, 'data': hx(data)})
            try:
                if rng.random() < 0.5:
                    # the caller's own (mutable) buffer, reused and scribbled over right after the call
                    buf = bytearray(data)
                    g.write_cart_data(buf, addr)
                    for j in range(len(buf)):
                        buf[j] ^= 0xff
                    hist[-1]['buffer'] = 'bytearray, overwritten by the caller after the call'
                    continue_ok = True
                else:
                    g.write_cart_data(data, addr)
            except Exception as e:
                res.fail('C18:seq:%d' % s, 'in-range write raised %r in a sequence' % e, {'history': hist})
                break
            f[addr:addr + ln] = data
        after = U.regions_of(g)
        res.evaluations += 1
        res.count('sequences')
        if flat(after) != bytes(f) or any(len(after[n]) != len(regs[n]) for n in ORDER):
            res.fail('C18:seq:%d' % s, 'memory after a sequence of writes differs from the flat specification',
                     {'history': hist, 'regions_before': {k: hx(v) for k, v in regs.items()}})
    if ctx.model.available:
        mo = ctx.model.run(lines)
        for (addr, ln), a, b in zip(cases, impl, mo):
            if a != b:
                res.diff({'op': 'c18', 'addr': addr, 'len': ln}, a[:80], b[:80])


def replay(ctx, rep, res):
    inp = rep.get('input') or {}
    if 'addr' in inp:
        regs = {k: bytes.fromhex(v) for k, v in inp['regions_before'].items()}
        data = bytes.fromhex(inp['data']) if inp['data'] != '-' else b''
        status, after = run_impl(regs, data, inp['addr'])
        oracle(res, regs, data, inp['addr'], status, after, 'write')
        return not res.failures
    run(ctx, res)
    return not res.failures and not res.diffs
