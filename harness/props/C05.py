"""C05 — code compression: correspondence (model vs compress.py) + lossless / well-formedness oracle."""
import itertools

from common import hx, unhx
import implutil as U
from ref import stream as refstream

ASSUMPTIONS = ['texts are byte strings shorter than 65536 bytes (16-bit length header)',
               'a text that itself ends with one of PICO-8\'s compatibility suffixes is indistinguishable from a text PICO-8 '
               'appended the suffix to (format-inherent; recorded as a known finding)']
TRUSTED_EXTRA = ['modelled by hand: _find_repeatable_block, compress_code, decompress_code (compress.py); '
                 'Spec.refDecode written from the :c: format description; harness/ref/stream.py is a second independent decoder']


def _c():
    from pico8.game import compress
    return compress


def area(t, comp, pad=b''):
    return b':c:\x00' + bytes([len(t) >> 8, len(t) & 255]) + b'\x00\x00' + bytes(comp) + pad


def with_suffix(c, t):
    if b'_update60' in t and len(t) < 0x10001 - (len(c.PICO8_FUTURE_CODE2) + 1):
        if t[-1:] not in (b' ', b'\n'):
            t = t + b'\n'
        t = t + c.PICO8_FUTURE_CODE2
    return t


def check_text(ctx, res, t, tag, batch):
    c = _c()
    inp = {'text': hx(t)}
    res.evaluations += 1
    if t:
        res.nontrivial.add(t)
    try:
        comp = bytes(c.compress_code(t))
    except Exception as e:
        res.fail('C05:compress-raises:' + hx(t)[:60], 'compress_code raised %r' % (e,), inp)
        return
    ends_fc = t.endswith(c.PICO8_FUTURE_CODE1) or t.endswith(c.PICO8_FUTURE_CODE2)
    # (1) well formed + independent decoder recovers the text (with PICO-8's suffix)
    dec = refstream.ref_decode(comp)
    if dec is None:
        res.fail('C05:malformed-stream:' + hx(t)[:60], 'compressed stream is not well formed by the :c: format', inp, observed=hx(comp))
    elif dec != with_suffix(c, t):
        res.fail('C05:ref-mismatch:' + hx(t)[:60], 'independent decoder does not recover the text from the compressed stream', inp,
                 observed=hx(dec)[:200])
    # (2) picotool's own decoder returns exactly the text from the code area (header + stream + zero padding)
    pad = b'\x00' * (3 if len(t) % 2 else 0)
    try:
        n, back, sz = c.decompress_code(area(t, comp, pad))
        status = 'ok'
    except Exception as e:
        n, back, sz, status = None, None, None, 'err ' + U.exc_kind(e)
    if status != 'ok' or back != t:
        key = 'C05:text-ends-with-compat-suffix' if (ends_fc and status == 'ok') else 'C05:roundtrip:' + hx(t)[:60]
        res.fail(key, 'decompress_code(header+compress_code(t)) != t (%s, got %s)' % (status, hx(back or b'')[-40:]), inp)
    # (3) the code area as the PNG writer lays it out for this text: when it stores the text compressed, the area is — by the format —
    # the magic, the length of the TEXT (big endian), two zero bytes, the stream, zero padding; whatever the text says or ends with
    if len(t) <= 4096 and not t.startswith(b':c:'):
        from pico8.game.formatter import p8png
        try:
            ab = bytes(p8png.get_bytes_from_code(t))
        except Exception as e:
            ab = None
            res.fail('C05:writer-area-raises:' + hx(t)[:60], 'get_bytes_from_code raised %r on a short text' % (e,), inp)
        if ab is not None and ab[:4] == b':c:\x00':
            if (ab[4] << 8 | ab[5]) != len(t) or ab[6:8] != b'\x00\x00' or ab[8:8 + len(comp)] != comp or any(ab[8 + len(comp):]):
                res.fail('C05:writer-area:' + hx(t)[:60], 'the code area the PNG writer lays out for a compressed text is not magic + text length (%d) + 00 00 + '
                         'the stream + zero padding (length field says %d)' % (len(t), ab[4] << 8 | ab[5]), inp, observed=hx(ab[:16]))
            res.count('writer-area-compressed')
    batch.append(('comp ' + hx(t), 'ok ' + hx(comp), {'op': 'compress', 'text': hx(t)[:80]}))
    batch.append(('decomp ' + hx(area(t, comp, pad)), ('ok %d %s %d' % (n, hx(back), sz)) if status == 'ok' else status,
                  {'op': 'decompress', 'text': hx(t)[:80]}))
    res.count(tag)


def gen_wf_stream(rng, c, maxops=40):
    """A well-formed stream (incl. overlapping references no producer emits) and its expected output."""
    out = bytearray()
    s = bytearray()
    for _ in range(rng.randrange(1, maxops)):
        k = rng.random()
        if k < 0.35 or len(out) == 0:
            i = rng.randrange(1, 60)
            s.append(i)
            out.append(refstream.TABLE[i])
        elif k < 0.5:
            b = rng.randrange(256)
            s += bytes([0, b])
            out.append(b)
        else:
            ln = rng.choice([3, 3, 4, 5, 16, 17, rng.randrange(3, 18)])
            off = rng.choice([1, 1, 2, ln - 1, ln, len(out), rng.randrange(1, len(out) + 1)])
            off = max(1, min(off, len(out), 3120 + 15))
            s += bytes([off // 16 + 60, off % 16 + (ln - 2) * 16])
            for _ in range(ln):
                out.append(out[-off])
    return bytes(s), bytes(out)


def lua_like(rng, n):
    words = [b'function', b'local', b'end', b'if', b'then', b'x', b'y', b'player', b'_update60', b'_draw', b'print', b'(',
             b')', b'=', b'+', b'1', b'0.5', b'"hi"', b'\n', b' ', b'\n  ', b'for i=1,10 do', b'-- c', b'A', b'\x8e', b'\t']
    out = bytearray()
    while len(out) < n:
        out += rng.choice(words)
        if rng.random() < 0.5:
            out += b' '
    return bytes(out[:n])


def run(ctx, res):
    rng = ctx.rng
    c = _c()
    res.rule = ('all strings up to length %d over {a, b, LF, A(non-table)} (exhaustive), Lua-like text, repeats at distances '
                '3116..3124 with block lengths 14..20, texts with _update60 ending at every position relative to a block, '
                'NUL-bearing texts, texts containing the compatibility suffix (or parts of it) away from the end; generated well-formed streams incl. overlapping references for the decoder; '
                'distinct non-trivial = distinct non-empty texts/streams' % ctx.budget(6, 8))
    batch = []
    maxlen = ctx.budget(6, 8)
    for ln in range(maxlen + 1):
        for tup in itertools.product(b'ab\nA', repeat=ln):
            check_text(ctx, res, bytes(tup), 'exhaustive', batch)
    res.extra['exhaustive_upto_len'] = maxlen
    for _ in range(ctx.budget(60, 1500)):
        check_text(ctx, res, lua_like(rng, rng.choice([1, 5, 30, 200, 900])), 'lua-like', batch)
    # window edge: block of length L repeated at distance D
    for d in ([3118, 3120, 3121] if not ctx.thorough() else range(3116, 3125)):
        for bl in ([15, 17, 18] if not ctx.thorough() else range(14, 21)):
            blk = bytes(rng.choice(b'qrstuvwxyz') for _ in range(bl))
            fill = bytes(rng.choice(b'0123456789abcdef\n ') for _ in range(d - bl))
            check_text(ctx, res, blk + fill + blk + b'!', 'window-edge', batch)
    # _update60 texts ending at every position relative to a trailing block
    base = b'function _update60()end\nfunction _draw()end\n'
    tail = b'if(_update60)_update=nil\nx=1\n'
    for cut in range(len(tail) + 1):
        check_text(ctx, res, base + tail[:cut], 'update60', batch)
    for t in (b'\x00abc\x00', b'\x00', b'ab\x00\x00', b'_update60', b'x_update60 ', b'a' * 40, b'ab' * 30, bytes(range(256))):
        check_text(ctx, res, t, 'special', batch)
    # the compatibility suffix (whole, or a proper prefix/suffix of it) anywhere but at the very end: an ordinary text, must round-trip
    for fc in (c.PICO8_FUTURE_CODE1, c.PICO8_FUTURE_CODE2):
        for t in (fc + b'\nx=1\n', b'x=1\n' + fc + b'\ny=2', fc + b' ', fc + fc[:-1], b'-- shim\n' + fc + b'\nfunction _draw() end\n',
                  fc[1:], fc[:-1], b'a\n' + fc[:-1], fc[:len(fc) // 2] + b'\n' + fc[len(fc) // 2:], fc + b'\n',
                  b'x=1 y=2 x=1 y=2 x=1 y=2\n' + fc + b'\n', b'function _update60() x=1 end\n' + fc + b' \n', fc + b'\n\n', fc + b'\t', fc + b'\r\n'):
            check_text(ctx, res, t, 'suffix-inside', batch)
    # a repeated stretch at every distance around the edge of the window a block reference can reach back (offsets are 1..3135 in the
    # format: (255-60)*16+15): just inside it may be referenced, just outside it must be spelled out again — either way the text comes back
    uniq = bytes((i * 7 + j) % 26 + 65 for i, j in zip(range(4000), [0, 3, 1, 4, 1, 5, 9, 2, 6] * 500))
    for d in ([3119, 3120, 3121, 3134, 3135, 3136, 3137, 3150] if not ctx.thorough() else list(range(3100, 3160))) + [rng.randrange(20, 3200) for _ in range(ctx.budget(3, 20))]:
        blk = rng.choice([b'function draw_player()', b'abcdefghijklmnopqrstuvwx', b'x=x+1 y=y+1 z=z+1 w=w+1 '])
        filler = uniq[:max(0, d - len(blk))]
        check_text(ctx, res, b'--' + blk + filler + blk + b'\n', 'repeat-at-distance', batch)

    check_text(ctx, res, b'x=1\n' + c.PICO8_FUTURE_CODE2, 'ends-with-suffix', batch)
    check_text(ctx, res, c.PICO8_FUTURE_CODE1, 'ends-with-suffix', batch)
    res.sample({'text': repr(base + tail), 'compressed_len': len(c.compress_code(base + tail))})
    # the code area as the PNG writer lays it out (":c:\\0" + two length bytes + two zero bytes + stream, 0x3d00 bytes in all): a stream
    # that fills the area to the last byte must come back whole; one byte more must be refused, never cut off
    from props import C04
    from pico8.game.formatter import p8png
    for target in ([C04.AREA - 8, C04.AREA - 7] if not ctx.thorough() else [C04.AREA - 10, C04.AREA - 9, C04.AREA - 8, C04.AREA - 7, C04.AREA - 4, C04.AREA]):
        code = C04.tune_compressed(ctx, rng, target)
        if code is None:
            continue
        res.evaluations += 1
        res.count('code-area-limit')
        res.nontrivial.add(('area-limit', target))
        key = 'C05:area-limit:%d' % target
        inp = {'code': hx(code), 'compressed_stream_bytes': target}
        # (the target length steers the generator — it comes from the Lean compressor; what must fit is the stream the implementation
        # itself produces for this text, whatever its length)
        own = len(bytes(c.compress_code(code)))
        inp['implementation_stream_bytes'] = own
        try:
            ab = bytes(p8png.get_bytes_from_code(code))
        except Exception as e:
            if own <= C04.AREA - 8:
                res.fail(key, 'a stream of %d bytes fits the code area with its 8-byte header but was refused (%r)' % (own, e), inp)
            continue
        if own > C04.AREA - 8:
            res.fail(key, 'a stream of %d bytes does not fit the code area with its 8-byte header but was written (%d bytes)' % (own, len(ab)), inp)
            continue
        target = own
        # by the format: header, the text length (big endian), two zero bytes, then the whole stream — which must decode to the text
        # (the area is 0x3d00 bytes: after the stream come zero bytes up to its end)
        stream, padding = ab[8:8 + own], ab[8 + own:]
        if ab[:4] != b':c:\x00' or (ab[4] << 8 | ab[5]) != len(code) or len(stream) != target or any(padding) or len(ab) != C04.AREA \
                or refstream.ref_decode(stream) != with_suffix(c, code):
            res.fail(key, 'the code area written for a compressed stream of %d bytes is not header + length + the complete stream '
                          '(stream bytes present: %d; decodes to the text: %s)' % (target, len(stream), refstream.ref_decode(stream) == with_suffix(c, code)), inp)
    # histories: compress_code is a function of the text's current bytes — the same text twice with the first result scribbled over in
    # between, a mutable text edited in place between two calls, different texts alternating
    for h in range(ctx.budget(40, 400)):
        t1 = lua_like(rng, rng.choice([5, 30, 120]))
        t2 = lua_like(rng, rng.choice([5, 30, 120]))
        res.evaluations += 1
        res.count('compress-histories')
        res.nontrivial.add(('hist', t1[:20], t2[:20]))
        key = 'C05:history:%d' % h
        try:
            r1 = c.compress_code(t1)
            want1 = bytes(r1)
            if isinstance(r1, bytearray):
                for j in range(len(r1)):
                    r1[j] ^= 0x5a                        # the caller owns what it was handed
            again = bytes(c.compress_code(t1))
            buf = bytearray(t1)
            first = bytes(c.compress_code(buf))
            buf[:] = t2                                   # edited in place (same object)
            second = bytes(c.compress_code(buf))
            want2 = bytes(c.compress_code(bytes(t2)))
            third = bytes(c.compress_code(t1))
        except Exception as e:
            res.fail(key, 'compress_code raised %r in a sequence of calls' % (e,), {'t1': hx(t1), 't2': hx(t2)})
            continue
        if again != want1 or first != want1 or third != want1:
            res.fail(key, 'compressing the same text again gives a different stream (state kept between calls)', {'t1': hx(t1), 't2': hx(t2)})
        elif second != want2 or refstream.ref_decode(second) != with_suffix(c, t2):
            res.fail(key, 'a text buffer edited in place between two calls is compressed as its OLD content', {'t1': hx(t1), 't2': hx(t2)})
    # decoder vs reference decoder on generated well-formed streams
    for i in range(ctx.budget(400, 8000)):
        s, out = gen_wf_stream(rng, c)
        res.evaluations += 1
        res.nontrivial.add(('s', s))
        res.count('wf-stream')
        ref = refstream.ref_decode(s)
        assert ref == out      # generator and reference decoder are both written from the format description
        n = rng.choice([len(out), len(out), max(0, len(out) - rng.randrange(0, 4))])
        hdr = b':c:\x00' + bytes([n >> 8, n & 255]) + b'\x00\x00'
        try:
            _, back, _ = c.decompress_code(hdr + s)
        except Exception as e:
            back = repr(e).encode()
        want = out[:n]
        fc = want.endswith(c.PICO8_FUTURE_CODE1) or want.endswith(c.PICO8_FUTURE_CODE2)
        if back != want and not fc:
            res.fail('C05:decoder-disagrees:' + hx(s)[:60], 'decompress_code disagrees with the reference decoder on a well-formed stream',
                     {'stream': hx(s), 'code_length': n}, observed=hx(back)[:120], expected=hx(want)[:120])
        batch.append(('refdec ' + hx(s), 'ok ' + hx(out), {'op': 'refdec', 'stream': hx(s)[:80]}))
        if i < ctx.budget(100, 2000):
            try:
                nn, bb, sz = c.decompress_code(hdr + s)
                exp = 'ok %d %s %d' % (nn, hx(bb), sz)
            except Exception as e:
                exp = 'err ' + U.exc_kind(e)
            batch.append(('decomp ' + hx(hdr + s), exp, {'op': 'decompress-stream', 'stream': hx(s)[:80]}))
    if i:
        res.sample({'stream': hx(s), 'decodes_to': repr(out[:40])})
    # malformed streams: model error kinds vs implementation (coarse)
    for _ in range(ctx.budget(100, 2000)):
        s = bytes(rng.randrange(256) for _ in range(rng.randrange(0, 12)))
        n = rng.randrange(0, 30)
        hdr = rng.choice([b':c:\x00' + bytes([0, n]) + b'\x00\x00', b':c:\x00' + bytes([0, n]) + b'\x00\x01', b':c:\x00\x00'])
        try:
            nn, bb, sz = c.decompress_code(hdr + s)
            exp = 'ok %d %s %d' % (nn, hx(bb), sz)
        except Exception as e:
            exp = 'err ' + U.exc_kind(e)
        batch.append(('decomp ' + hx(hdr + s), exp, {'op': 'decompress-malformed', 'data': hx(hdr + s)}))
        res.evaluations += 1
        res.count('malformed-stream')
    if ctx.model.available:
        mo = ctx.model.run([b[0] for b in batch])
        for (line, exp, case), got in zip(batch, mo):
            if exp != got:
                res.diff(case, exp[:120], got[:120])


def replay(ctx, rep, res):
    inp = rep.get('input') or {}
    if 'text' in inp:
        check_text(ctx, res, unhx(inp['text']), 'replay', [])
        return not res.failures
    run(ctx, res)
    return not res.failures and not res.diffs
