"""C06 — default writer echoes the source losslessly: correspondence (model echo vs LuaEchoWriter) + oracle via Spec lexer."""
import io
import itertools

from common import hx
import implutil as U
import lexutil as L
import minutil as M
import gen_lua

ASSUMPTIONS = ['string literals are judged under the reference string grammar of Spec/LuaLex.lean (escape set of DESIGN 4.1); '
               'sources it rejects (unknown escapes, decimal escapes > 255) are outside the dialect and only cross-checked with the model']
TRUSTED_EXTRA = ['modelled by hand: in-string branch of Lexer._process_token, TokString.code, LuaEchoWriter (lexer.py, lua.py:561-581)']


def echo_impl(chunks):
    from pico8.lua import lua
    l = lua.Lua(version=8)
    l._lexer.process_lines(list(chunks))
    w = lua.LuaEchoWriter(tokens=l._lexer.tokens, root=None)
    return list(w.to_lines())


def run(ctx, res):
    rng = ctx.rng
    res.rule = ('dialect programs in random layouts (LF and CRLF, with/without final newline); string literals over all 256 byte values with every '
                'escape form (\\n, \\ddd with 1-3 digits followed by digits, \\xhh, line continuation, P8SCII escapes, both quotes, long brackets '
                'level 0-3); exhaustive string bodies up to length %d over {\\\\,0,1,4,x,a,",\',LF,NUL,0x0e,0x80}; '
                'distinct non-trivial = distinct sources containing a string literal or more than one line' % ctx.budget(3, 4))
    srcs = []
    for _ in range(ctx.budget(400, 8000)):
        srcs.append(gen_lua.gen_program(rng)[0])
    srcs += [sp[0] for sp in gen_lua.word_programs(rng)]
    srcs += gen_lua.lookalike_programs()
    # tokens that span lines with MIXED line ends (CR LF and bare LF, LF CR, lone CR) inside: every byte is the token's own
    srcs += [b'x=[[a\r\nb\nc]]\n', b'--[[a\r\nb\nc]]\nx=1\n', b'--[==[\n\r\n]==]\ny=2\r\n', b'y=[[\r\n\n]]', b'z=[=[\n\r\n\r]=] --[[\r\n\n\r\n]]\n',
             b'w="a\\\r\nb\\\nc"\n', b'--[[\n\n\r\n\r\n\n]]', b'v=[[l1\nl2\r\nl3\n\rl4\rl5]]\r\n']
    alpha = [b'\\', b'0', b'1', b'4', b'x', b'a', b'"', b"'", b'\n', b'\x00', b'\x0e', b'\x80']
    for ln in range(ctx.budget(3, 4) + 1):
        for tup in itertools.product(alpha, repeat=ln):
            body = b''.join(tup)
            srcs.append(b'x="' + body + b'"\n')
    for q in (b'"', b"'"):
        for v in range(256):
            if bytes([v]) in (q, b'\\', b'\n'):
                continue
            srcs.append(b's=' + q + bytes([v]) + q + b' t=' + q + b'\\%d' % v + q + b' u=' + q + b'\\%03d7' % v + q + b' w=' + q + b'\\x%02x' % v + q)
    srcs += [b'x="a\\\nb"\n', b'x=[[\nabc]]', b'x=[==[a]]b]=]c]==]', b'a=1\r\nb=2\r\n', b'a=1', b'', b'\n', b'-- only a comment', b'x="\\0001" y="\\0141"',
             b'x="\\x41" y="\\z"', b'--[[ a\nb ]] x = 1 // c\n']
    # every two- and three-byte glyph sequence an editor might treat specially, as an identifier prefix, alone and inside strings/comments
    # (UTF-8 BOM EF BB BF, UTF-16 BOMs, NBSP, zero-width joiners as raw P8SCII glyph bytes)
    for seq in (b'\xef\xbb\xbf', b'\xff\xfe', b'\xfe\xff', b'\xc2\xa0', b'\xe2\x80\x8b', b'\xe2\x80\xa8', b'\x80\x81'):
        srcs += [seq + b'x=1\n', seq + b'=2\n', b'y=' + seq + b'\n', b'a=1\n' + seq + b'b=2\n', b's="' + seq + b'" --' + seq + b'\n',
                 b'z=' + seq + seq + b'+1\n', b'[[' + seq + b']]', seq]
    # the same string value written with either delimiter, in one program and in consecutive programs (both orders): how a value is
    # re-spelled depends on its own delimiter, never on a literal seen before
    for v in (b'"x"', b"'y'", b'a"b\'c', b'"', b"'", b'""', b"it's", b'say "hi"'):
        dq = b'"' + v.replace(b'\\', b'\\\\').replace(b'"', b'\\"') + b'"'
        sq = b"'" + v.replace(b'\\', b'\\\\').replace(b"'", b"\\'") + b"'"
        lb = b'[[' + v + b']]'
        srcs += [b'a=' + sq + b' b=' + dq + b'\n', b'a=' + dq + b' b=' + sq + b'\n', b'a=' + sq + b'\n', b'a=' + dq + b'\n', b'a=' + sq + b'\n',
                 b'a=' + lb + b' b=' + dq + b' c=' + sq + b'\n']
    # escapes whose *value* is itself a character that matters to the string reader (backslash, quotes, line ends, NUL, 'x', a digit), in
    # every spelling, followed by every character that could be read as the continuation of an escape
    followers = [b'n', b't', b'a', b'\\\\', b'\\"', b"'", b'x41', b'0', b'65', b'*', b'-', b'^', b'z', b'\\n', b'\\92', b'\\x5c', b'']
    for q in (b'"', b"'"):
        for v in (92, 34, 39, 10, 13, 0, 120, 48, 110):
            for sp in (b'\\%d' % v, b'\\%03d' % v, b'\\x%02x' % v, b'\\x%02X' % v):
                for f in followers:
                    if q == b"'" and f == b"'":
                        f = b'"'
                    srcs.append(b's=' + q + sp + f + q + b' t=' + q + b'k' + sp + sp + f + q + b'\n')
    srcs += gen_lua.string_escape_cases(rng, ctx.budget(600, 12000))
    spec_lines, model_lines, impl = [], [], []
    for s in srcs:
        try:
            lines = echo_impl([s])
            impl.append(lines)
        except Exception as e:
            impl.append('err ' + U.exc_kind(e))
        model_lines.append('echo ' + L.chunks_arg([s]))
        e = b''.join(impl[-1]) if isinstance(impl[-1], list) else b''
        spec_lines += ['speclex ' + hx(s), 'specraw ' + hx(s), 'speclex ' + hx(e), 'specraw ' + hx(e)]
        res.evaluations += 1
        if b'"' in s or b"'" in s or b'[[' in s or s.count(b'\n') > 1:
            res.nontrivial.add(s)
    res.sample({'source': repr(srcs[5][:100]), 'echo': repr(b''.join(impl[5])[:100]) if isinstance(impl[5], list) else impl[5]})
    if not ctx.model.available:
        return
    mo = ctx.model.run(model_lines + spec_lines)
    n = len(srcs)
    for i, s in enumerate(srcs):
        m = mo[i]
        got = impl[i]
        exp = ('ok ' + (':'.join(hx(x) for x in got) if got else '.')) if isinstance(got, list) else got
        if exp != m:
            res.diff({'op': 'echo', 'source': hx(s)}, exp[:160], m[:160])
        if not isinstance(got, list):
            continue
        ss, sr, es, er = mo[n + 4 * i: n + 4 * i + 4]
        if ss == 'none':
            res.count('outside-dialect')
            continue
        e = b''.join(got)
        inp = {'source': hx(s)}
        key = 'C06:echo:' + hx(s)[:60]
        if es == 'none':
            res.fail(key, 'echoed source no longer lexes under the lexical grammar', inp, observed=hx(e)[:200])
            continue
        a, b = M.parse_toks(ss), M.parse_toks(es)
        ra = [int(x) for x in sr.split()[1:] if x != '-']
        rb = [int(x) for x in er.split()[1:] if x != '-']
        if sum(ra) != len(s):
            res.fail(key, 'token extents do not cover the source', inp)
            continue
        if len(a) != len(b):
            res.fail(key, 'echo changes the number of tokens (%d -> %d)' % (len(a), len(b)), inp, observed=hx(e)[:200])
            continue
        pa = pb = 0
        for (ta, la, tb, lb) in zip(a, ra, b, rb):
            xa, xb = s[pa:pa + la], e[pb:pb + lb]
            pa += la
            pb += lb
            quoted = ta[0] == 'string' and not ta[4].startswith('m')
            if quoted:
                if ta[1] != tb[1] or tb[0] != 'string':
                    res.fail(key, 'echoed string literal %r denotes %r, source literal %r denotes %r' % (xb, tb[1], xa, ta[1]), inp)
                    break
            elif xa != xb:
                res.fail(key, 'echo is not byte-identical outside string literals: %r -> %r' % (xa, xb), inp)
                break
    # cart-level path: writep8 of a cart reproduces the code
    from pico8.game.formatter.p8 import P8Formatter
    from pico8.lua import lua as lua_mod
    for s in srcs[:ctx.budget(30, 300)]:
        try:
            g = U.make_game(code=s, version=8)
        except Exception:
            continue
        out = io.BytesIO()
        P8Formatter.to_file(g, out)
        body = out.getvalue().split(b'__lua__\n', 1)[1].split(b'__gfx__\n', 1)[0]
        want = lua_mod.p8scii_to_unicode(b''.join(echo_impl([s]))).encode('utf-8')
        res.evaluations += 1
        if body != (want if want.endswith(b'\n') else want + b'\n'):
            res.fail('C06:writep8:' + hx(s)[:60], '__lua__ section of the written cart is not the echoed code', {'source': hx(s)})


def replay(ctx, rep, res):
    run(ctx, res)
    return not res.failures and not res.diffs
