"""C14 — build embeds each require()d package once and leaves all code intact: package graphs on disk, real builds,
token-level oracle, packaging model correspondence."""
import contextlib
import io
import os

from common import hx, unhx
import implutil as U
import incutil as I
import lexutil as L
import gen_lua

ASSUMPTIONS = ['package bodies come from the dialect generator; require() calls are statements of the form `local m = require("name")`, '
               '`require("name")` or nested in a call, at the top level of a file (the walker\'s discovery is tested on nested forms separately)',
               'tokens are compared with the real lexer (C07 ties it to the grammar)']
TRUSTED_EXTRA = ['modelled by hand: _evaluate_require (registration before recursion, discovery order), _prepend_package_lua (block layout) '
                 'as Model/Require.lean; RequireWalker/BaseASTWalker, game-loop stripping, file lookup and the composition with lexer and parser '
                 'as Model/ReqWalk.lean (buildLua); the cart writer after the build is C03\'s model']
PARTIAL = ('C14: the whole code transformation of `build --lua` is modelled (ReqWalk.buildLua) and compared byte for byte; the theorems characterise its '
           'parts (discovery, argument validation, stripping decision and ranges, registration, lookup, assembly); "the built code parses" and the '
           'token-for-token containment are decided by the oracle on generated graphs, not proved for all inputs')
LOOPS = [b'_init', b'_update', b'_update60', b'_draw']
NEAR = [b'function _update_hud()', b'function _draw2(a)', b'function _initialize()', b'function _update6()', b'function _update600()',
        b'function _init_()', b'function __init()', b'function init()', b'function _INIT()', b'function _updat()', b'function _dra()',
        b'function m._init()', b'function m:_draw()', b'function m._update60.x()', b'local function _init()', b'local function _draw()',
        b'_update = function()', b'_update60=function()', b'local _init = function()', b'function _draw_()', b'function update60()',
        b'function _update61()', b'function _init1()']


def sig_tokens(code):
    out, toks = L.impl_lex([code])
    if toks is None:
        return None
    return [(type(t).__name__, t._data) for t in toks if type(t).__name__ not in ('TokSpace', 'TokNewline', 'TokComment')]


class Graph:
    """A package graph: files[i] = dict(name relpath, reqs=[(name string, target index, use_game_loop)], body parts)."""

    def __init__(self, ctx, rng, n):
        self.rng = rng
        self.dir = os.path.join(ctx.tmp, 'g%d' % n)
        nfiles = rng.randrange(1, 7)
        self.files = []
        for i in range(nfiles):
            sub = rng.choice(['', '', 'lib/', 'a/b/'])
            self.files.append({'rel': '%sp%d.lua' % (sub, i) if i else 'main.lua', 'reqs': [], 'stmts': []})
        # edges: mostly forward (DAG) with occasional back edges (cycles) and shared targets
        for i, f in enumerate(self.files):
            for _ in range(rng.choice([0, 1, 1, 2, 3])):
                j = rng.randrange(1, nfiles) if nfiles > 1 else None
                if j is None:
                    continue
                f['reqs'].append((j, rng.random() < 0.2))
        # load-path configuration: default, a relative template list, an absolute root first, and the same through the environment
        self.lp_mode = rng.choice(['default', 'default', 'rel', 'abs', 'env-abs', 'env-rel'])
        self.lua_path = {'default': None, 'rel': 'lib/?.lua;?.lua;?', 'env-rel': '?.lua;lib/?.lua',
                         'abs': self.dir + '/?.lua;?.lua', 'env-abs': '?.lua;' + self.dir + '/?.lua'}[self.lp_mode]
        for i, f in enumerate(self.files):
            self.make_body(i, f)

    def eff_path(self):
        return self.lua_path or '?;?.lua'

    def resolve(self, frm, name):
        """index of the file the load path selects for `name` required from file `frm` (reference lookup: first existing candidate)"""
        base = os.path.dirname(os.path.join(self.dir, self.files[frm]['rel']))
        where = {os.path.normpath(os.path.join(self.dir, f['rel'])): k for k, f in enumerate(self.files)}
        for tpl in self.eff_path().split(';'):
            c = tpl.replace('?', name)
            if not c.startswith('/'):
                c = os.path.join(base, c)
            if os.path.normpath(c) in where:
                return where[os.path.normpath(c)]
        return None

    def req_name(self, frm, to):
        """a string to pass to require() that the load path resolves to file `to` (relative to the requiring file's
        directory, relative to a `lib/` template, or relative to the absolute root), or None"""
        a = os.path.dirname(self.files[frm]['rel'])
        b = self.files[to]['rel'][:-4]
        cands = [os.path.relpath(os.path.join('/r', b), os.path.join('/r', a)), b]
        if b.startswith('lib/'):
            cands.append(b[4:])
        cands = [c for c in cands if '..' not in c.split('/') and self.resolve(frm, c) == to]
        return self.rng.choice(cands) if cands else None

    def make_body(self, i, f):
        rng = self.rng
        parts = []      # (kind, text) kinds: 'code', 'loop' (game-loop function), 'req'
        reqs = list(f['reqs'])
        nstat = rng.randrange(0, 4)
        slots = ['code'] * nstat + ['req'] * len(reqs) + (['loop'] * rng.choice([0, 0, 1, 2]) if i else []) + ['near'] * rng.choice([0, 0, 1, 2])
        rng.shuffle(slots)
        ri = 0
        for k in slots:
            if k == 'code':
                g = gen_lua.LuaGen(rng, max_depth=2, stmt_budget=2, glyph_names=False)
                items = g.program(nstats=1)
                if any(it.text in (b'return', b'break') for it in items[:1]):
                    continue
                while items and items[-1].text == b';':
                    items.pop()          # keep statement boundaries = part boundaries
                if not items:
                    continue
                # a generated statement can itself be a top-level game-loop function (`function _init() ... end`): the build strips those
                is_loop = (len(items) > 2 and items[0].text == b'function' and items[1].text in LOOPS and items[2].text == b'(')
                parts.append(('loop' if is_loop else 'code', gen_lua.layout(rng, items, rng.choice(['compact', 'spaced', 'lines']), final_newline=False)))
            elif k == 'near':
                # definitions that resemble a game-loop function but are not one: they must stay (kind 'code')
                parts.append(('code', rng.choice(NEAR) + b'\n  ' + rng.choice([b'cls()', b'y-=1', b'']) + b'\nend'))
            elif k == 'loop':
                nm = rng.choice(LOOPS)
                parts.append(('loop', b'function ' + nm + b'()\n  ' + rng.choice([b'cls()', b'x+=1', b'local m=1', b'']) + b'\nend'))
            else:
                to, ugl = reqs[ri]
                ri += 1
                name = self.req_name(i, to)
                if name is None:
                    continue        # not reachable through the load path without `..` (rejected by the path filter: C12's subject)
                opt = b', {use_game_loop=true}' if ugl else b''
                form = rng.choice([0, 0, 1, 2, 3, 4, 5, 6, 7])
                call = b'require("' + name.encode() + b'"' + opt + b')'
                text = [b'local m%d = ' % ri + call, call, b'print(' + call + b')',
                        b'if x%d then\n  local q = ' % ri + call + b'\nelse\n  y=1\nend',
                        b'function f%d()\n  return ' % ri + call + b'\nend',
                        b't%d = {' % ri + call + b', k=1}',
                        b'while false do ' + call + b' end',
                        b'if (x%d) ' % ri + call,
                        b'a%d = a%d or ' % (ri, ri) + call + b'.field'][form]
                parts.append(('req', text, name, to, ugl))
        f['multi_line_tail'] = rng.random() < 0.15
        if i and rng.random() < 0.5 and not f['multi_line_tail']:
            parts.append(('code', b'return {n=%d}' % i))
        if f['multi_line_tail']:
            # a last statement that spans lines (long string / block comment inside it) with more tokens after the inner line break
            parts.append(('code', rng.choice([b'local s%d=[[a\nb]] t%d=1', b'u%d="v" --[[ c\nd ]] w%d=2', b'print([[x%d\ny]], %d)']) % (i, i)))
        f['parts'] = parts
        # (always a line break between parts: a part may end in a line-scoped short-if or `?` statement)
        sep = [rng.choice([b'\n', b'\n\n', b' \n', b'\n-- c\n']) for _ in parts]
        f['final_nl'] = rng.random() < 0.6 and not f['multi_line_tail']
        text = b''
        for p, s in zip(parts, sep):
            text += p[1] + s
        # how a file ends: a final line feed, or none — then possibly blanks, a tab or a comment (with trailing blanks) last
        text = text.rstrip(b'\n ') + (b'\n' if f['final_nl'] else b'' if f['multi_line_tail'] else rng.choice([b'', b'', b' ', b'\t', b' -- tail', b' -- tail  ', b'\n// t\t', b'\n-- c ', b'  ']))
        f['text'] = text

    def write(self):
        for f in self.files:
            I.write(os.path.join(self.dir, f['rel']), f['text'])

    def expected(self):
        """Discovery order of package names and, per name, (file index, keep loop) — DFS in call order, registration before recursion."""
        order, seen = [], {}

        def visit(i, keep):
            for p in self.files[i]['parts']:
                if p[0] == 'req':
                    # a require inside a stripped game-loop function does not exist; ours are never inside one
                    name, to, ugl = p[2], p[3], p[4]
                    if name not in seen:
                        seen[name] = (to, ugl)
                        order.append(name)
                        visit(to, ugl)
        visit(0, True)
        return order, seen

    def body_tokens(self, i, keep):
        toks = []
        for p in self.files[i]['parts']:
            if p[0] == 'loop' and not keep:
                continue
            t = sig_tokens(p[1])
            if t is None:
                return None
            toks += t
        return toks


def run_build(main, out, lua_path=None, env_path=None):
    from pico8 import tool
    argv = ['-q', 'build', '--lua', main]
    if lua_path:
        argv += ['--lua-path', lua_path]
    argv.append(out)
    if env_path:
        os.environ['PICO8_LUA_PATH'] = env_path
    try:
        with U.quiet(), contextlib.redirect_stdout(io.StringIO()), contextlib.redirect_stderr(io.StringIO()):
            try:
                return tool.main(argv)
            except BaseException as e:
                return e
    finally:
        os.environ.pop('PICO8_LUA_PATH', None)


def build_graph(g, main, out):
    if g.lp_mode.startswith('env'):
        return run_build(main, out, env_path=g.lua_path)
    return run_build(main, out, lua_path=g.lua_path)


def run(ctx, res):
    rng = ctx.rng
    from pico8.game import file as gfile
    from pico8.build import build
    from pico8.lua import lua as lua_mod
    res.rule = ('random package graphs (1-6 files, shared packages, cycles, nested directories) with bodies from the dialect generator, '
                'game-loop functions at start/middle/end, with/without final newline, use_game_loop choices, require() as local assignment / '
                'statement / nested in a call; real `p8tool build`; built code re-lexed and compared token for token with '
                'preamble + packages in discovery order (minus stripped functions) + loader + main; error cases; '
                'distinct non-trivial = distinct (number of packages, has cycle/shared, has stripped loop function, final newline)')
    lines, expect, cases = [], [], []
    pre_pkg = sig_tokens(b''.join(build.REQUIRE_LUA_PREAMBLE_PACKAGE))
    pre_req = sig_tokens(b''.join(build.REQUIRE_LUA_PREAMBLE_REQUIRE))
    for n in range(ctx.budget(60, 1500)):
        g = Graph(ctx, rng, n)
        g.write()
        main = os.path.join(g.dir, 'main.lua')
        out = os.path.join(g.dir, 'out.p8')
        rc = build_graph(g, main, out)
        res.evaluations += 1
        order, seen = g.expected()
        key = 'C14:graph:%d:%s' % (n, hx(g.files[0]['text'])[:40])
        inp = {'files': {f['rel']: hx(f['text']) for f in g.files}}
        if rc != 0 or not os.path.exists(out):
            res.fail(key, 'build of a valid package graph failed: %r' % (rc,), inp)
            continue
        code = b''.join(gfile.from_file(out).lua.to_lines())
        # whole-build model (lexer, parser, walker, lookup, stripping, assembly, re-lex): byte-for-byte
        words = ['buildlua', '0', I.hp(g.eff_path())]
        for f in g.files:
            words += [I.hp(os.path.normpath(os.path.join(g.dir, f['rel']))), hx(f['text']) if f['text'] else '.']
        lines.append(' '.join(words))
        expect.append(('code', code))
        cases.append({'op': 'buildlua', 'graph': n, 'lua_path': g.eff_path(), 'files': {f['rel']: hx(f['text']) for f in g.files}})
        res.count('load-path:' + g.lp_mode)
        got = sig_tokens(code)
        want = []
        ok = True
        if order:
            want += pre_pkg
            for name in order:
                to, ugl = seen[name]
                want += sig_tokens(b'package._c["' + name.encode() + b'"]=function()\n')
                bt = g.body_tokens(to, ugl)
                ok = ok and bt is not None
                want += bt or []
                want += [('TokKeyword', b'end')]
            want += pre_req
        mt = g.body_tokens(0, True)
        want += mt or []
        if not ok or mt is None:
            continue
        shared = len(order) < sum(len([p for p in f['parts'] if p[0] == 'req']) for f in g.files)
        stripped = any(p[0] == 'loop' for nm in order for p in g.files[seen[nm][0]]['parts'] if not seen[nm][1])
        res.nontrivial.add((len(order), shared, stripped, g.files[0]['final_nl']))
        res.count('packages:%d' % min(len(order), 4))
        if got != want:
            i = next((k for k, (a, b) in enumerate(zip(got or [], want)) if a != b), min(len(got or []), len(want)))
            res.fail(key, 'built code differs from preamble + packages (once each, in discovery order, minus game-loop functions) + loader + main '
                          'at token %d: got %r, expected %r' % (i, (got or [])[i:i + 3], want[i:i + 3]), inp, observed=hx(code)[:600])
            continue
        # count definitions
        for name in order:
            if code.count(b'package._c["' + name.encode() + b'"]=function()') != 1:
                res.fail(key, 'package %s is not defined exactly once' % name, inp)
        # packaging model correspondence: discovery order
        idx = {f['rel']: i for i, f in enumerate(g.files)}
        words = ['evalreq', '0', str(len(g.files))]
        locs = []
        for i, f in enumerate(g.files):
            for keep in (True, False):
                calls = [p for p in f['parts'] if p[0] == 'req']
                words.append(str(len(calls)))
                for p in calls:
                    words += [hx(p[2].encode()), '1' if p[4] else '0']
            for p in f['parts']:
                if p[0] == 'req':
                    locs.append((hx(p[2].encode()), i, p[3]))
        words.append(str(len(locs)))
        for l in locs:
            words += [l[0], str(l[1]), str(l[2])]
        lines.append(' '.join(words))
        expect.append('ok ' + (' '.join('%s:%d:%d' % (hx(nm.encode()), seen[nm][0], 1 if seen[nm][1] else 0) for nm in order) or '-'))
        cases.append({'op': 'evalreq', 'graph': n})
        # assembly correspondence
        bodies = []
        for nm in order:
            to, ugl = seen[nm]
            with open(os.path.join(g.dir, g.files[to]['rel']), 'rb') as fh:
                l = lua_mod.Lua.from_lines(fh, version=33)
            bodies.append(None)
        if n == 0:
            res.sample({'files': {f['rel']: repr(f['text'][:120]) for f in g.files}, 'packages_in_order': order})
    # error cases
    errs = [('missing file', b'local m = require("nothere")\n'), ('two strings', b'require("a","b")\n'), ('no args', b'require()\n'),
            ('non-literal', b'require(x)\n'), ('bad option', b'require("p1", {other=true})\n'), ('three args', b'require("p1", {}, 1)\n'),
            ('option not bool', b'require("p1", {use_game_loop=1})\n'), ('option name is a part of the valid one', b'require("p1", {game_loop=true})\n'),
            ('option name is a part of the valid one (2)', b'require("p1", {use_game=false})\n'), ('option name extends the valid one', b'require("p1", {use_game_loops=true})\n')]
    d = os.path.join(ctx.tmp, 'errs')
    I.write(os.path.join(d, 'p1.lua'), b'return 1\n')
    for name, src in errs:
        I.write(os.path.join(d, 'main.lua'), src)
        out = os.path.join(d, 'out.p8')
        if os.path.exists(out):
            os.remove(out)
        rc = run_build(os.path.join(d, 'main.lua'), out)
        res.evaluations += 1
        res.count('error-cases')
        if rc == 0 or os.path.exists(out):
            res.fail('C14:error:' + name, 'require() with %s did not fail the build (rc=%r, output written=%s)' % (name, rc, os.path.exists(out)), {'main': hx(src)})
    # the decision which statements are stripped (model `stripsStat` vs one real build per candidate definition)
    d = os.path.join(ctx.tmp, 'strip')
    I.write(os.path.join(d, 'main.lua'), b'require("p")\nx=1\n')
    heads = []
    for nm in LOOPS:
        heads += [([nm], None), ([b'm', nm], None), ([nm], b'go'), ([nm, b'x'], None), ([nm + b'_hud'], None), ([nm + b'2'], None),
                  ([nm[:-1]], None), ([b'_' + nm], None), ([nm[1:]], None), ([nm.upper()], None)]
    alpha = [b'_', b'init', b'update', b'draw', b'60', b'6', b'0', b'x', b'_init', b'_update', b'_draw', b'_update60']
    for _ in range(ctx.budget(40, 400)):
        np_ = [b''.join(rng.choice(alpha) for _ in range(rng.randrange(1, 4))) for _ in range(rng.choice([1, 1, 1, 2]))]
        np_ = [(b'a' + w if w[:1].isdigit() else w) for w in np_]
        heads.append((np_, rng.choice([None, None, None, b'mm'])))
    for np_, meth in heads:
        src = b'function ' + b'.'.join(np_) + ((b':' + meth) if meth else b'') + b'()\n y=1\nend\nz=2\n'
        I.write(os.path.join(d, 'p.lua'), src)
        out = os.path.join(d, 'out.p8')
        if os.path.exists(out):
            os.remove(out)
        rc = run_build(os.path.join(d, 'main.lua'), out)
        res.evaluations += 1
        if rc != 0 or not os.path.exists(out):
            res.fail('C14:strip:' + src.decode('latin-1')[:30], 'build failed for a package defining %r' % src[:40], {'package': hx(src)})
            continue
        code = b''.join(gfile.from_file(out).lua.to_lines())
        body_t = sig_tokens(src)
        got = sig_tokens(code)
        has_def = any(got[k:k + len(body_t)] == body_t for k in range(len(got) - len(body_t) + 1))
        has_rest = any(got[k:k + 3] == body_t[-3:] for k in range(len(got) - 2))
        is_loop = (len(np_) == 1 and meth is None and np_[0] in LOOPS)
        key = 'C14:strip:' + src.split(b'(')[0].decode('latin-1')
        if not has_rest or (has_def == is_loop):
            res.fail(key, 'package definition `%s` was %s by the build; only plain _init/_update/_update60/_draw definitions may be removed'
                     % (src.split(b'\n')[0].decode('latin-1'), 'kept' if has_def else 'removed'), {'package': hx(src), 'main': hx(b'require("p")\nx=1\n')})
        lines.append('stripdec %s %s' % (':'.join(hx(w) for w in np_), hx(meth) if meth else 'n'))
        expect.append('ok 0' if has_def else 'ok 1')
        cases.append({'op': 'stripdec', 'def': src.split(b'\n')[0].decode('latin-1')})
        res.count('strip-decision:' + ('stripped' if not has_def else 'kept'))
        res.nontrivial.add(('strip', b'.'.join(np_), meth))
    # assembly of the block layout (model vs _prepend_package_lua)
    for _ in range(ctx.budget(40, 600)):
        pk = []
        for k in range(rng.randrange(0, 4)):
            nm = rng.choice([b'a', b'lib/x', b'q"uote', b'z%d' % k])
            body = rng.choice([b'', b'return 1\n', b'x=1', b'function f() end', b'-- c\n\n'])
            pk.append((nm, body))
        mainc = rng.choice([b'', b'x=1\n', b'y=2'])
        d2 = {}
        for nm, body in pk:
            d2[nm] = lua_mod.Lua.from_lines([body] if body else [], version=33)
        orig = lua_mod.Lua.from_lines([mainc] if mainc else [], version=33)
        try:
            built = b''.join(build._prepend_package_lua(orig, d2).to_lines())
        except Exception as e:
            built = None
        uniq = list(d2.items())
        arg = ':'.join(hx(x) for nm, l in uniq for x in (nm, b''.join(l.to_lines()))) if uniq else '.'
        lines.append('asmcode %s %s' % (hx(mainc), arg))
        expect.append('ok ' + hx(built) if built is not None else 'err')
        cases.append({'op': 'asmcode', 'packages': [nm.decode() for nm, _ in uniq]})
        res.evaluations += 1
    # discovery of require() calls (RequireWalker vs ReqWalk.walk) on nested and malformed call forms
    from pico8.lua import lua as lua_mod2
    ARGS = [b'("a")', b'("a", {use_game_loop=true})', b'("b",{use_game_loop=false})', b'("a", {use_game_loop=true,})', b'("a";{use_game_loop=true})',
            b'()', b'("a","b")', b'("a",{})', b'("a",{use_game_loop=1})', b'("a",{other=true})', b'("a",{use_game_loop=true,x=1})', b'("a",{true})',
            b'("a",{["use_game_loop"]=true})', b'("a",{use_game_loop=true},3)', b'"a"', b'{1}', b'[[a]]', b'("a".."b")', b'(x)', b'("a", t)', b'(1)',
            b'("x\\65y")', b'([[long]])', b'("a", {use_game_loop=not x})', b' ( "a" , { use_game_loop = true } ) ', b'(require("a"))', b'("a", {use_game_loop=nil})',
            b'("a", {use_game_loop=(true)})', b'(("a"))', b'(\'q\')', b'("a", {use_game_loop=true;})', b'("a", nil)', b'(nil)', b'(...)',
            # option names that are parts, extensions or re-spellings of the one valid name
            b'("a", {game_loop=true})', b'("a", {use_game=true})', b'("a", {loop=false})', b'("a", {use=true})', b'("a", {_=true})', b'("a", {e=true})',
            b'("a", {use_game_loops=true})', b'("a", {Use_game_loop=true})', b'("a", {use_game_loop_=true})', b'("a", {_use_game_loop=false})',
            b'("a", {use_game_loopuse_game_loop=true})', b'("a", {o=true})']
    WRAP = [b'%s\n', b'local x = %s\n', b'print(%s)\n', b'if x then %s else y=1 end\n', b'if x then y=1 elseif z then %s end\n', b'function f() return %s end\n',
            b't={%s, k=%s, [1]=%s}\n', b'for i=1,2 do %s end\n', b'if (x) %s\n', b'while x do %s end\n', b'repeat %s until x\n', b'a[1]=%s\n', b'a=-%s\n',
            b'a=b+%s*%s\n', b'return %s\n', b'f{%s}\n', b'f"x":g(%s)\n', b'%s.x(%s)\n', b'%s %s %s\n', b'do local function g(...) %s end end\n', b'x += %s\n',
            b'?%s\n', b'goto n ::n:: %s\n', b'x = function() %s end\n', b'x = {f=function() return %s end}\n', b'x = y and %s or %s\n', b'x = not %s\n',
            b'for k,v in pairs(%s) do end\n', b'if %s then end\n', b'while %s do end\n', b'x.y.z = %s\n', b'x:m(%s)\n', b'x[%s] = 1\n']
    CALLEE = [b'require'] * 14 + [b'x.require', b'x:require', b'(require)', b'requires', b'_require', b'REQUIRE', b'require.x', b'print']

    def impl_calls(src):
        try:
            l = lua_mod2.Lua.from_lines([src], version=8)
        except Exception:
            return 'err'
        out = []
        try:
            for pth, ugl, tok in build.RequireWalker(l.tokens, l.root).walk():
                out.append('%s:%d' % (hx(pth), 1 if ugl else 0))
        except Exception:
            out.append('E')
        return 'ok ' + (' '.join(out) or '-')
    for _ in range(ctx.budget(300, 6000)):
        w = rng.choice(WRAP)
        calls = tuple(rng.choice(CALLEE) + rng.choice(ARGS if rng.random() < 0.7 else ARGS[:4]) for _ in range(w.count(b'%s')))
        src = w % calls
        if rng.random() < 0.3:
            w2 = rng.choice(WRAP)
            src += w2 % tuple(rng.choice(CALLEE) + rng.choice(ARGS[:6]) for _ in range(w2.count(b'%s')))
        il = impl_calls(src)
        lines.append('reqcalls ' + hx(src))
        expect.append(il)
        cases.append({'op': 'reqcalls', 'source': hx(src)})
        res.evaluations += 1
        res.count('reqcalls:' + ('parse-error' if il == 'err' else 'arg-error' if il.endswith('E') else 'none' if il == 'ok -' else 'calls'))
        if il.startswith('ok ') and il != 'ok -':
            res.nontrivial.add(('reqcalls', w, calls))
    if ctx.model.available:
        for c, e, g_ in zip(cases, expect, ctx.model.run(lines)):
            if c['op'] == 'buildlua':
                m = unhx(g_[3:]) if g_.startswith('ok ') else None
                if m is not None and not m.endswith(b'\n'):
                    m += b'\n'         # the cart writer ends the code section with a line feed (C03)
                if m != e[1]:
                    res.diff(c, hx(e[1])[:300], g_[:300])
            elif c['op'] == 'reqcalls':
                if not (e == g_ or (e == 'err' and g_.startswith('err'))):
                    res.diff(c, e[:200], g_[:200])
            elif e != g_:
                res.diff(c, e[:200], g_[:200])


def replay(ctx, rep, res):
    run(ctx, res)
    return not res.failures and not res.diffs
