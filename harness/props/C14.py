"""C14 — build embeds each require()d package once and leaves all code intact: package graphs on disk, real builds,
token-level oracle, packaging model correspondence."""
import contextlib
import io
import os

from common import hx
import implutil as U
import incutil as I
import lexutil as L
import gen_lua

ASSUMPTIONS = ['package bodies come from the dialect generator; require() calls are statements of the form `local m = require("name")`, '
               '`require("name")` or nested in a call, at the top level of a file (the walker\'s discovery is tested on nested forms separately)',
               'tokens are compared with the real lexer (C07 ties it to the grammar)']
TRUSTED_EXTRA = ['modelled by hand: _evaluate_require (registration before recursion, discovery order), _prepend_package_lua (block layout) '
                 'as Model/Require.lean; extraction of require() calls from the tree and file lookup are parameters of the model']
PARTIAL = 'C14: proof of the packaging logic; extraction of require() calls from the tree, file lookup and token-range stripping are tied by correspondence'
LOOPS = [b'_init', b'_update', b'_update60', b'_draw']
NEAR = [b'function _update_hud()', b'function _draw2(a)', b'function _initialize()', b'function _update6()', b'function _update600()',
        b'function _init_()', b'function __init()', b'function init()', b'function _INIT()', b'function _updat()', b'function _dra()',
        b'function m._init()', b'function m:_draw()', b'function m._update60.x()', b'local function _init()', b'local function _draw()',
        b'_update = function()', b'_update60=function()', b'local _init = function()', b'function _draw_()', b'function update60()',
        b'function _update61()', b'function _init1()']


def sig_tokens(code):
    out, toks = L.impl_lex([code])
    if toks is None:
        return None
    return [(type(t).__name__, t._data) for t in toks if type(t).__name__ not in ('TokSpace', 'TokNewline', 'TokComment')]


class Graph:
    """A package graph: files[i] = dict(name relpath, reqs=[(name string, target index, use_game_loop)], body parts)."""

    def __init__(self, ctx, rng, n):
        self.rng = rng
        self.dir = os.path.join(ctx.tmp, 'g%d' % n)
        nfiles = rng.randrange(1, 7)
        self.files = []
        for i in range(nfiles):
            sub = rng.choice(['', '', 'lib/', 'a/b/'])
            self.files.append({'rel': '%sp%d.lua' % (sub, i) if i else 'main.lua', 'reqs': [], 'stmts': []})
        # edges: mostly forward (DAG) with occasional back edges (cycles) and shared targets
        for i, f in enumerate(self.files):
            for _ in range(rng.choice([0, 1, 1, 2, 3])):
                j = rng.randrange(1, nfiles) if nfiles > 1 else None
                if j is None:
                    continue
                f['reqs'].append((j, rng.random() < 0.2))
        for i, f in enumerate(self.files):
            self.make_body(i, f)

    def req_name(self, frm, to):
        """the string passed to require(): relative to the requiring file's directory, without .lua"""
        a = os.path.dirname(self.files[frm]['rel'])
        b = self.files[to]['rel'][:-4]
        rel = os.path.relpath(os.path.join('/r', b), os.path.join('/r', a))
        return rel

    def make_body(self, i, f):
        rng = self.rng
        parts = []      # (kind, text) kinds: 'code', 'loop' (game-loop function), 'req'
        reqs = list(f['reqs'])
        nstat = rng.randrange(0, 4)
        slots = ['code'] * nstat + ['req'] * len(reqs) + (['loop'] * rng.choice([0, 0, 1, 2]) if i else []) + ['near'] * rng.choice([0, 0, 1, 2])
        rng.shuffle(slots)
        ri = 0
        for k in slots:
            if k == 'code':
                g = gen_lua.LuaGen(rng, max_depth=2, stmt_budget=2, glyph_names=False)
                items = g.program(nstats=1)
                if any(it.text in (b'return', b'break') for it in items[:1]):
                    continue
                while items and items[-1].text == b';':
                    items.pop()          # keep statement boundaries = part boundaries
                if not items:
                    continue
                # a generated statement can itself be a top-level game-loop function (`function _init() ... end`): the build strips those
                is_loop = (len(items) > 2 and items[0].text == b'function' and items[1].text in LOOPS and items[2].text == b'(')
                parts.append(('loop' if is_loop else 'code', gen_lua.layout(rng, items, rng.choice(['compact', 'spaced', 'lines']), final_newline=False)))
            elif k == 'near':
                # definitions that resemble a game-loop function but are not one: they must stay (kind 'code')
                parts.append(('code', rng.choice(NEAR) + b'\n  ' + rng.choice([b'cls()', b'y-=1', b'']) + b'\nend'))
            elif k == 'loop':
                nm = rng.choice(LOOPS)
                parts.append(('loop', b'function ' + nm + b'()\n  ' + rng.choice([b'cls()', b'x+=1', b'local m=1', b'']) + b'\nend'))
            else:
                to, ugl = reqs[ri]
                ri += 1
                name = self.req_name(i, to)
                if '..' in name.split('/'):
                    continue        # would be rejected by the path filter; such graphs are C12's subject
                opt = b', {use_game_loop=true}' if ugl else b''
                form = rng.choice([0, 0, 1, 2])
                call = b'require("' + name.encode() + b'"' + opt + b')'
                text = [b'local m%d = ' % ri + call, call, b'print(' + call + b')'][form]
                parts.append(('req', text, name, to, ugl))
        if i and rng.random() < 0.5:
            parts.append(('code', b'return {n=%d}' % i))
        f['parts'] = parts
        # (always a line break between parts: a part may end in a line-scoped short-if or `?` statement)
        sep = [rng.choice([b'\n', b'\n\n', b' \n', b'\n-- c\n']) for _ in parts]
        f['final_nl'] = rng.random() < 0.6
        text = b''
        for p, s in zip(parts, sep):
            text += p[1] + s
        text = text.rstrip(b'\n ') + (b'\n' if f['final_nl'] else b'')
        f['text'] = text

    def write(self):
        for f in self.files:
            I.write(os.path.join(self.dir, f['rel']), f['text'])

    def expected(self):
        """Discovery order of package names and, per name, (file index, keep loop) — DFS in call order, registration before recursion."""
        order, seen = [], {}

        def visit(i, keep):
            for p in self.files[i]['parts']:
                if p[0] == 'req':
                    # a require inside a stripped game-loop function does not exist; ours are never inside one
                    name, to, ugl = p[2], p[3], p[4]
                    if name not in seen:
                        seen[name] = (to, ugl)
                        order.append(name)
                        visit(to, ugl)
        visit(0, True)
        return order, seen

    def body_tokens(self, i, keep):
        toks = []
        for p in self.files[i]['parts']:
            if p[0] == 'loop' and not keep:
                continue
            t = sig_tokens(p[1])
            if t is None:
                return None
            toks += t
        return toks


def run_build(main, out, lua_path=None):
    from pico8 import tool
    argv = ['-q', 'build', '--lua', main]
    if lua_path:
        argv += ['--lua-path', lua_path]
    argv.append(out)
    with U.quiet(), contextlib.redirect_stdout(io.StringIO()), contextlib.redirect_stderr(io.StringIO()):
        try:
            return tool.main(argv)
        except BaseException as e:
            return e


def run(ctx, res):
    rng = ctx.rng
    from pico8.game import file as gfile
    from pico8.build import build
    from pico8.lua import lua as lua_mod
    res.rule = ('random package graphs (1-6 files, shared packages, cycles, nested directories) with bodies from the dialect generator, '
                'game-loop functions at start/middle/end, with/without final newline, use_game_loop choices, require() as local assignment / '
                'statement / nested in a call; real `p8tool build`; built code re-lexed and compared token for token with '
                'preamble + packages in discovery order (minus stripped functions) + loader + main; error cases; '
                'distinct non-trivial = distinct (number of packages, has cycle/shared, has stripped loop function, final newline)')
    lines, expect, cases = [], [], []
    pre_pkg = sig_tokens(b''.join(build.REQUIRE_LUA_PREAMBLE_PACKAGE))
    pre_req = sig_tokens(b''.join(build.REQUIRE_LUA_PREAMBLE_REQUIRE))
    for n in range(ctx.budget(60, 1500)):
        g = Graph(ctx, rng, n)
        g.write()
        main = os.path.join(g.dir, 'main.lua')
        out = os.path.join(g.dir, 'out.p8')
        rc = run_build(main, out)
        res.evaluations += 1
        order, seen = g.expected()
        key = 'C14:graph:%d:%s' % (n, hx(g.files[0]['text'])[:40])
        inp = {'files': {f['rel']: hx(f['text']) for f in g.files}}
        if rc != 0 or not os.path.exists(out):
            res.fail(key, 'build of a valid package graph failed: %r' % (rc,), inp)
            continue
        code = b''.join(gfile.from_file(out).lua.to_lines())
        got = sig_tokens(code)
        want = []
        ok = True
        if order:
            want += pre_pkg
            for name in order:
                to, ugl = seen[name]
                want += sig_tokens(b'package._c["' + name.encode() + b'"]=function()\n')
                bt = g.body_tokens(to, ugl)
                ok = ok and bt is not None
                want += bt or []
                want += [('TokKeyword', b'end')]
            want += pre_req
        mt = g.body_tokens(0, True)
        want += mt or []
        if not ok or mt is None:
            continue
        shared = len(order) < sum(len([p for p in f['parts'] if p[0] == 'req']) for f in g.files)
        stripped = any(p[0] == 'loop' for nm in order for p in g.files[seen[nm][0]]['parts'] if not seen[nm][1])
        res.nontrivial.add((len(order), shared, stripped, g.files[0]['final_nl']))
        res.count('packages:%d' % min(len(order), 4))
        if got != want:
            i = next((k for k, (a, b) in enumerate(zip(got or [], want)) if a != b), min(len(got or []), len(want)))
            res.fail(key, 'built code differs from preamble + packages (once each, in discovery order, minus game-loop functions) + loader + main '
                          'at token %d: got %r, expected %r' % (i, (got or [])[i:i + 3], want[i:i + 3]), inp, observed=hx(code)[:600])
            continue
        # count definitions
        for name in order:
            if code.count(b'package._c["' + name.encode() + b'"]=function()') != 1:
                res.fail(key, 'package %s is not defined exactly once' % name, inp)
        # packaging model correspondence: discovery order
        idx = {f['rel']: i for i, f in enumerate(g.files)}
        words = ['evalreq', '0', str(len(g.files))]
        locs = []
        for i, f in enumerate(g.files):
            for keep in (True, False):
                calls = [p for p in f['parts'] if p[0] == 'req']
                words.append(str(len(calls)))
                for p in calls:
                    words += [hx(p[2].encode()), '1' if p[4] else '0']
            for p in f['parts']:
                if p[0] == 'req':
                    locs.append((hx(p[2].encode()), i, p[3]))
        words.append(str(len(locs)))
        for l in locs:
            words += [l[0], str(l[1]), str(l[2])]
        lines.append(' '.join(words))
        expect.append('ok ' + (' '.join('%s:%d:%d' % (hx(nm.encode()), seen[nm][0], 1 if seen[nm][1] else 0) for nm in order) or '-'))
        cases.append({'op': 'evalreq', 'graph': n})
        # assembly correspondence
        bodies = []
        for nm in order:
            to, ugl = seen[nm]
            with open(os.path.join(g.dir, g.files[to]['rel']), 'rb') as fh:
                l = lua_mod.Lua.from_lines(fh, version=33)
            bodies.append(None)
        if n == 0:
            res.sample({'files': {f['rel']: repr(f['text'][:120]) for f in g.files}, 'packages_in_order': order})
    # error cases
    errs = [('missing file', b'local m = require("nothere")\n'), ('two strings', b'require("a","b")\n'), ('no args', b'require()\n'),
            ('non-literal', b'require(x)\n'), ('bad option', b'require("p1", {other=true})\n'), ('three args', b'require("p1", {}, 1)\n'),
            ('option not bool', b'require("p1", {use_game_loop=1})\n')]
    d = os.path.join(ctx.tmp, 'errs')
    I.write(os.path.join(d, 'p1.lua'), b'return 1\n')
    for name, src in errs:
        I.write(os.path.join(d, 'main.lua'), src)
        out = os.path.join(d, 'out.p8')
        if os.path.exists(out):
            os.remove(out)
        rc = run_build(os.path.join(d, 'main.lua'), out)
        res.evaluations += 1
        res.count('error-cases')
        if rc == 0 or os.path.exists(out):
            res.fail('C14:error:' + name, 'require() with %s did not fail the build (rc=%r, output written=%s)' % (name, rc, os.path.exists(out)), {'main': hx(src)})
    # the decision which statements are stripped (model `stripsStat` vs one real build per candidate definition)
    d = os.path.join(ctx.tmp, 'strip')
    I.write(os.path.join(d, 'main.lua'), b'require("p")\nx=1\n')
    heads = []
    for nm in LOOPS:
        heads += [([nm], None), ([b'm', nm], None), ([nm], b'go'), ([nm, b'x'], None), ([nm + b'_hud'], None), ([nm + b'2'], None),
                  ([nm[:-1]], None), ([b'_' + nm], None), ([nm[1:]], None), ([nm.upper()], None)]
    alpha = [b'_', b'init', b'update', b'draw', b'60', b'6', b'0', b'x', b'_init', b'_update', b'_draw', b'_update60']
    for _ in range(ctx.budget(40, 400)):
        np_ = [b''.join(rng.choice(alpha) for _ in range(rng.randrange(1, 4))) for _ in range(rng.choice([1, 1, 1, 2]))]
        np_ = [(b'a' + w if w[:1].isdigit() else w) for w in np_]
        heads.append((np_, rng.choice([None, None, None, b'mm'])))
    for np_, meth in heads:
        src = b'function ' + b'.'.join(np_) + ((b':' + meth) if meth else b'') + b'()\n y=1\nend\nz=2\n'
        I.write(os.path.join(d, 'p.lua'), src)
        out = os.path.join(d, 'out.p8')
        if os.path.exists(out):
            os.remove(out)
        rc = run_build(os.path.join(d, 'main.lua'), out)
        res.evaluations += 1
        if rc != 0 or not os.path.exists(out):
            res.fail('C14:strip:' + src.decode('latin-1')[:30], 'build failed for a package defining %r' % src[:40], {'package': hx(src)})
            continue
        code = b''.join(gfile.from_file(out).lua.to_lines())
        body_t = sig_tokens(src)
        got = sig_tokens(code)
        has_def = any(got[k:k + len(body_t)] == body_t for k in range(len(got) - len(body_t) + 1))
        has_rest = any(got[k:k + 3] == body_t[-3:] for k in range(len(got) - 2))
        is_loop = (len(np_) == 1 and meth is None and np_[0] in LOOPS)
        key = 'C14:strip:' + src.split(b'(')[0].decode('latin-1')
        if not has_rest or (has_def == is_loop):
            res.fail(key, 'package definition `%s` was %s by the build; only plain _init/_update/_update60/_draw definitions may be removed'
                     % (src.split(b'\n')[0].decode('latin-1'), 'kept' if has_def else 'removed'), {'package': hx(src), 'main': hx(b'require("p")\nx=1\n')})
        lines.append('stripdec %s %s' % (':'.join(hx(w) for w in np_), hx(meth) if meth else 'n'))
        expect.append('ok 0' if has_def else 'ok 1')
        cases.append({'op': 'stripdec', 'def': src.split(b'\n')[0].decode('latin-1')})
        res.count('strip-decision:' + ('stripped' if not has_def else 'kept'))
        res.nontrivial.add(('strip', b'.'.join(np_), meth))
    # assembly of the block layout (model vs _prepend_package_lua)
    for _ in range(ctx.budget(40, 600)):
        pk = []
        for k in range(rng.randrange(0, 4)):
            nm = rng.choice([b'a', b'lib/x', b'q"uote', b'z%d' % k])
            body = rng.choice([b'', b'return 1\n', b'x=1', b'function f() end', b'-- c\n\n'])
            pk.append((nm, body))
        mainc = rng.choice([b'', b'x=1\n', b'y=2'])
        d2 = {}
        for nm, body in pk:
            d2[nm] = lua_mod.Lua.from_lines([body] if body else [], version=33)
        orig = lua_mod.Lua.from_lines([mainc] if mainc else [], version=33)
        try:
            built = b''.join(build._prepend_package_lua(orig, d2).to_lines())
        except Exception as e:
            built = None
        uniq = list(d2.items())
        arg = ':'.join(hx(x) for nm, l in uniq for x in (nm, b''.join(l.to_lines()))) if uniq else '.'
        lines.append('asmcode %s %s' % (hx(mainc), arg))
        expect.append('ok ' + hx(built) if built is not None else 'err')
        cases.append({'op': 'asmcode', 'packages': [nm.decode() for nm, _ in uniq]})
        res.evaluations += 1
    if ctx.model.available:
        for c, e, g_ in zip(cases, expect, ctx.model.run(lines)):
            if e != g_:
                res.diff(c, e[:200], g_[:200])


def replay(ctx, rep, res):
    run(ctx, res)
    return not res.failures and not res.diffs
