"""C04 — .p8.png write/read round trip: correspondence (model vs p8png.py) + direct oracle with an independent PNG decoder."""
import io
import os

from common import hx, unhx, REPO
import implutil as U
import gen_code
from ref import png as refpng

ASSUMPTIONS = ['PNG container (pypng, zlib) trusted; cross-checked by harness/ref/png.py (independent decoder, zlib inflate only)',
               'label image is 8-bit RGBA (the bundled blank label / PICO-8-written carts)',
               'version is a byte (0..255); versions above 255 are refused by the writer',
               'C05 guard for compressed code (text does not end with the compatibility suffix; < 65536 bytes)']
TRUSTED_EXTRA = ['modelled by hand: get_bytes_from_code, get_code_from_bytes, get_pngdata_from_picodata, '
                 'get_picodata_from_pngdata, P8PNGFormatter.to_file/from_file (p8png.py); Lua layer opaque']
AREA = 0x3d00


_CACHE = {}


def _mods():
    from pico8.game.formatter import p8png
    from pico8.game import compress
    if not getattr(compress.compress_code, '_verif_cached', False):
        orig = compress.compress_code

        def cached(in_p):   # pure function of its argument; cached only to keep the check fast
            k = bytes(in_p)
            if k not in _CACHE:
                _CACHE[k] = bytes(orig(k))
            return bytearray(_CACHE[k])
        cached._verif_cached = True
        compress.compress_code = cached
    return p8png, compress


def write_png(g, label_path=None):
    p8png, _ = _mods()
    out = io.BytesIO()
    p8png.P8PNGFormatter.to_file(g, out, label_fname=label_path)
    return out.getvalue()


def read_raw(data):
    p8png, _ = _mods()
    return p8png.get_raw_data_from_p8png_file(io.BytesIO(data))


def make_label(ctx, rng, name):
    """A 160x205 RGBA PNG with arbitrary pixels, written with pypng; returns (path, rows)."""
    import png
    rows = [bytes(rng.getrandbits(8) for _ in range(160 * 4)) for _ in range(205)]
    path = os.path.join(ctx.tmp, name)
    with open(path, 'wb') as fh:
        # (a picture saved by an image editor usually carries ancillary chunks — gAMA, bKGD — that say nothing about the pixels)
        extra = rng.choice([{}, {}, {'gamma': 2.2}, {'background': (1, 2, 3)}, {'compression': 9}, {'gamma': 0.45455, 'background': (0, 0, 0)}])
        png.Writer(160, 205, greyscale=False, alpha=True, bitdepth=8, **extra).write(fh, [bytearray(r) for r in rows])
    return path, rows


def classify(compress, code, version):
    """(compressed stream, picotool's documented storage choice, whether the code fits the cartridge). "Fits" is stated from the
    format and does not depend on the choice: the uncompressed form can hold the code (NUL-terminated text of at most 0x3d00 bytes that
    does not read as the compressed header — which only readers of version >= 1 carts look for), or the compressed form can (carts of
    version >= 1: 8-byte header with a 16-bit text length, plus the stream, within 0x3d00 bytes). Theorem C04.codeFits_iff: that is
    exactly when the form picotool chooses fits. The form actually used is observed from the written file (`observed_compressed`);
    `compressed` here is only the fallback for the rare text that itself begins with the header's magic."""
    comp = bytes(compress.compress_code(code)) if code else b''
    raw_ok = b'\x00' not in code and (version == 0 or code != b':c:')
    compressed = version != 0 and (len(comp) + 8 < len(code) or not raw_ok)
    fits = (raw_ok and len(code) <= AREA) or (version != 0 and 8 + len(comp) <= AREA and len(code) < 65536)
    return comp, compressed, fits


def observed_compressed(area, code, fallback):
    if code.startswith(b':c:'):
        return fallback
    return area[:4] == b':c:\0'


def check_cart(ctx, res, code, regs, version, label, tag, batch, label_rows_default):
    p8png, compress = _mods()
    inp = {'code': hx(code), 'version': version, 'label': bool(label), 'regions': {k: hx(v) for k, v in regs.items()}}
    key = 'C04:%s:%s:v%d' % (tag, hx(code)[:48] + ('..%d' % len(code) if len(code) > 24 else ''), version)
    try:
        g = U.make_game(regions=regs, code=code, version=version)
        if len(code) % 3 == 1:
            # the code object may come from elsewhere (another cart, a .lua file through `build`) and carry another version number:
            # the cart's version is the cart's
            from pico8.lua import lua as lua_
            g.lua = lua_.Lua.from_lines([code] if code else [], version=(version + 7) % 250 + 1)
    except Exception:
        return
    code1 = b''.join(g.lua.to_lines())
    comp, compressed, fits = classify(compress, code1, version)
    res.evaluations += 1
    res.nontrivial.add((code1, version, bool(label)))
    res.count(('compressed' if compressed else 'raw') + ('' if fits else '-toolarge'))
    lpath, lrows = label if label else (None, label_rows_default)
    try:
        data = write_png(g, lpath)
        status = 'ok'
    except Exception as e:
        data, status = None, 'err ' + U.exc_kind(e)
    if not fits:
        if status == 'ok':
            res.fail(key, 'code that does not fit the cartridge (%d bytes, encoded %d) was written instead of refused' % (
                len(code1), (8 + len(comp)) if compressed else len(code1)), inp)
        return
    if status != 'ok':
        res.fail(key, 'writing a cart whose code fits raised (%s)' % status, inp)
        return
    # valid PNG, label picture kept in the upper six bits
    try:
        w, h, planes, rows = refpng.decode(data)
    except Exception as e:
        res.fail(key, 'written file is not a valid PNG for an independent decoder: %r' % (e,), inp)
        return
    if (w, h, planes) != (160, 205, 4) or any((a >> 2) != (b >> 2) for r1, r2 in zip(rows, lrows) for a, b in zip(r1, r2)):
        res.fail(key, 'written image differs from the label source in the upper six bits / shape', inp)
    # hidden bytes per the format (independent of picotool's reader): A2 R2 G2 B2
    flat = b''.join(rows)
    pico = bytes(((flat[4 * i + 3] & 3) << 6) | ((flat[4 * i] & 3) << 4) | ((flat[4 * i + 1] & 3) << 2) | (flat[4 * i + 2] & 3)
                 for i in range(0x8001))
    want = regs['gfx'] + regs['map'] + regs['gff'] + regs['music'] + regs['sfx']
    if pico[:0x4300] != want or pico[0x8000] != version:
        res.fail(key, 'hidden data regions/version in the written PNG are not at the documented addresses', inp)
    # read back with picotool's reader
    try:
        rd = read_raw(data)
    except Exception as e:
        res.fail(key, 'reading the written .p8.png raised %r' % (e,), inp)
        return
    compressed = observed_compressed(pico[0x4300:0x8000], code1, compressed)
    exp_code = (code1 if compressed else code1 + b'\n').replace(b'\r', b' ')
    probs = []
    if bytes(rd.code) != exp_code:
        probs.append('code')
    for nm, got in (('gfx', rd.gfx), ('map', rd.p8map), ('gff', rd.gfx_props), ('music', rd.song), ('sfx', rd.sfx)):
        if bytes(got) != regs[nm]:
            probs.append(nm)
    if rd.version != version:
        probs.append('version')
    if probs:
        k2 = key
        if probs == ['code']:
            if compressed and (code1.endswith(compress.PICO8_FUTURE_CODE1) or code1.endswith(compress.PICO8_FUTURE_CODE2)):
                k2 = 'C04:text-ends-with-compat-suffix'
        res.fail(k2, '.p8.png round trip does not preserve: %s (stored %s)' % (','.join(probs), 'compressed' if compressed else 'raw'), inp)
    # correspondence
    batch.append(('code2bytes %d %s' % (version, hx(code1)), 'ok ' + hx(bytes(p8png.get_bytes_from_code(code1, version))),
                  {'op': 'code2bytes', 'code': hx(code1)[:60], 'version': version}))
    cl, cc, cs = p8png.get_code_from_bytes(list(pico[0x4300:0x8000]), version)
    batch.append(('bytes2code %d %s' % (version, hx(pico[0x4300:0x8000])), 'ok %d %s %s' % (cl, hx(cc), 'n' if cs is None else cs),
                  {'op': 'bytes2code', 'code': hx(code1)[:60], 'version': version}))
    if len(batch) < 40:
        batch.append(('topixels 160 %s %d %s %s %s %s %s %s' % (hx(b''.join(lrows)), version, hx(code1), hx(regs['gfx']), hx(regs['gff']),
                                                            hx(regs['map']), hx(regs['sfx']), hx(regs['music'])),
                      'ok ' + hx(flat), {'op': 'topixels', 'code': hx(code1)[:60]}))
        import types
        exp = 'ok %d %s %s %s %s %s %s none' % (rd.version, hx(bytes(rd.code)), hx(bytes(rd.gfx)), hx(bytes(rd.gfx_props)), hx(bytes(rd.p8map)),
                                             hx(bytes(rd.sfx)), hx(bytes(rd.song)))
        batch.append(('frompixels 160 ' + hx(flat), exp, {'op': 'frompixels', 'code': hx(code1)[:60]}))


def tune_compressed(ctx, rng, target, head=b''):
    """Code that is stored compressed and whose compressed stream is `target` bytes long (found with the fast Lean model of
    compress_code; the implementation is then run on it once). None if the model is unavailable or tuning does not converge."""
    if not ctx.model.available:
        return None
    alphabet = b'0123456789abcdefghijklmnopqrstuvwxyz!%(){}[]<>+=/*:;.,~_ '
    pool = bytes(rng.choice(alphabet) for _ in range(target + 2000))
    tail = b'\n' + b'a' * 400 + b'\n'
    n = target - 40
    for _ in range(12):
        code = head + b'--' + pool[:n] + tail
        out = ctx.model.run(['comp ' + hx(code)])[0]
        ln = (len(out) - 3) // 2
        if ln == target:
            return code
        n += target - ln
        if n < 10 or n > len(pool):
            return None
    return None


def tune_gain(ctx, rng, length, gain):
    """Text of exactly `length` bytes whose compressed stream is `gain` bytes shorter (text over the compression table's
    one-byte characters, made worse by upper-case letters, which cost two bytes each; tuned with the Lean model of
    compress_code). None if the model is unavailable or tuning does not converge."""
    if not ctx.model.available:
        return None
    alphabet = b' 0123456789abcdefghijklmnopqrstuvwxyz!#%(){}[]<>+=/*:;.,~_'
    base = bytearray(rng.choice(alphabet) for _ in range(length))
    base[:2] = b'--'
    order = list(range(2, length))
    rng.shuffle(order)
    u = 200
    for _ in range(14):
        code = bytearray(base)
        for i in order[:u]:
            code[i] = 65 + i % 26
        code = bytes(code)
        out = ctx.model.run(['comp ' + hx(code)])[0]
        ln = (len(out) - 3) // 2
        if ln == length - gain:
            return code
        u += (length - gain) - ln
        if u < 0 or u > len(order):
            return None
    return None


def incompressible(rng, n):
    return bytes(rng.choice(b'ABCDEFGHIJKLMNOPQRSTUVWXYZ') for _ in range(n))


def run(ctx, res):
    rng = ctx.rng
    p8png, compress = _mods()
    res.rule = ('carts with random regions/versions; code: empty, 1 char, hello-world, _update60 sources, incompressible upper-case, '
                'sizes straddling 0x3d00 raw (+-0..8) and compressed, very repetitive code of length 0xffff / 0x10000+ (length field boundary); x {bundled blank label, existing destination with random pixels}; '
                'written PNG decoded by an independent decoder and by the real reader; .p8->.p8.png->.p8 conversion; '
                'distinct non-trivial = distinct (code, version, label?)')
    blank = refpng.decode(open(os.path.join(REPO, 'pico8', 'game', 'empty_023.p8.png'), 'rb').read())[3]
    lab = make_label(ctx, rng, 'label.png')
    batch = []
    codes = [b'', b'x', b'x=1', b'print("hello world")\n', b'x=1\r\ny=2\r\n',
             b'function _update60()\n x+=1\nend\nfunction _draw()\n cls()\nend\n',
             b'-- ' + b'abc ' * 40 + b'\n' + b'x=x+1 y=y+1 ' * 30]
    # the compatibility line followed by blank space: an ordinary text (only the line at the very END is PICO-8's own addition)
    for fc in (compress.PICO8_FUTURE_CODE1, compress.PICO8_FUTURE_CODE2):
        codes.append(b'function _update60() x=1 end\nx=1 y=2 x=1 y=2 x=1 y=2\n' + fc + rng.choice([b'\n', b' \n', b'\n\n', b' ']))
    for d in (0, 1):
        codes.append(b'--' + incompressible(rng, AREA - 2 + d))        # raw, straddling the area size
    big = gen_code.gen_code(rng, lines=12)
    codes.append(big)
    if ctx.thorough():
        for d in (-8, -2, -1, 2, 3, 8):
            codes.append(b'--' + incompressible(rng, AREA - 2 + d))
        # compressed size straddling the area: random digits compress poorly but below raw size
        for n in (AREA + 600, AREA + 2500):
            codes.append(b'--' + bytes(rng.choice(b'0123456789abcdef') for _ in range(n)))
    # compressed size straddling the code area: header (8) + stream within a few bytes of 0x3d00 on either side
    for target in ([AREA - 8, AREA - 7] if not ctx.thorough() else [AREA - 9, AREA - 8, AREA - 7, AREA - 4, AREA - 1, AREA, AREA + 1]):
        c = tune_compressed(ctx, rng, target)
        if c is not None:
            codes.append(c)
            res.count('tuned-compressed-size')
    # the same for code that mentions _update60 (its stream carries PICO-8's compatibility line as well: that is part of the stream
    # and has to fit like the rest), up to a few dozen bytes beyond the area
    for target in ([AREA - 8, AREA - 7 + rng.randrange(0, 30), AREA + 32 + rng.randrange(0, 40)] if not ctx.thorough() else
                   [AREA - 9, AREA - 8, AREA - 7, AREA, AREA + 20, AREA + 37, AREA + 45, AREA + 60, AREA + 70, AREA + 90]):
        c = tune_compressed(ctx, rng, target, head=b'function _update60() x=1 end\n')
        if c is not None:
            codes.append(c)
            res.count('tuned-compressed-size-update60')
    # text that fits as it is and whose compressed stream is only a few bytes shorter: with the 8-byte header the compressed form
    # is no gain (and next to the area size it would not fit at all)
    for length, gain in ([(AREA, 1), (AREA - 3, 5), (AREA, 8)] if not ctx.thorough() else
                         [(AREA - d, g) for d in (0, 1, 6, 7, 8, 40) for g in (1, 4, 7, 8, 9, 12)]):
        c = tune_gain(ctx, rng, length, gain)
        if c is not None:
            codes.append(c)
            res.count('tuned-small-gain')
    # very long, very repetitive code: fits the code area compressed, but its length needs more than the 16 bits of the length field
    line = rng.choice([b'x=1 y=2 z=3 w=45\n', b'a=a+1 b=b+1 --\n', b'print("hello!")\n'])
    for total in ([0xffff, 0x10000 + rng.randrange(0, 200)] if not ctx.thorough() else [0xfffe, 0xffff, 0x10000, 0x10001, 0x10054, 0x1ffff, 0x20010]):
        codes.append((line * (total // len(line) + 1))[:total - 1] + b'\n')
        res.count('length-field-boundary')
    for i, code in enumerate(codes):
        regs = {nm: U.rand_bytes(rng, sz) for nm, sz in U.REGION_SIZES}
        version = rng.choice([1, 8, 33, 41, 255]) if i else 5
        check_cart(ctx, res, code, regs, version, lab if i % 2 else None, 'cart', batch, blank)
        if i == 3:
            res.sample({'code': repr(code[:50]), 'version': version})
    for _ in range(ctx.budget(25, 300)):
        regs = {nm: U.rand_bytes(rng, sz) for nm, sz in U.REGION_SIZES}
        code = gen_code.gen_code(rng)
        if rng.random() < 0.6:
            code = code * rng.choice([2, 3, 6])      # repetitive code is stored compressed
        check_cart(ctx, res, code, regs, rng.randrange(1, 256), lab if rng.random() < 0.4 else None, 'cart', batch, blank)
    # code the uncompressed form cannot hold (NUL, the bare magic), at every version kind; version 0 carts (never compressed; NUL refused)
    z = {nm: bytes(sz) for nm, sz in U.REGION_SIZES}
    for v_ in (0, 1, 8, 255):
        for c_ in (b'x=1 y=1 x=1 y=1 x=1 y=1 x=1 y=1\n', b'--\x00\nx=1', b':c:', b':c:\x00', b'--:c:\n', b':c:x=1', b'\x00', b'-- a\x00b\x00',
                   b'--' + incompressible(rng, 40) + b'\x00', b'x=":c:"', b':c:\n',
                   # the magic at the very END of text stored uncompressed (the zero padding follows it directly), and in the middle
                   b'--:c:', b'x=1 --:c:', b'-- :c:\x00 :c:', b'--' + incompressible(rng, 30) + b':c:', b'--:c::c:'):
            check_cart(ctx, res, c_, z, v_, None, 'cart', batch, blank)
    # .p8 -> .p8.png -> .p8 through the file layer (existing destination keeps its label picture)
    from pico8.game import file as gfile
    for i in range(ctx.budget(3, 30)):
        regs = {nm: U.rand_bytes(rng, sz) for nm, sz in U.REGION_SIZES}
        code = gen_code.gen_code(rng, lines=rng.choice([1, 4, 9]))
        try:
            g = U.make_game(regions=regs, code=code, version=8)
        except Exception:
            continue
        a, b, c = (os.path.join(ctx.tmp, 'conv%d%s' % (i, ext)) for ext in ('.p8', '.p8.png', '_back.p8'))
        res.evaluations += 1
        res.count('conversion')
        try:
            gfile.to_file(g, a)
            g1 = gfile.from_file(a)
            if i % 2:
                import shutil
                shutil.copy(lab[0], b)
            gfile.to_file(g1, b)
            g2 = gfile.from_file(b)
            gfile.to_file(g2, c)
            g3 = gfile.from_file(c)
        except Exception as e:
            res.fail('C04:convert:' + hx(code)[:40], '.p8 -> .p8.png -> .p8 conversion raised %r' % (e,), {'code': hx(code)})
            continue
        r1, r3 = U.regions_of(g1), U.regions_of(g3)
        c1, c3 = b''.join(g1.lua.to_lines()), b''.join(g3.lua.to_lines())
        if r1 != r3 or c3.replace(b'\r', b' ').rstrip(b'\n') != c1.replace(b'\r', b' ').rstrip(b'\n'):
            k2 = 'C04:convert:' + hx(code)[:40]
            if r1 == r3:
                # the same root causes as the known findings of the cart-level check, seen through the file layer
                stored_compressed = g1.version != 0 and (len(compress.compress_code(c1)) + 8 < len(c1) or b'\x00' in c1 or c1 == b':c:')
                if stored_compressed and (c1.endswith(compress.PICO8_FUTURE_CODE1) or c1.endswith(compress.PICO8_FUTURE_CODE2)):
                    k2 = 'C04:text-ends-with-compat-suffix'
            res.fail(k2, '.p8 -> .p8.png -> .p8 conversion changes code or data regions', {'code': hx(code)})
        if i % 2:
            rows = refpng.decode(open(b, 'rb').read())[3]
            if any((x >> 2) != (y >> 2) for r1_, r2_ in zip(rows, lab[1]) for x, y in zip(r1_, r2_)):
                res.fail('C04:convert-label:' + hx(code)[:40], 'existing destination label picture not kept', {'code': hx(code)})
    # a refused cart leaves nothing behind: an oversize write to a fresh name, then a fitting write to the same name
    for i in range(ctx.budget(2, 10)):
        big = U.make_game(rng=rng, code=b'--' + incompressible(rng, AREA + rng.choice([0, 1, 700])), version=8)
        small = U.make_game(rng=rng, code=b'x=%d\n' % i, version=8)
        pth = os.path.join(ctx.tmp, 'refuse%d.p8.png' % i)
        res.evaluations += 1
        res.count('refused-then-written')
        res.nontrivial.add(('refuse-then-write', i))
        key = 'C04:refuse-then-write:%d' % i
        try:
            gfile.to_file(big, pth)
            res.fail(key, 'an oversize cart was written through file.to_file instead of refused', {'code_len': len(b''.join(big.lua.to_lines()))})
            continue
        except Exception:
            pass
        if os.path.exists(pth):
            res.fail(key, 'a refused cart left a file of %d bytes at a destination that did not exist before' % os.path.getsize(pth), {'step': 'refused write'})
            continue
        try:
            gfile.to_file(small, pth)
            back = gfile.from_file(pth)
            if U.regions_of(back) != U.regions_of(small) or b''.join(back.lua.to_lines()).rstrip(b'\n') != b'x=%d' % i:
                res.fail(key, 'a fitting cart written after a refused one to the same name does not read back', {'step': 'second write'})
        except Exception as e:
            res.fail(key, 'after a refused write, a fitting cart cannot be written to the same name (%r)' % (e,), {'step': 'second write'})
    # code-area decoding on arbitrary areas (model vs implementation)
    for _ in range(ctx.budget(40, 600)):
        n = rng.choice([0, 1, 5, 40])
        area = bytes(rng.choice([0, 0x3a, 0x63, 13, 65, rng.randrange(256)]) for _ in range(n))
        area = rng.choice([b'', b':c:\x00', b':c:\x00\x00\x05\x00\x00']) + area
        v = rng.choice([0, 1, 8])
        try:
            cl, cc, cs = p8png.get_code_from_bytes(list(area), v)
            exp = 'ok %d %s %s' % (cl, hx(cc), 'n' if cs is None else cs)
        except Exception as e:
            exp = 'err ' + U.exc_kind(e)
        batch.append(('bytes2code %d %s' % (v, hx(area)), exp, {'op': 'bytes2code-arbitrary', 'area': hx(area)}))
        res.evaluations += 1
    if ctx.model.available:
        mo = ctx.model.run([b[0] for b in batch])
        for (line, exp, case), got in zip(batch, mo):
            if exp != got:
                res.diff(case, exp[:120], got[:120])


def replay(ctx, rep, res):
    inp = rep.get('input') or {}
    if 'regions' in inp:
        blank = refpng.decode(open(os.path.join(REPO, 'pico8', 'game', 'empty_023.p8.png'), 'rb').read())[3]
        regs = {k: unhx(v) for k, v in inp['regions'].items()}
        lab = make_label(ctx, ctx.rng, 'label.png') if inp.get('label') else None
        check_cart(ctx, res, unhx(inp['code']), regs, inp['version'], lab, 'cart', [], blank)
        return not res.failures
    run(ctx, res)
    return not res.failures and not res.diffs
