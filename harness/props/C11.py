"""C11 — a failed cart write never damages the destination: fault enumeration on the real code + protocol-model trace check."""
import builtins
import io
import os
import tempfile

from common import hx
import implutil as U
import gen_code

ASSUMPTIONS = ['failures are encoder failures (the property\'s quantifier): exceptions raised while the cart is produced; operating-system '
               'level faults between the truncation of the destination and the final copy are outside the protocol model']
TRUSTED_EXTRA = ['modelled by hand: file.to_file protocol (file.py:72-93) as a trace machine; the formatters are abstracted to '
                 '"writes then returns/raises"; tied to the code by comparing the recorded operation trace of every injected run']
PARTIAL = 'C11: proof of the protocol model only; OS-level effects (crash/ENOSPC during the final copy) cannot be exhibited by the model'


class Boom(Exception):
    pass


def exception_zoo():
    """One instance factory per exception class picotool defines (found by introspection of every pico8 module) plus the
    built-in ones an encoder can raise: the protocol must not depend on the class of the failure."""
    import importlib
    import pkgutil
    import pico8
    classes = {}
    for m in pkgutil.walk_packages(pico8.__path__, 'pico8.'):
        if m.name.endswith('_test') or '.test' in m.name:
            continue
        try:
            mod = importlib.import_module(m.name)
        except Exception:
            continue
        for nm, obj in vars(mod).items():
            if isinstance(obj, type) and issubclass(obj, BaseException) and obj.__module__.startswith('pico8'):
                classes['%s.%s' % (obj.__module__, obj.__name__)] = obj
    for c in (Boom, OSError, ValueError, KeyError, IndexError, TypeError, AssertionError, UnicodeEncodeError, RuntimeError, MemoryError,
              StopIteration, KeyboardInterrupt, SystemExit, GeneratorExit, BaseException):
        classes[c.__name__] = c
    zoo = []
    for nm in sorted(classes):
        c = classes[nm]
        inst = None
        for args in ((), ('injected',), ('injected', 1, 1), ('injected', None), ('ascii', 'x', 0, 1, 'injected'), ('injected', 1), (1, 2, 3, 4)):
            try:
                inst = c(*args)
                break
            except Exception:
                continue
        if inst is not None:
            zoo.append((nm, c, args))
    return zoo


class FaultyStream(io.BytesIO):
    exc = None          # (class, args) of the injected failure; default Boom

    def __init__(self, fail_at, log):
        super().__init__()
        self.fail_at = fail_at
        self.n = 0
        self.log = log

    def write(self, b):
        if self.fail_at is not None and self.n == self.fail_at:
            self.log.append(('tempWrite-FAULT', self.n))
            if FaultyStream.exc is not None:
                raise FaultyStream.exc[0](*FaultyStream.exc[1])
            raise Boom('injected fault at temp write %d' % self.n)
        self.n += 1
        self.log.append(('tempWrite', len(b)))
        return super().write(b)

    def seek(self, *a):
        self.log.append(('tempSeek',) + a)
        return super().seek(*a)

    def __enter__(self):
        return self

    def __exit__(self, *a):
        return False


def bad_writers(lua, zoo):
    out = []

    def mk_output(text):
        class W(lua.LuaEchoWriter):
            def to_lines(self):
                yield text
        return W

    def mk_raise(cls, args, late):
        class W(lua.LuaEchoWriter):
            def to_lines(self):
                if late:
                    yield b'x=1\n'
                raise cls(*args)
        return W
    class ArgsW(lua.LuaEchoWriter):
        """a writer whose output is what its args say (valid code without args)"""
        def to_lines(self):
            yield (self._args or {}).get('text', b'x=1\n')
    out.append(('args-output-does-not-lex', ArgsW, {'text': b'msg = "hello\n'}))
    out.append(('args-output-does-not-parse', ArgsW, {'text': b'if x then y=1\n'}))
    for nm, text in (('output-unterminated-string', b'msg = "hello\nprint(msg)\n'), ('output-unterminated-comment', b'x=1 --[[ c\n'),
                     ('output-bad-char', b'x = 1 @@ `\n'), ('output-unparseable', b'a=b=c\n'), ('output-unclosed-block', b'if x then y=1\n'),
                     ('output-stray-end', b'x=1 end\n'),
                     ('output-missing-until', b'repeat x=1\n'), ('output-bad-assign', b'x = = 1\n'), ('output-call-missing-paren', b'f(1\n')):
        out.append((nm, mk_output(text), None))
    for nm, cls, args in zoo:
        if cls in (GeneratorExit, StopIteration):
            continue      # inside a generator these end the iteration: not failures
        out.append(('raises-' + nm, mk_raise(cls, args, False), None))
        out.append(('raises-late-' + nm, mk_raise(cls, args, True), None))
    return out


def run_to_file(game, dest, fail_at=None, **kw):
    """file.to_file with the temp stream replaced by a fault-injecting one and opens of the destination recorded."""
    from pico8.game import file as gfile
    log = []
    real_open = builtins.open
    real_tmp = tempfile.TemporaryFile
    streams = []

    def fake_tmp(*a, **k):
        s = FaultyStream(fail_at, log)
        streams.append(s)
        return s

    def spy_open(path, mode='r', *a, **k):
        if isinstance(path, str) and os.path.abspath(path) == os.path.abspath(dest):
            log.append(('destOpen', mode))
        return real_open(path, mode, *a, **k)
    tempfile.TemporaryFile = fake_tmp
    builtins.open = spy_open
    try:
        try:
            with U.quiet():
                gfile.to_file(game, dest, **kw)
            return 'ok', log, (streams[0].n if streams else 0)
        except BaseException as e:
            return 'err ' + type(e).__name__, log, (streams[0].n if streams else 0)
    finally:
        tempfile.TemporaryFile = real_tmp
        builtins.open = real_open


def snapshot(path):
    return open(path, 'rb').read() if os.path.exists(path) else None


def check_run(res, tag, game, dest, before_bytes, fail_at, expect_fail, **kw):
    if before_bytes is None:
        if os.path.exists(dest):
            os.remove(dest)
    else:
        with open(dest, 'wb') as fh:
            fh.write(before_bytes)
    status, log, nwrites = run_to_file(game, dest, fail_at, **kw)
    after = snapshot(dest)
    res.evaluations += 1
    key = 'C11:%s:fault=%s:%s' % (tag, fail_at, 'exists' if before_bytes is not None else 'absent')
    inp = {'case': tag, 'fault_at_write': fail_at, 'dest_existed': before_bytes is not None, 'dest': os.path.basename(dest)}
    if status != 'ok':
        if after != before_bytes:
            res.fail(key, 'a failed write (%s) changed the destination (%s -> %s)' % (
                status, 'absent' if before_bytes is None else '%d bytes' % len(before_bytes),
                'absent' if after is None else '%d bytes' % len(after)), inp)
        # protocol: no write-mode open of the destination on failure
        if any(op[0] == 'destOpen' and ('w' in op[1] or 'a' in op[1] or '+' in op[1]) for op in log):
            res.fail(key, 'the destination was opened for writing although producing the cart failed (%s)' % status, inp)
    else:
        if expect_fail:
            res.fail(key, 'the injected failure was swallowed: to_file reported success', inp)
        # protocol of the model: every temp write precedes the single write-mode open of the destination
        opens = [i for i, op in enumerate(log) if op[0] == 'destOpen' and 'w' in op[1]]
        tws = [i for i, op in enumerate(log) if op[0] == 'tempWrite']
        if len(opens) != 1 or (tws and max(tws) > opens[0]):
            res.fail(key, 'operation trace differs from the protocol model (destination opened before the encoder returned)', inp,
                     observed=str(log[-6:]))
    return status, nwrites


def run(ctx, res):
    rng = ctx.rng
    from pico8.lua import lua
    res.rule = ('fault injected at the k-th write of the temporary stream for every k up to the number of writes of a successful run '
                '(sampled in quick for .p8: every k < 12, then every 7th), plus internal failure sources (Lua writer raises on unparseable code, '
                'section encoder raises on a short region, PNG: oversize code / bad label / version > 255) x {.p8, .p8.png} x '
                '{destination exists, absent} x each Lua writer; the injected failure ranges over every exception class defined in pico8 (introspected) and the built-in ones, '
                'at the first/middle/last write; Lua writers that raise each of these classes (immediately and after a first line) or return code '
                'that does not lex / does not parse; distinct non-trivial = distinct (format, writer, failure source/point, dest state)')
    writers = [('echo', None, None), ('minify', lua.LuaMinifyTokenWriter, {}), ('fmt', lua.LuaFormatterWriter, {'indentwidth': 2}),
               ('astecho', lua.LuaASTEchoWriter, None)]
    code = b'-- t\nx=1\nfunction f(a)\n if (a) x+=1\n return x\nend\n'
    old = b'OLD CONTENT \x00\xff'
    for ext in ('.p8', '.p8.png'):
        for wname, wcls, wargs in writers:
            g = U.make_game(rng=rng, code=code, version=8)
            dest = os.path.join(ctx.tmp, 'out_%s%s' % (wname, ext))
            kw = {'lua_writer_cls': wcls, 'lua_writer_args': wargs} if wcls else {}
            if ext == '.p8.png':
                before_ok = None
            # successful run first: number of writes
            status, n = check_run(res, '%s-%s-ok' % (ext, wname), g, dest, None, None, False, **kw)
            if status != 'ok':
                res.fail('C11:baseline:%s:%s' % (ext, wname), 'baseline write failed: %s' % status, {'ext': ext, 'writer': wname})
                continue
            valid_existing = snapshot(dest)      # a real cart (needed as label source for .p8.png)
            ks = list(range(n)) if ctx.thorough() or n <= 12 else sorted(set(list(range(12)) + list(range(12, n, 7)) + [n - 1]))
            for k in ks:
                for before in ((valid_existing if ext == '.p8.png' else old), None):
                    check_run(res, '%s-%s' % (ext, wname), g, dest, before, k, True, **kw)
                    res.nontrivial.add((ext, wname, 'write', min(k, 3), before is not None))
            res.count('faults:%s:%s' % (ext, wname), len(ks))
        # the class of the failure must not matter: every exception class picotool defines + built-ins, at the first, a middle and the last write
        g = U.make_game(rng=rng, code=code, version=8)
        dest = os.path.join(ctx.tmp, 'zoo%s' % ext)
        status, n = check_run(res, '%s-zoo-ok' % ext, g, dest, None, None, False)
        valid_existing = snapshot(dest)
        for nm, cls, args in exception_zoo():
            FaultyStream.exc = (cls, args)
            try:
                for k in sorted({0, 2, n // 2, n - 1} if not ctx.thorough() else set(range(n))):
                    if k < 0 or k >= n:
                        continue
                    for before in ((valid_existing if ext == '.p8.png' else old), None):
                        check_run(res, '%s-raise-%s' % (ext, nm), g, dest, before, k, True)
                        res.nontrivial.add((ext, 'raise', nm, before is not None))
            finally:
                FaultyStream.exc = None
            res.count('exception-classes' + ext)
        # Lua writers that fail in every way a writer can: raise (any class), or return code that does not lex / does not parse
        for nm, wcls, wargs in bad_writers(lua, exception_zoo()):
            for before in ((valid_existing if ext == '.p8.png' else old), None):
                is_output = nm.startswith('output-') or nm.startswith('args-output-')
                fails = not (ext == '.p8.png' and is_output)    # only the .p8 encoder re-parses what the writer produced
                if is_output and fails:
                    # "does not re-parse" is picotool's own lexer+parser raising on the writer's output (its parser stops
                    # silently at some stray tokens: that leniency is C08/C09's subject, not a failed write)
                    try:
                        lua.Lua.from_lines(list(wcls(tokens=[], root=None, args=wargs).to_lines()), version=8)
                        fails = False
                    except Exception:
                        fails = True
                    res.count('writer-output-reparse-fails:%s' % fails)
                st, _ = check_run(res, '%s-writer-%s' % (ext, nm), g, dest, before, None, fails, lua_writer_cls=wcls, lua_writer_args=wargs)
                res.nontrivial.add((ext, 'writer', nm, before is not None))
                res.count('bad-writers' + ext)
        # internal failure sources
        bad = [('lua-writer-raises', dict(code=b'a=b=c\n'), {'lua_writer_cls': lua.LuaFormatterWriter, 'lua_writer_args': {'indentwidth': 2}}),
               ('short-sfx-region', dict(regions={'sfx': b'\x00' * 100}), {}),
               ('short-music-region', dict(regions={'music': b'\x00' * 3}), {})]
        if ext == '.p8.png':
            bad += [('code-too-large', dict(code=b'--' + bytes(rng.choice(b'ABCDEFGHIJKLMNOPQRSTUVWXYZ') for _ in range(0x3d10))), {}),
                    ('version-over-255', dict(version=300), {}),
                    ('bad-label', dict(), {'label_fname': os.path.join(ctx.tmp, 'notapng.png')})]
            open(os.path.join(ctx.tmp, 'notapng.png'), 'wb').write(b'this is not a png')
        for name, gkw, kw in bad:
            args = dict(code=b'x=1\n', version=8)
            args.update(gkw)
            g = U.make_game(rng=rng if 'regions' not in args else None, **args)
            if 'regions' in gkw:
                for nm, sz in U.REGION_SIZES:
                    if nm not in gkw['regions']:
                        getattr(g, nm)._data = bytearray(U.rand_bytes(rng, sz))
            dest = os.path.join(ctx.tmp, 'bad_%s%s' % (name, ext))
            for before in (old if ext == '.p8' or name == 'bad-label' else valid_existing, None):
                if name == 'short-music-region' and ext == '.p8.png':
                    continue    # the PNG writer stores regions verbatim; a short region is not a failure source there
                if name == 'short-sfx-region' and ext == '.p8.png':
                    continue
                st, _ = check_run(res, '%s-%s' % (ext, name), g, dest, before, None, False, **kw)
                res.nontrivial.add((ext, name, before is not None))
                res.count('internal:' + name)
                if st == 'ok':
                    res.fail('C11:%s:%s' % (ext, name), 'failure source %s did not make the write fail' % name, {'ext': ext, 'source': name})
    # the game's own Lua object left unparseable by a rejected edit (update_from_lines raised, the caller went on), written with
    # every writer incl. the default one: "the transformed code does not re-parse" (.p8) / the tree-driven writers raise
    for ext in ('.p8', '.p8.png'):
        for edit in (b'if x then\n', b'for i=1 do\n', b'y = = 2\n'):
            for wname, wcls, wargs in writers:
                g = U.make_game(rng=rng, code=b'x=1\n', version=8)
                try:
                    g.lua.update_from_lines([edit])
                    continue            # the edit was accepted: not a failure source
                except Exception:
                    pass
                kw = {'lua_writer_cls': wcls, 'lua_writer_args': wargs} if wcls else {}
                try:
                    lua.Lua.from_lines(list(g.lua.to_lines(writer_cls=wcls, writer_args=wargs)), version=8)
                    reparses = True
                except Exception:
                    reparses = False
                if ext == '.p8.png' and reparses:
                    continue
                if ext == '.p8.png' and wcls is None or (ext == '.p8.png' and wname in ('echo', 'minify')):
                    continue            # the PNG encoder does not re-parse; token writers do not raise: no failure there
                dest = os.path.join(ctx.tmp, 'edit_%s%s' % (wname, ext))
                for before in (old if ext == '.p8' else None, None):
                    st, _ = check_run(res, '%s-rejected-edit-%s' % (ext, wname), g, dest, before, None, not reparses, **kw)
                    res.nontrivial.add((ext, 'rejected-edit', wname, edit, before is not None))
                    res.count('rejected-edit' + ext)
    res.sample({'format': '.p8', 'writer': 'fmt', 'fault_at_write': 5, 'dest_existed': True})
    # CLI: luafmt --overwrite on a cart whose code does not parse to its end leaves the cart untouched
    from pico8 import tool
    import contextlib
    cart = os.path.join(ctx.tmp, 'cli.p8')
    g = U.make_game(rng=rng, code=b'x=1\n', version=8)
    from pico8.game import file as gfile
    gfile.to_file(g, cart)
    data = open(cart, 'rb').read().replace(b'x=1\n', b'a=b=c\n')
    open(cart, 'wb').write(data)
    with U.quiet(), contextlib.redirect_stdout(io.StringIO()), contextlib.redirect_stderr(io.StringIO()):
        try:
            tool.main(['-q', 'luafmt', '--overwrite', cart])
        except BaseException:
            pass
    res.evaluations += 1
    if open(cart, 'rb').read() != data:
        res.fail('C11:cli-overwrite', 'luafmt --overwrite damaged its input cart although formatting failed', {'code': 'a=b=c'})
    # the same without --overwrite: the destination is <cart>_fmt.p8; a failed command leaves an existing one untouched and creates none
    for cmd, extra in (('luafmt', []), ('luamin', ['--keep-names-from-file', os.path.join(ctx.tmp, 'no_such_names.txt')])):
        for existed in (True, False):
            cart2 = os.path.join(ctx.tmp, 'cli2_%s.p8' % cmd)
            open(cart2, 'wb').write(data)            # code `a=b=c`: the tree-driven formatter refuses it
            dest = cart2[:-3] + '_fmt.p8'
            if existed:
                open(dest, 'wb').write(b'PREVIOUS OUTPUT \x00\xff')
            elif os.path.exists(dest):
                os.remove(dest)
            before = snapshot(dest)
            outcome = 'rc?'
            with U.quiet(), contextlib.redirect_stdout(io.StringIO()), contextlib.redirect_stderr(io.StringIO()):
                try:
                    outcome = 'rc%s' % tool.main(['-q', cmd] + extra + [cart2])
                except BaseException as e:
                    outcome = 'raised ' + type(e).__name__
            res.evaluations += 1
            res.count('cli-failed-command')
            res.nontrivial.add(('cli', cmd, existed))
            if outcome == 'rc0':
                continue        # the command did not fail here: nothing to check (success is C01/C09's subject)
            if snapshot(dest) != before:
                res.fail('C11:cli-%s:%s' % (cmd, 'exists' if existed else 'absent'),
                         'p8tool %s failed (%s) but its destination %s was %s' % (cmd, outcome, os.path.basename(dest),
                                                                                 'removed or changed' if existed else 'created'),
                         {'command': cmd, 'dest_existed': existed, 'code': 'a=b=c'})
    # several carts on one command line, the failing one after a good one, in every combination of formats and --overwrite:
    # what failed to be produced must leave ITS destination (input cart or <cart>_fmt) as it was
    for ow in (True, False):
        for ext1 in ('.p8', '.p8.png'):
            good = os.path.join(ctx.tmp, 'multi_good_%d%s' % (ow, ext1))
            gfile.to_file(U.make_game(rng=rng, code=b'x=1\n', version=8), good)
            bad = os.path.join(ctx.tmp, 'multi_bad_%d%s.p8' % (ow, ext1.replace('.', '_')))
            open(bad, 'wb').write(data)                       # `a=b=c`
            bad_dest = bad if ow else bad[:-3] + '_fmt.p8'
            for existed in ((True,) if ow else (True, False)):
                if not ow:
                    if existed:
                        open(bad_dest, 'wb').write(b'PREVIOUS OUTPUT')
                    elif os.path.exists(bad_dest):
                        os.remove(bad_dest)
                before = snapshot(bad_dest)
                with U.quiet(), contextlib.redirect_stdout(io.StringIO()), contextlib.redirect_stderr(io.StringIO()):
                    try:
                        outcome = 'rc%s' % tool.main(['-q', 'luafmt'] + (['--overwrite'] if ow else []) + [good, bad])
                    except BaseException as e:
                        outcome = 'raised ' + type(e).__name__
                res.evaluations += 1
                res.count('cli-multi-file')
                res.nontrivial.add(('cli-multi', ow, ext1, existed))
                if outcome != 'rc0' and snapshot(bad_dest) != before:
                    res.fail('C11:cli-multi:%s:%s:%s' % (ow, ext1, existed),
                             'p8tool luafmt%s %s %s: the second cart failed (%s) and its destination %s was %s' % (
                                 ' --overwrite' if ow else '', os.path.basename(good), os.path.basename(bad), outcome, os.path.basename(bad_dest),
                                 'removed' if snapshot(bad_dest) is None else 'changed'),
                             {'overwrite': ow, 'first_cart': ext1, 'dest_existed': existed})
    # the command-line loop as a whole (Model `processGameFiles`): random command lines of 1-4 carts — readable or not, formattable or not,
    # .p8 / .p8.png, with and without --overwrite, with and without earlier outputs — and the resulting set of files compared with the model
    cl_lines, cl_cases = [], []
    for trial in range(ctx.budget(24, 200)):
        d = os.path.join(ctx.tmp, 'cl%d' % trial)
        os.makedirs(d, exist_ok=True)
        ow = rng.random() < 0.5 or trial < 8
        carts, store0, names, owner = [], {}, [], {}
        for k in range(rng.randrange(1, 5) if trial >= 8 else 1 + trial // 6):
            png = rng.random() < 0.4 and trial >= 8
            kind = rng.choice(['good', 'good', 'bad-code', 'missing', 'garbage', 'not-a-cart']) if trial >= 8 else ['bad-code', 'good'][(trial + k) % 2]
            if png and kind == 'bad-code':
                kind = 'good'        # (a .p8.png is loaded through the parser already: unparseable code makes it unloadable, see 'garbage')
            nm = 'c%d%s' % (k, '.p8.png' if png else '.p8')
            pth = os.path.join(d, nm)
            if kind == 'not-a-cart':
                # an argument whose name is not a cart name (it may or may not exist): reported and passed over, nothing written, and
                # the carts after it keep their own output names
                nm = 'n%d%s' % (k, rng.choice(['.txt', '.lua', '.p8.bak', '.P8', '.png', '', '.p8.png.old', '.p8x']))
                pth = os.path.join(d, nm)
                if rng.random() < 0.7:
                    open(pth, 'wb').write(b'notes %d\n' % k)
                    store0[nm] = open(pth, 'rb').read()
                carts.append('%s,0,1,r:ff' % nm)
                names.append(pth)
                continue
            if kind in ('good', 'bad-code'):
                gfile.to_file(U.make_game(rng=rng, code=b'x=%d\n' % k, version=8), pth)
                if kind == 'bad-code':
                    good_bytes = open(pth, 'rb').read()
                    open(pth, 'wb').write(good_bytes.replace(b'x=%d\n' % k, b'a=b=c\n'))
            elif kind == 'garbage':
                open(pth, 'wb').write(b'this is not a cart\n')
            loads = kind in ('good', 'bad-code')
            if os.path.exists(pth):
                store0[nm] = open(pth, 'rb').read()
            outn = nm if (ow and not png) else nm[:-(7 if png else 3)] + ('_fmt.p8.png' if png else '_fmt.p8')
            if outn != nm and rng.random() < 0.4:
                if png:
                    gfile.to_file(U.make_game(rng=rng, code=b'old=1\n', version=8), os.path.join(d, outn))      # (a valid picture: it is the label source)
                else:
                    open(os.path.join(d, outn), 'wb').write(b'EARLIER OUTPUT %d' % k)
                store0[outn] = open(os.path.join(d, outn), 'rb').read()
            if outn == nm and (trial < 8 or rng.random() < 0.5):
                # with --overwrite the cart itself is the destination; the name the command would use WITHOUT --overwrite may exist all
                # the same (an earlier run left it): a bystander, no destination of this command
                by = nm[:-3] + '_fmt.p8'
                open(os.path.join(d, by), 'wb').write(b'EARLIER OUTPUT OF ANOTHER RUN %d' % k)
                store0[by] = open(os.path.join(d, by), 'rb').read()
            # (a missing file is not one of the load errors the loop reports and skips: the exception ends the command, like a failed write)
            carts.append('%s,%d,%d,%s' % (nm, 1 if png else 0, 1 if (loads or kind == 'missing') else 0, 'x' if kind in ('bad-code', 'missing') else 'r:ff'))
            if kind == 'good':
                owner[outn] = k
            names.append(pth)
        tags = {n: '%02x' % (i + 1) for i, n in enumerate(sorted(store0))}
        cl_lines.append('pgf %d %s %s' % (1 if ow else 0, ';'.join(carts), ';'.join('%s=%s' % (n, tags[n]) for n in sorted(store0)) or '.'))
        with U.quiet(), contextlib.redirect_stdout(io.StringIO()), contextlib.redirect_stderr(io.StringIO()):
            try:
                outcome = 'rc%s' % tool.main(['-q', 'luafmt'] + (['--overwrite'] if ow else []) + names)
            except BaseException as e:
                outcome = 'raised'
        after = {n: open(os.path.join(d, n), 'rb').read() for n in sorted(os.listdir(d))}
        cl_cases.append((trial, ow, carts, store0, tags, outcome, after, owner, d))
        res.evaluations += 1
        res.count('command-lines')
        res.nontrivial.add(('cl', trial, ow, tuple(carts)))
    if ctx.model.available and cl_lines:
        for (trial, ow, carts, store0, tags, outcome, after, owner, d), m in zip(cl_cases, ctx.model.run(cl_lines)):
            key = 'C11:command-line:%d' % trial
            inp = {'overwrite': ow, 'carts': carts, 'files_before': sorted(store0)}
            parts = m.split(' ')
            if len(parts) < 3 or parts[0] != 'ok':
                res.diff({'op': 'pgf', 'trial': trial}, outcome, m[:100])
                continue
            want = dict(e.split('=') for e in parts[2].split(';')) if parts[2] != '.' else {}
            if parts[1] != outcome:
                res.diff({'op': 'pgf', 'trial': trial, 'carts': carts, 'overwrite': ow}, outcome, parts[1])
            for n in sorted(set(want) | set(after) | set(store0)):
                w_ = want.get(n)
                if n in store0 and (n not in after):
                    res.fail(key, 'the command removed %s' % n, inp)
                elif w_ is None and n in after:
                    res.fail(key, 'the command created %s, which the model does not' % n, inp)
                elif w_ is not None and n not in after:
                    res.fail(key, 'the command did not leave %s in place' % n, inp)
                elif w_ is not None and n in store0 and w_ == tags[n] and after[n] != store0[n]:
                    res.fail(key, '%s was changed although its cart failed or was not processed (%s)' % (n, outcome), inp)
                elif w_ == 'ff' and n in store0 and after[n] == store0[n] and not n.endswith(('_fmt.p8', '_fmt.p8.png')) is False:
                    res.fail(key, '%s should have been rewritten (%s) but still holds its earlier content' % (n, outcome), inp)
                elif w_ == 'ff' and n in owner:
                    # what was written under a cart's output name is that cart's code, formatted (not another cart's)
                    try:
                        code_ = b''.join(gfile.from_file(os.path.join(d, n)).lua.to_lines())
                    except Exception as e:
                        code_ = b'unreadable: ' + repr(e).encode()
                    if code_.replace(b' ', b'').strip() != b'x=%d' % owner[n]:
                        res.fail(key, '%s does not hold the formatted code of its own cart (x=%d) but %r' % (n, owner[n], code_[:60]), inp)
    # model trace shape (Lean `toFile`) is compared structurally above: [exists, (read label)], temp writes, seek, open, write


def replay(ctx, rep, res):
    run(ctx, res)
    return not res.failures and not res.diffs
