"""C20 — #include splices exactly the named file or cart tab: real loads vs the include model vs the generator's expectation."""
import io
import os

from common import hx, unhx
import implutil as U
import incutil as I

ASSUMPTIONS = ['cart file names are absolute; include targets are regular files; included carts are loaded by the real readers (C03/C04)',
               'the including cart stays lexable after the splice (targets are generated Lua)']
TRUSTED_EXTRA = ['modelled by hand: INCLUDE_LINE_RE matching, lines_for_tab, process_includes (p8.py) as Model/Include.lean; os.path as Base/Path.lean']


def lines_of(data):
    parts = data.split(b'\n')
    out = [p + b'\n' for p in parts[:-1]]
    if parts[-1]:
        out.append(parts[-1])
    return out


def tab_split(code_lines):
    tabs, cur = [], []
    for l in code_lines:
        if l.startswith(b'-->8'):
            tabs.append(cur)
            cur = []
        else:
            cur.append(l)
    tabs.append(cur)
    return tabs


def make_world(ctx, rng, n):
    """A cart directory with include targets of the three kinds; returns (root dir, targets)."""
    from pico8.game import file as gfile
    root = os.path.join(ctx.tmp, 'w%d' % n, 'proj')
    targets = {}
    for i in range(rng.randrange(1, 4)):
        sub = rng.choice(['', 'lib/', 'a/b/', 'x.p8/', 'v1.lua/'])
        name = '%sinc%d.lua' % (sub, i)
        if rng.random() < 0.35:
            # names with an extension-like piece before the real extension (game.p8.lua next to game.p8, vec.lua.lua, a.p8.png.lua): the
            # target is the WHOLE name; files named like the shorter prefix stand next to them and must not be taken instead
            name = '%s%s%d%s.lua' % (sub, rng.choice(['game', 'vec']), i, rng.choice(['.p8', '.lua', '.p8.png', '.lua.p8']))
            for shorter in {name[:-4], name[:name.rindex('.', 0, len(name) - 4)] if '.' in name[:-4] else name[:-4]}:
                if shorter.endswith(('.lua', '.p8')) and not os.path.exists(os.path.join(root, shorter)):
                    if shorter.endswith('.lua'):
                        I.write(os.path.join(root, shorter), b'decoy_shorter_name=1\n')
                    else:
                        try:
                            os.makedirs(os.path.dirname(os.path.join(root, shorter)), exist_ok=True)
                            gfile.to_file(U.make_game(rng=rng, code=b'decoy_shorter_cart=1\n', version=8), os.path.join(root, shorter))
                        except Exception:
                            pass
        body = b''.join(b'i%d_%d=%d\n' % (i, j, j) for j in range(rng.randrange(0, 4)))
        if rng.random() < 0.4:
            # bytes some text APIs take for line ends but a Lua file does not: a lone CR, FF, VT inside a long string / a comment
            body += rng.choice([b's%d=[[a\rb]]\n', b'-- c%d\rd\n', b't%d=[[x\x0cy\x0bz]]\n', b'u%d="v"\r\nw=1\n']) % i
        if rng.random() < 0.5:
            body += b'last%d=1' % i        # no final newline
        I.write(os.path.join(root, name), body)
        targets[name] = ('lua', lines_of(body))
    for i, ext in enumerate(['.p8', '.p8.png', '.p8', '.p8.png']):
        sub = rng.choice(['', 'carts/'])
        name = '%sc%d%s' % (sub, i, ext)
        if i >= 2:
            # targets that share directory and stem with another target and differ only in the extension (lib.lua / lib.p8 / lib.p8.png)
            stem = rng.choice([k for k in targets if k.endswith('.lua')])[:-4]
            name = stem + ext
            if name in targets or rng.random() < 0.4:
                continue
        ntabs = rng.choice([1, 2, 3, 1, 2, 3, 11, 13, 22])     # also carts with two-digit tab numbers
        # (a tab separator is a line that STARTS with -->8; the same text later in a line is ordinary code/comment)
        decoy = rng.choice([b'', b'', b'\nx=1 -->8', b'\nprint("-->8")', b'\n -->8 indented', b'\n--->8', b'\ny=2 -- -->8 not a tab'])
        # ordinary code in the tabs: brackets, strings and comments that contain bracket pairs, long strings (none of it is a tab cut)
        filler = [b'', b'', b'\ncell=grid[pos[1]][pos[2]]', b'\nt[u[1]]=2', b'\ns="[["', b'\n-- ]] x', b'\nx=[[a\nb]]', b'\n--[[ c\nd ]]',
                  b'\nif (a) b=1', b'\nq={{1},{2}}', b'\nw="]]" .. \'[[\'']
        code = b'\n-->8\n'.join(b'-- tab %d of %d\nt%d_%d=1' % (t, i, i, t) + rng.choice(filler) + (decoy if t % 2 == 0 else b'') for t in range(ntabs))
        code += rng.choice([b'\n', b''])
        if rng.random() < 0.3:
            code = b'#include nested.lua\n' + code      # includes inside included carts are not expanded
        g = U.make_game(rng=rng, code=code, version=8)
        os.makedirs(os.path.dirname(os.path.join(root, name)), exist_ok=True)
        gfile.to_file(g, os.path.join(root, name))
        code_lines = list(load_noinc(os.path.join(root, name)).lua.to_lines()) if ext == '.p8.png' else None
        targets[name] = ('cart', code_lines, ntabs)
    return root, targets


def load(path):
    from pico8.game import file as gfile
    return gfile.from_file(path)


def load_noinc(path):
    """Load an include target the way process_includes must: without expanding its own #include lines."""
    from pico8.game.formatter.p8 import P8Formatter
    from pico8.game.formatter.p8png import P8PNGFormatter
    fmt = P8PNGFormatter if path.endswith('.p8.png') else P8Formatter
    with open(path, 'rb') as fh:
        if fmt is P8Formatter:
            return fmt.from_file(fh, filename=path, do_includes=False)
        return fmt.from_file(fh, filename=path)


def tab_of(m):
    """the tab selector of a recognised include line, as the implementation's own regular expression captured it"""
    try:
        t = m.group(3)
        if not t:
            return 'n'
        return int(t[1:]) if t.startswith(b':') else int(t)
    except Exception as e:
        return 'impl-error:%s' % type(e).__name__

def run(ctx, res):
    rng = ctx.rng
    from pico8.game import file as gfile
    from pico8.game.formatter import p8
    res.rule = ('carts with 0-5 #include lines at first/middle/last positions; .lua, .p8, .p8.png targets in the cart directory and '
                'subdirectories; carts with 1-22 tabs; tab selectors 0..tabs+1 and multi-digit ones; included code with and without final newline; nested #include inside an included '
                'cart; missing targets; expected code computed by the generator; also INCLUDE_LINE_RE and lines_for_tab directly '
                'against the model; distinct non-trivial = distinct (target kind, selector class, position class, final-newline?)')
    lines, expect, cases = [], [], []
    for n in range(ctx.budget(40, 600)):
        root, targets = make_world(ctx, rng, n)
        # cart code with include lines
        plain = [b'a%d=1\n' % k for k in range(rng.randrange(0, 4))]
        code_lines, want = [], []
        npos = rng.randrange(0, 6)
        slots = sorted(rng.sample(range(len(plain) + npos + 1), min(npos, len(plain) + npos)))
        k = 0
        names = sorted(targets)
        total = len(plain) + npos
        pi = 0
        for pos in range(total):
            if pos in slots:
                name = rng.choice(names)
                t = targets[name]
                sel = None
                if t[0] == 'cart' and rng.random() < 0.7:
                    sel = rng.randrange(0, t[2] + 2)
                    if rng.random() < 0.25:
                        sel = rng.choice([10, 11, 12, 20, 21, 100, 101])      # multi-digit selectors, inside and beyond
                line = rng.choice([b'', b'  ', b'\t']) + b'#include' + rng.choice([b' ', b'  ', b'\t']) + name.encode() + (b':%d' % sel if sel is not None else b'')
                line += rng.choice([b'\n', b' \n', b'  -- note\n'])
                code_lines.append(line)
                if t[0] == 'lua':
                    exp = [l if l.endswith(b'\n') else l + b'\n' for l in t[1]]
                    kind = ('lua', t[1][-1].endswith(b'\n') if t[1] else True)
                else:
                    cl = t[1] if t[1] is not None else list(load_noinc(os.path.join(root, name)).lua.to_lines())
                    if sel is None:
                        exp = cl
                    else:
                        tabs = tab_split(cl)
                        exp = tabs[sel] if sel < len(tabs) else []
                    exp = [l if l.endswith(b'\n') else l + b'\n' for l in exp]
                    kind = ('cart' + os.path.splitext(name)[1], 'all' if sel is None else ('in' if sel < t[2] else 'beyond'))
                want += exp
                res.nontrivial.add(kind + ('first' if pos == 0 else 'last' if pos == total - 1 else 'mid',))
                res.count('include:' + kind[0])
            else:
                if pi < len(plain):
                    code_lines.append(plain[pi])
                    want.append(plain[pi])
                    pi += 1
        cart = os.path.join(root, 'main.p8')
        g = U.make_game(rng=rng, code=b'x=1\n', version=8)
        os.makedirs(root, exist_ok=True)
        gfile.to_file(g, cart)
        data = open(cart, 'rb').read().replace(b'__lua__\nx=1\n', b'__lua__\n' + b''.join(code_lines))
        I.write(cart, data)
        res.evaluations += 1
        key = 'C20:%d:%s' % (n, hx(b''.join(code_lines))[:60])
        inp = {'cart_code': hx(b''.join(code_lines)), 'targets': {k: (v[0]) for k, v in targets.items()}}
        try:
            got = list(load(cart).lua.to_lines())
        except Exception as e:
            res.fail(key, 'loading a cart with valid #include lines raised %r' % (e,), inp)
            continue
        if b''.join(got) != b''.join(want):
            res.fail(key, 'code after #include processing differs from "each include line replaced by the lines of its target"', inp,
                     observed=hx(b''.join(got))[:300], expected=hx(b''.join(want))[:300])
        # model decisions for every line
        for l in code_lines:
            lines.append('incline %s %s %s' % (I.hp(root), I.hp(root), hx(l)))
            m = p8.INCLUDE_LINE_RE.match(l)
            if not m:
                expect.append('pass')
            else:
                full = os.path.abspath(os.path.normpath(os.path.join(root, (m.group(1) + m.group(2)).decode())))
                expect.append('want %s %s %s' % (I.hp(full), hx(m.group(2)), tab_of(m)))
            cases.append({'op': 'incline', 'line': hx(l)})
        if n == 0:
            res.sample({'cart_code': repr(b''.join(code_lines)[:200]), 'loaded_code': repr(b''.join(got)[:200])})
    # missing target
    root = os.path.join(ctx.tmp, 'missing')
    cart = os.path.join(root, 'm.p8')
    g = U.make_game(rng=rng, code=b'x=1\n', version=8)
    os.makedirs(root, exist_ok=True)
    gfile.to_file(g, cart)
    I.write(cart, open(cart, 'rb').read().replace(b'x=1\n', b'#include nothere.lua\nx=1\n'))
    res.evaluations += 1
    try:
        load(cart)
        res.fail('C20:missing-target', 'a missing #include target did not fail the load', {})
    except Exception:
        pass
    # recogniser + tab selection directly
    words = [b'#include', b' ', b'\t', b'a', b'a.lua', b'b.p8', b'c.p8.png', b'.lua', b'.p8', b':', b'1', b':12', b'x y', b'-- c', b'/', b'..', b'.luax', b'#inc']
    for it in range(ctx.budget(1500, 30000)):
        if it % 2:
            l = b''.join(rng.choice(words) for _ in range(rng.randrange(1, 7))) + rng.choice([b'\n', b''])
        else:
            # mostly-valid include lines, one random part mangled now and then
            parts = [rng.choice([b'', b' ', b'\t ', b'x']), b'#include', rng.choice([b' ', b'\t', b'  ', b'']),
                     rng.choice([b'a', b'lib/a', b'a.b', b'../a', b'a:1', b'']), rng.choice([b'.lua', b'.p8', b'.p8.png', b'.txt', b'.lua.p8', b'']),
                     rng.choice([b'', b'', b':0', b':1', b':7', b':10', b':12', b':123', b':007', b':', b':x', b':1x', b': 1', b':1:2']),
                     rng.choice([b'', b' ', b' -- c', b'x']), rng.choice([b'\n', b''])]
            if rng.random() < 0.2:
                parts[rng.randrange(len(parts))] = rng.choice(words)
            l = b''.join(parts)
        m = p8.INCLUDE_LINE_RE.match(l)
        lines.append('matchinc ' + hx(l))
        expect.append('none' if not m else 'ok %s %s %s' % (hx(m.group(1)), hx(m.group(2)), tab_of(m)))
        cases.append({'op': 'matchinc', 'line': hx(l)})
        res.evaluations += 1
    for _ in range(ctx.budget(300, 5000)):
        cl = [rng.choice([b'-->8\n', b'-->8 x\n', b'a=1\n', b'-- >8\n', b'\n', b'b=2', b'x=1 -->8\n', b' -->8\n', b'"-->8"\n', b'--->8\n',
                         b't[u[1]]=2\n', b's="[["\n', b'x=[[a\n', b'b]]\n', b'-- ]]\n', b'--[[\n', b'g[p[1]][p[2]]=0\n']) for _ in range(rng.randrange(0, 8))]
        sel = rng.choice([None, 0, 1, 2, 5])
        got = [l if l.endswith(b'\n') else l + b'\n' for l in p8.lines_for_tab(iter(cl), sel)]
        lines.append('tabs %s %s' % ('n' if sel is None else sel, ':'.join(hx(x) for x in cl) if cl else '.'))
        expect.append('ok ' + (':'.join(hx(x) for x in got) if got else '.'))
        cases.append({'op': 'tabs', 'sel': sel})
        res.evaluations += 1
    if ctx.model.available:
        for c, e, g in zip(cases, expect, ctx.model.run(lines)):
            if e != g:
                res.diff(c, e[:200], g[:200])


def replay(ctx, rep, res):
    run(ctx, res)
    return not res.failures and not res.diffs
