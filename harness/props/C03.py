"""C03 — .p8 write/read round trip: correspondence (model vs P8Formatter) + direct round-trip oracle."""
import io

from common import hx, unhx
import implutil as U
import gen_code

ASSUMPTIONS = ['UTF-8 codec trusted; the model sees the file as Unicode code points',
               'the Lua layer is opaque to this model: code = concatenation of the lines the Lua writer yields / '
               'the lines handed to Lua.from_lines (C06/C07 cover that layer); sources with a line that reads as a '
               '__section__ header are outside the format (excluded as in the property)']
TRUSTED_EXTRA = ['modelled by hand: P8Formatter.to_file / from_file, _get_raw_data_from_p8_file (p8.py), section codecs']


def write_p8(g):
    from pico8.game.formatter.p8 import P8Formatter
    out = io.BytesIO()
    P8Formatter.to_file(g, out)
    return out.getvalue()


def read_p8(data):
    """Returns (game, lua_lines_as_passed_to_Lua.from_lines)."""
    from pico8.game.formatter import p8
    from pico8.lua import lua as lua_mod
    captured = []
    orig = lua_mod.Lua.from_lines

    def spy(lines, version):
        lines = list(lines)
        captured.append(b''.join(lines))
        return orig(lines, version=version)
    lua_mod.Lua.from_lines = staticmethod(spy)
    try:
        g = p8.P8Formatter.from_file(io.BytesIO(data), filename=None, do_includes=False)
    finally:
        lua_mod.Lua.from_lines = orig
    return g, (captured[-1] if captured else b'')


def code_of(g):
    return b''.join(g.lua.to_lines())


def cart_line(version, code, regs, label):
    return '%d %s %s %s %s %s %s %s' % (version, hx(code), hx(regs['gfx']), hx(regs['gff']), hx(regs['map']),
                                       hx(regs['sfx']), hx(regs['music']), hx(label) if label is not None else 'none')


def norm_music(m):
    return bytes(b & 127 if i % 4 == 3 else b for i, b in enumerate(m))


ENDINGS = [b'', b'\n', b'\r', b'\r\n', b'\n\r', b'\r\r', b' ', b'\t', b'\n\n', b' \r', b'\x0b', b'\x0c', b'\x85', b'\x1c']


def check_cart(ctx, res, code_src, regs, version, label, tag, batch):
    inp = {'code': hx(code_src), 'version': version, 'label': hx(label) if label is not None else None,
           'regions': {k: hx(v) for k, v in regs.items()}}
    key = 'C03:%s:%s' % (tag, hx(code_src)[:40] + ':' + str(version))
    try:
        g = U.make_game(regions=regs, code=code_src, version=version, label=label)
    except Exception:
        return  # generator produced unlexable code; not a case
    code1 = code_of(g)
    try:
        f1 = write_p8(g)
        g2, lines2 = read_p8(f1)
        f2 = write_p8(g2)
    except Exception as e:
        res.fail(key, 'write/read of a valid cart raised %r' % (e,), inp)
        return
    want_code = code1 if code1.endswith(b'\n') else code1 + b'\n'
    r2 = U.regions_of(g2)
    problems = []
    if code_of(g2) != want_code:
        problems.append('code')
    for n in ('gfx', 'gff', 'map', 'sfx'):
        if r2[n] != regs[n]:
            problems.append(n)
    if r2['music'] != norm_music(regs['music']):
        problems.append('music')
    if (g2.label is None) != (label is None) or (label is not None and bytes(g2.label._data) != label):
        problems.append('label')
    if g2.version != version:
        problems.append('version')
    if f2 != f1:
        problems.append('rewrite-not-identical')
    if problems:
        res.fail(key, '.p8 round trip does not preserve: %s' % ','.join(problems), inp)
    # correspondence: model writes the same bytes; model reads the same cart
    batch.append((('p8w ' + cart_line(version, code1, regs, label)), 'ok ' + hx(f1), {'op': 'p8w', 'code': hx(code1)[:60], 'version': version}))
    exp_read = 'ok ' + cart_line(version, lines2, r2, bytes(g2.label._data) if g2.label is not None else None)
    batch.append(('p8r ' + hx(f1), exp_read, {'op': 'p8r', 'code': hx(code1)[:60], 'version': version}))


def run(ctx, res):
    rng = ctx.rng
    res.rule = ('carts with random/structured region bytes (uniform, 0xff, zero, single-bit, ramp), labels present/absent, '
                'versions 0..2^31, code over all 256 P8SCII bytes in strings/comments/glyph identifiers, LF/CRLF, every kind of code ending (none, LF, bare CR, CRLF, LFCR, blanks, other line-break-like bytes), with/without '
                'final newline; each written and read by the implementation and by the Lean model; malformed files for the reader; '
                'write-edit-write histories (library edits between two writes); distinct non-trivial = distinct (code, version, label?, region style) with non-empty code or non-zero regions')
    batch = []
    n = ctx.budget(40, 600)
    for i in range(n):
        regs = {nm: U.rand_bytes(rng, sz) for nm, sz in U.REGION_SIZES}
        if i % 4 == 1:
            # sound effects made of whole records that look unused (defaults with speed 16 / speed 1 / all zero) next to used ones:
            # a reader that treats "unused" records specially must still give back exactly these bytes
            regs['sfx'] = U.rand_bytes(rng, 0x1100, 'records')
        if i == 5:
            regs['sfx'] = (bytes(64) + b'\x00\x10\x00\x00') * 64          # every record — the first too — at speed 16
        if i == 9:
            regs['sfx'] = (bytes(64) + b'\x00\x01\x00\x00') * 64          # every record at speed 1
        version = rng.choice([0, 1, 8, 33, 41, 255, 256, 2 ** 31 - 1, rng.randrange(1, 60)])
        label = U.rand_bytes(rng, 0x2000) if rng.random() < 0.4 else None
        if i == 0:
            code = b''
        elif i == 1:
            code = b'x="' + bytes(b for b in range(256) if b not in (0x22, 0x5c, 0x0a)) + b'"'
        elif i == 2:
            code = b'--' + bytes(b for b in range(256) if b != 0x0a) + b'\nx=1'
        elif 3 <= i < 3 + len(ENDINGS):
            # how the code ends decides whether the writer must add the line feed that separates it from `__gfx__`
            code = rng.choice([b'x=1', b'-- done', b'x="s"', b'y=2\nx=1']) + ENDINGS[i - 3]
        elif i % 4 == 3:
            # text lines inside strings / comments that begin like (or, in glyphs, look like) something the format gives a meaning to
            import gen_lua
            looks = gen_lua.lookalike_programs()
            code = looks[0 if i < 24 else (i * 13) % len(looks)] + rng.choice([b'', gen_code.gen_code(rng)])
        else:
            code = gen_code.gen_code(rng, crlf=(rng.random() < 0.15))
        check_cart(ctx, res, code, regs, version, label, 'cart', batch)
        res.evaluations += 1
        res.nontrivial.add((code, version, label is not None))
        res.count('label' if label is not None else 'nolabel')
        res.count('code_empty' if not code else 'code_nonempty')
        if i in (1, 5):
            res.sample({'code': repr(code[:60]), 'version': version, 'label': label is not None})
    # histories: write, edit the cart through the library (C17's operations), write again — the second file must hold the edited
    # cart (no state from the first write may survive), and a third write must equal the second
    from props import C17
    for h in range(ctx.budget(6, 80)):
        regs = {nm: U.rand_bytes(rng, sz) for nm, sz in U.REGION_SIZES}
        g = U.make_game(regions=regs, code=b'x=%d\n' % h, version=8)
        f1 = write_p8(g)
        ops = []
        for _ in range(rng.randrange(1, 8)):
            op = C17.gen_op(rng)
            try:
                C17.apply_impl(g, op)
                ops.append(op)
            except Exception:
                pass
        want = U.regions_of(g)
        f2 = write_p8(g)
        res.evaluations += 1
        res.count('write-edit-write')
        res.nontrivial.add(('history', h, len(ops)))
        key = 'C03:history:%d' % h
        inp = {'regions': {k: hx(v) for k, v in regs.items()}, 'ops': [repr(o)[:200] for o in ops]}
        try:
            g2, _ = read_p8(f2)
            got = U.regions_of(g2)
        except Exception as e:
            res.fail(key, 'a cart written after library edits cannot be read back (%r)' % (e,), inp)
            continue
        want_n = dict(want)
        want_n['music'] = bytes(b & 127 if i % 4 == 3 else b for i, b in enumerate(want['music']))
        got['music'] = bytes(b & 127 if i % 4 == 3 else b for i, b in enumerate(got['music']))
        bad = [nm for nm in want_n if want_n[nm] != got[nm]]
        if bad:
            res.fail(key, 'write, edit, write: the second file does not hold the edited %s (stale data from the first write?)' % bad, inp)
        elif write_p8(g) != f2:
            res.fail(key, 'writing the same cart a third time gives a different file', inp)
    # the same file name holding, one after the other, different carts of exactly the same size (only data digits differ): what is read
    # is what the file holds now
    import os
    from pico8.game import file as gfile_
    pth = os.path.join(ctx.tmp, 'same_name.p8')
    for h in range(ctx.budget(6, 60)):
        regs = {nm: U.rand_bytes(rng, sz, 'uniform') for nm, sz in U.REGION_SIZES}
        g = U.make_game(regions=regs, code=b'x=%03d\n' % (h % 7), version=8)
        gfile_.to_file(g, pth)
        res.evaluations += 1
        res.count('same-name-rewrites')
        res.nontrivial.add(('same-name', h))
        try:
            back = gfile_.from_file(pth)
            got = U.regions_of(back)
            code_back = b''.join(back.lua.to_lines())
        except Exception as e:
            res.fail('C03:same-name:%d' % h, 'a cart written over another of the same size cannot be read (%r)' % (e,), {'step': h})
            continue
        want = dict(regs)
        want['music'] = bytes(b & 127 if i % 4 == 3 else b for i, b in enumerate(regs['music']))
        got['music'] = bytes(b & 127 if i % 4 == 3 else b for i, b in enumerate(got['music']))
        if got != want or code_back != b'x=%03d\n' % (h % 7):
            res.fail('C03:same-name:%d' % h, 'reading %s after it was rewritten with another cart of the same size returns %s' % (
                os.path.basename(pth), 'the earlier cart' if h else 'something else than was written'), {'step': h, 'file_size': os.path.getsize(pth)})
    # reader on malformed / unusual files: model vs implementation
    good = write_p8(U.make_game(rng=rng, code=b'x=1\n', version=8))
    variants = [
        good.replace(b'pico-8 cartridge', b'pico-9 cartridge', 1),
        good.replace(b'version 8\n', b'version x\n', 1),
        good.replace(b'version 8\n', b'version 8 \n', 1),
        good.replace(b'__gff__', b'__bogus__', 1),
        good.replace(b'__gfx__\n', b'__gfx__\n__gfx__\n', 1),
        good[:good.index(b'__gff__')],
        good.replace(b'__lua__\nx=1\n', b'__lua__\nx=1\n__lua__\ny=2\n', 1),
        b'',
        good.split(b'\n', 1)[0] + b'\n',
        good.replace(b'__map__', b'__map_', 1),
        good.replace(b'__sfx__\n', b'__sfx__\nzz\n', 1),
        good.replace(b'x=1\n', 'x="█あ"\n'.encode('utf-8'), 1),
        good.replace(b'x=1\n', 'x="é"\n'.encode('utf-8'), 1),
    ]
    for v in variants:
        try:
            g2, lines2 = read_p8(v)
            r2 = U.regions_of(g2)
            exp = 'ok ' + cart_line(g2.version, lines2, r2, bytes(g2.label._data) if g2.label is not None else None)
        except Exception as e:
            exp = 'err'
        batch.append(('p8r ' + hx(v), exp, {'op': 'p8r-malformed', 'file': hx(v)[:80]}))
        res.evaluations += 1
        res.count('reader_variants')
    if ctx.model.available:
        mo = ctx.model.run([b[0] for b in batch])
        for (line, exp, case), got in zip(batch, mo):
            if exp == 'err':
                ok = got.startswith('err')
            else:
                ok = (got == exp)
            if not ok:
                res.diff(case, exp[:120], got[:120])


def replay(ctx, rep, res):
    inp = rep.get('input') or {}
    if 'regions' in inp:
        regs = {k: unhx(v) for k, v in inp['regions'].items()}
        check_cart(ctx, res, unhx(inp['code']), regs, inp['version'], unhx(inp['label']) if inp.get('label') else None, 'cart', [])
        return not res.failures
    run(ctx, res)
    return not res.failures and not res.diffs
