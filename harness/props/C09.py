"""C09 — luafmt changes only whitespace, works on every valid program, never drops code."""
import contextlib
import io
import os

from common import hx
import implutil as U
import lexutil as L
import minutil as M
import fmtutil as F
import gen_lua
from props import C08

ASSUMPTIONS = ['string literals are written with TokString.code (C06): their spelling may change to an equivalent one, so strings are compared '
               'by decoded value and quote kind, every other token by exact text; comments up to whitespace inside them',
               'valid program = program of the dialect generator (statements never start with a parenthesis)']
TRUSTED_EXTRA = ['modelled by hand: LuaASTEchoWriter walk handlers as indent assignment over the concrete tree + run renderer, '
                 'LuaFormatterWriter._get_code_for_spaces regex pipeline (Model/AstWriters.lean); parser model of C08']
PARTIAL = ('C09: the writers succeed exactly when the parser consumed the whole program (theorem writer_succeeds_iff) and then write every token '
           '(whole_output); what stays correspondence-tested is that the parser accepts every program of the dialect (C08)')
WS = b' \t\r\n'


def strip_ws(b):
    return bytes(c for c in b if c not in WS)


def compare_tokens(res, key, inp, a, b, what):
    sa, sb = M.sig(a), M.sig(b)
    if len(sa) != len(sb):
        res.fail(key, '%s: %d significant tokens in, %d out (code dropped, added or fused)' % (what, len(sa), len(sb)), inp)
        return False
    for x, y in zip(sa, sb):
        if (x[0], x[1], x[4][:1]) != (y[0], y[1], y[4][:1]):
            res.fail(key, '%s: token %r became %r' % (what, (x[0], x[1]), (y[0], y[1])), inp)
            return False
    ca = [strip_ws(t[1]) for t in a if t[0] == 'comment']
    cb = [strip_ws(t[1]) for t in b if t[0] == 'comment']
    if ca != cb:
        res.fail(key, '%s: comments changed beyond whitespace: %r -> %r' % (what, ca[:3], cb[:3]), inp)
        return False
    if M.gaps_have_newline(a) != M.gaps_have_newline(b):
        res.fail(key, '%s: a line break between two tokens was added or removed (short-if body / end-of-line comment changes extent)' % what, inp)
        return False
    return True


def run(ctx, res):
    rng = ctx.rng
    res.rule = ('dialect programs x random layouts x indent widths 0-8 through LuaFormatterWriter and LuaASTEchoWriter; malformed stream '
                '(token deleted/inserted/swapped, a |= 1, ?x,y, a=b=c) for the no-silent-loss clause; degenerate programs; CLI luafmt and '
                '--overwrite; real output re-lexed by the Lean Spec lexer; distinct non-trivial = distinct (statement kind) x width covered')
    cases = []
    for _ in range(ctx.budget(250, 8000)):
        src, items, feats = gen_lua.gen_program(rng)
        cases.append((src, rng.randrange(0, 9), 'valid', items))
        for k in feats:
            res.count('feat:' + k)
    for src, items in gen_lua.word_programs(rng):
        cases.append((src, rng.randrange(0, 9), 'valid', items))
    for s in (b'', b'\n', b'-- only\n', b'a=1', b'  a=1  ', b'--[[ x\n y ]]', b'if (a) b=1 else\nc=2\n', b'if (a) b=1 else', b'\n\n\n'):
        cases.append((s, 2, 'valid', None))
    for _ in range(ctx.budget(150, 5000)):
        cases.append((C08.mutate(rng, gen_lua.gen_program(rng, style='spaced')[0]), 2, 'malformed', None))
    # a valid program with one stray token at the very end / its last token deleted, with and without a final newline
    for _ in range(ctx.budget(40, 1500)):
        base = gen_lua.gen_program(rng, style=rng.choice(['spaced', 'lines', 'compact']))[0].rstrip(b' \t\r\n')
        # (one stray token of EVERY token class: symbol, keyword, name, number, string, label)
        extra = rng.choice([b')', b'end', b'?', b'=', b']', b'}', b',', b'then', b'..', b'1 2', b'|= 1', b'"s" "t"', b'[[x]] y', b'else', b'until x',
                            b'::lbl:: ::lbl2:: )', b'0x1 0x2', b'nil'])
        cases.append((base + rng.choice([b' ', b'\n']) + extra + rng.choice([b'', b'', b'\n']), 2, 'malformed', None))
    # long and deep valid programs (no limit is part of the dialect): the formatter handles them like any other
    for s_ in (b'if a then x=0\n' + b''.join(b'elseif a==%d then x=%d\n' % (k, k) for k in range(130)) + b'else x=-1 end\n',
               b''.join(b'if c%d then\n' % k for k in range(60)) + b'y=1\n' + b'end\n' * 60,
               b'q=' + b'(' * 80 + b'1' + b')' * 80 + b'\n', b'w=' + b'{' * 60 + b'}' * 60 + b'\n',
               b''.join(b'function f%d() ' % k for k in range(40)) + b'return 0 ' + b'end ' * 40 + b'\n',
               b''.join(b'a%d=%d\n' % (k, k) for k in range(800)), b'u=1' + b'+1' * 300 + b'\n'):
        cases.append((s_, rng.randrange(0, 5), 'valid', None))
    # code after a top-level `return` / `break` (whatever class its first token has — a label too) is not part of the program the parser
    # accepted: the formatter must not write the part before it as if that were all
    for s in (b'add(1)\nreturn\n::again::\nadd(2)\n', b'x=1\nbreak ::l:: y=2\n', b'return 1\n::l::\n', b'f()\nreturn\n"s"\n', b'return\n42\n',
              b'return\nx=1\n', b'return\n--[[c]]::l:: goto l\n', b'return nil\n[[long]]\n', b'a=1\nreturn a\nfunction f() end\n'):
        cases.append((s, 2, 'malformed', None))
    for s in (b'x = 1 )', b'x = 1 )\n', b'print(1)\nreturn 2\n?', b'function f()\n x = 1\nend\nend', b'a=1 end'):
        cases.append((s, 2, 'malformed', None))
    for s in (b'a=b=c\n', b'a |= 1\nb=2\n', b'?x,y\n', b'x = 1 +\n', b'f(\n', b'a=1 )\nb=2\n', b'end\n', b'(f or g)(x)\n', b'a=(b or c).d\n', b'a=("s"):rep(2)\n'):
        cases.append((s, 2, 'malformed', None))
    outs = []
    spec, model = [], []
    for src, w, tag, items in cases:
        r = {}
        for name in ('fmt', 'astecho'):
            try:
                r[name] = F.run_writer([src], name, {'indentwidth': w} if name == 'fmt' else None)
            except Exception as e:
                r[name] = e
        outs.append(r)
        res.evaluations += 1
        res.count(tag)
        spec += ['speclex ' + hx(src), 'speclex ' + (hx(r['fmt']) if isinstance(r['fmt'], bytes) else '-')]
        model += ['luafmt %d %s' % (w, L.chunks_arg([src])), 'astecho ' + L.chunks_arg([src])]
    res.sample({'source': repr(cases[2][0][:120]), 'luafmt': repr(outs[2]['fmt'][:120]) if isinstance(outs[2]['fmt'], bytes) else str(outs[2]['fmt'])})
    mo = ctx.model.run(spec + model) if ctx.model.available else None
    n = len(cases)
    for i, (src, w, tag, items) in enumerate(cases):
        r = outs[i]
        inp = {'source': hx(src), 'indentwidth': w}
        key = 'C09:%s:%s' % (tag, hx(src)[:60])
        fm, ae = r['fmt'], r['astecho']
        if mo is not None:
            for name, got, m in (('luafmt', fm, mo[2 * n + 2 * i]), ('astecho', ae, mo[2 * n + 2 * i + 1])):
                exp = 'ok ' + hx(got) if isinstance(got, bytes) else 'err'
                g = m if m.startswith('ok') else 'err'
                if exp != g and tag == 'malformed' and exp == 'err' and g.startswith('ok') and missing_condition(src):
                    # model gap, malformed input only: `if then` / `elseif then` (no condition) is parsed by the implementation into a
                    # pair (None, block) that its writers take for an `else` branch and then fail loudly (AssertionError);
                    # the model writes the tokens back.  Both are "no silent loss".
                    res.count('known-model-gap:missing-condition')
                    continue
                if exp != g and tag == 'malformed' and exp == 'err' and g.startswith('ok') and isinstance(got, BaseException) and type(got).__name__ in (
                        'AssertionError', 'AttributeError', 'TypeError', 'IndexError'):
                    # malformed input only: picotool's parser lets optional pieces be absent (`for = 1,2 do`, `{ ,a}`, `if then`) and builds
                    # trees its own writers then trip over (an assertion or attribute error: a loud failure), while the model writes the
                    # tokens back.  Both outcomes are "no silent loss"; which malformed programs the writers choke on is not modelled.
                    res.count('malformed:writer-crashes-model-writes')
                    continue
                if exp != g and tag == 'malformed' and exp == 'err' and g.startswith('ok') and leading_separator(src):
                    # model gap, malformed input only: a table constructor that starts with a separator (`{ ,a}`) is parsed by the
                    # implementation (its field loop accepts the separator first) but its writers then fail loudly (AssertionError);
                    # the model writes the tokens back.  Both are "no silent loss".
                    res.count('known-model-gap:leading-separator')
                    continue
                if exp != g and not (tag == 'malformed' and C08.empty_parens(src)):
                    if exp == 'err' and g.startswith('ok') and paren_prefix(src):
                        # defect 16 (known finding): the implementation's tree loses the parentheses of a prefix expression and its
                        # writers fail; the model's concrete tree keeps them
                        if name == 'luafmt':
                            res.fail('C09:paren-prefix-suffix', 'luafmt raised %r on a program with a parenthesised prefix expression' % (got,), inp)
                        continue
                    res.diff({'op': name, 'width': w, 'source': hx(src)}, exp[:160], m[:160])
        if tag == 'valid':
            if not isinstance(fm, bytes):
                st = L.impl_lex([src])[0]
                k2 = 'C09:paren-prefix-suffix' if paren_prefix(src) else key
                res.fail(k2, 'luafmt raised %r on a valid program' % (fm,), inp)
                continue
            if isinstance(ae, bytes) and mo is not None and mo[2 * i] != 'none':
                if L.strip_pos(mo[2 * i]) != L.strip_pos(ctx_spec(ctx, ae)):
                    res.fail(key, 'LuaASTEchoWriter changed the tokens of a valid program', inp)
            if items is not None:
                for s in gen_lua.expected_statements(items):
                    res.nontrivial.add((s[0], w))
        if isinstance(fm, bytes) and mo is not None:
            ss, so = mo[2 * i], mo[2 * i + 1]
            if ss == 'none':
                continue
            if so == 'none':
                res.fail(key, 'luafmt output does not lex', inp)
                continue
            ok = compare_tokens(res, key if tag == 'valid' else 'C09:silent-loss:' + hx(src)[:60], inp, M.parse_toks(ss), M.parse_toks(so),
                                'luafmt' if tag == 'valid' else 'luafmt on code picotool could not parse to its end wrote a different program instead of failing')
            if ok and tag == 'valid' and M.token_count([src]) != M.token_count([fm]):
                res.fail(key, 'token count changed by luafmt', inp)
    # CLI: luafmt and luafmt --overwrite
    # histories on one Lua object: render it with other writers / options first (token-free tree rendering, minifier, echo), then format:
    # the formatter's output is that of a freshly loaded object
    from pico8.lua import lua as lua_mod
    for h in range(ctx.budget(25, 400)):
        src = gen_lua.gen_program(rng)[0]
        w = rng.randrange(0, 6)
        try:
            want = F.luafmt(src, w)
            want_echo = F.run_writer([src], 'astecho', None)
        except Exception:
            continue
        res.evaluations += 1
        res.count('render-histories')
        l = lua_mod.Lua.from_lines([src], version=8)
        steps = []
        for _ in range(rng.randrange(1, 4)):
            kind = rng.choice(['astecho-ignore-tokens', 'minify', 'echo', 'fmt-other-width', 'astmin'])
            steps.append(kind)
            try:
                if kind == 'astecho-ignore-tokens':
                    list(l.to_lines(writer_cls=lua_mod.LuaASTEchoWriter, writer_args={'ignore_tokens': True}))
                elif kind == 'minify':
                    list(l.to_lines(writer_cls=lua_mod.LuaMinifyTokenWriter))
                elif kind == 'echo':
                    list(l.to_lines())
                elif kind == 'astmin':
                    list(l.to_lines(writer_cls=lua_mod.LuaMinifyWriter))
                else:
                    list(l.to_lines(writer_cls=lua_mod.LuaFormatterWriter, writer_args={'indentwidth': w + 3}))
            except Exception:
                pass            # (what these renderings produce is not this property's subject; they must not disturb the object)
        key = 'C09:history:%s' % hx(src)[:50]
        inp = {'source': hx(src), 'indentwidth': w, 'rendered_before': steps}
        try:
            got = b''.join(l.to_lines(writer_cls=lua_mod.LuaFormatterWriter, writer_args={'indentwidth': w}))
            got_echo = b''.join(l.to_lines(writer_cls=lua_mod.LuaASTEchoWriter))
        except Exception as e:
            res.fail(key, 'after rendering the same Lua object with %s, luafmt raised %r on a valid program' % (steps, e), inp)
            continue
        if got != want or got_echo != want_echo:
            res.fail(key, 'after rendering the same Lua object with %s, luafmt / the echo walk give a different text than on a fresh object' % steps, inp)
    from pico8 import tool
    from pico8.game import file as gfile
    cli_unparseable(ctx, res)
    for i in range(ctx.budget(5, 50)):
        src = gen_lua.gen_program(rng)[0]
        w = rng.randrange(0, 9)
        try:
            g = U.make_game(rng=rng, code=src, version=8)
        except Exception:
            continue
        cart = os.path.join(ctx.tmp, 'f%d.p8' % i)
        gfile.to_file(g, cart)
        cart2 = os.path.join(ctx.tmp, 'g%d.p8' % i)
        gfile.to_file(g, cart2)
        cli_exc = None
        with U.quiet(), contextlib.redirect_stdout(io.StringIO()), contextlib.redirect_stderr(io.StringIO()):
            try:
                tool.main(['-q', 'luafmt', '--indentwidth', str(w), cart])
                tool.main(['-q', 'luafmt', '--indentwidth', str(w), '--overwrite', cart2])
            except Exception as e:
                cli_exc = e
        if cli_exc is not None:
            res.fail('C09:cli:' + hx(src)[:60], 'p8tool luafmt raised %r on a valid program' % (cli_exc,), {'source': hx(src), 'indentwidth': w})
            continue
        res.evaluations += 1
        res.count('cli')
        try:
            want = F.luafmt(b''.join(g.lua.to_lines()), w)
        except Exception as e:
            res.fail('C09:cli:' + hx(src)[:60], 'luafmt raised %r on a valid program (cart code as stored)' % (e,), {'source': hx(src), 'indentwidth': w})
            continue
        for path, what in ((os.path.join(ctx.tmp, 'f%d_fmt.p8' % i), 'luafmt'), (cart2, 'luafmt --overwrite')):
            got = b''.join(gfile.from_file(path).lua.to_lines()) if os.path.exists(path) else None
            if got is None or got.rstrip(b'\n') != want.rstrip(b'\n'):
                res.fail('C09:cli:' + hx(src)[:60], 'p8tool %s did not write the formatter\'s output (wiring: indentwidth/overwrite)' % what,
                         {'source': hx(src), 'indentwidth': w})
    # several arguments on one command line, some of them not carts (passed over) or unreadable: every cart's output holds the formatted
    # code of THAT cart, under that cart's own output name
    for i in range(ctx.budget(4, 40)):
        d = os.path.join(ctx.tmp, 'multi%d' % i)
        os.makedirs(d, exist_ok=True)
        ow = i % 2 == 1
        argv, expect = [], []
        for k in range(rng.randrange(2, 6)):
            kind = rng.choice(['cart', 'cart', 'cart', 'not-a-cart', 'garbage'])
            if kind == 'not-a-cart':
                pth = os.path.join(d, 'n%d%s' % (k, rng.choice(['.txt', '.lua', '.p8.bak', ''])))
                open(pth, 'wb').write(b'x=0\n')
            elif kind == 'garbage':
                pth = os.path.join(d, 'z%d.p8' % k)
                open(pth, 'wb').write(b'not a cart\n')
            else:
                src = gen_lua.gen_program(rng)[0]
                try:
                    g = U.make_game(rng=rng, code=src, version=8)
                except Exception:
                    continue
                pth = os.path.join(d, 'c%d.p8' % k)
                gfile.to_file(g, pth)
                expect.append((pth if ow else pth[:-3] + '_fmt.p8', F.luafmt(b''.join(g.lua.to_lines()), 2), src))
            argv.append(pth)
        with U.quiet(), contextlib.redirect_stdout(io.StringIO()), contextlib.redirect_stderr(io.StringIO()):
            try:
                tool.main(['-q', 'luafmt'] + (['--overwrite'] if ow else []) + argv)
            except BaseException as e:
                res.fail('C09:cli-multi:%d' % i, 'p8tool luafmt raised %r on a command line of valid carts and skippable arguments' % (e,), {'argv': [os.path.basename(a) for a in argv]})
                continue
        res.evaluations += 1
        res.count('cli-multi')
        for outp, want, src in expect:
            got = b''.join(gfile.from_file(outp).lua.to_lines()) if os.path.exists(outp) else None
            if got is None or got.rstrip(b'\n') != want.rstrip(b'\n'):
                res.fail('C09:cli-multi:%d' % i, '%s does not hold the formatter\'s output for its own cart (command line: %s)' % (
                    os.path.basename(outp), ' '.join(os.path.basename(a) for a in argv)), {'argv': [os.path.basename(a) for a in argv], 'overwrite': ow, 'source': hx(src)})
                break
        extra = sorted(set(os.listdir(d)) - {os.path.basename(a) for a in argv} - {os.path.basename(o) for o, _, _ in expect})
        if extra:
            res.fail('C09:cli-multi:%d' % i, 'the command wrote files that belong to no cart on the command line: %s' % extra, {'argv': [os.path.basename(a) for a in argv], 'overwrite': ow})


def cli_unparseable(ctx, res):
    """`p8tool luafmt` on carts whose code the parser cannot finish: the command must fail and must not write a shortened program."""
    from pico8 import tool
    from pico8.game import file as gfile
    for i, code in enumerate((b'x=1\na=b=c\ny=2\n', b'x=1\ny = 2 3\nz=4\n', b'f()\n?x,y z\nw=1\n', b'a=1\nb |= 1\nc=3\n')):
        for overwrite in (False, True):
            cart = os.path.join(ctx.tmp, 'unp%d_%d.p8' % (i, overwrite))
            g = U.make_game(code=b'x=1\n', version=8)
            gfile.to_file(g, cart)
            data = open(cart, 'rb').read().replace(b'x=1\n', code)
            open(cart, 'wb').write(data)
            outp = cart if overwrite else cart[:-3] + '_fmt.p8'
            with U.quiet(), contextlib.redirect_stdout(io.StringIO()), contextlib.redirect_stderr(io.StringIO()):
                try:
                    rc = tool.main(['-q', 'luafmt'] + (['--overwrite'] if overwrite else []) + [cart])
                except BaseException as e:
                    rc = 'raised ' + type(e).__name__
            res.evaluations += 1
            res.count('cli-unparseable')
            key = 'C09:cli-unparseable:%d:%s' % (i, overwrite)
            inp = {'code': hx(code), 'overwrite': overwrite}
            try:
                lua_mod = __import__('pico8.lua.lua', fromlist=['x'])
                l = lua_mod.Lua.from_lines([code], version=8)
                b''.join(l.to_lines(writer_cls=lua_mod.LuaFormatterWriter, writer_args={'indentwidth': 2}))
                continue        # the library formatter accepts this code: not a case
            except Exception:
                pass
            written = open(outp, 'rb').read() if os.path.exists(outp) else None
            if rc == 0:
                res.fail(key, 'p8tool luafmt returned success on code it could not parse to its end', inp)
            elif overwrite and written != data:
                res.fail(key, 'p8tool luafmt --overwrite failed (%s) but changed its input cart' % rc, inp)
            elif not overwrite and written is not None:
                res.fail(key, 'p8tool luafmt failed (%s) but wrote %s (a shortened program?)' % (rc, os.path.basename(outp)), inp)


_spec_cache = {}


def ctx_spec(ctx, text):
    if text not in _spec_cache:
        _spec_cache[text] = ctx.model.run(['speclex ' + hx(text)])[0]
    return _spec_cache[text]


def leading_separator(src):
    """a `{` directly followed (up to trivia) by `,` or `;`"""
    toks = [t for t in (L.impl_lex([src])[1] or []) if type(t).__name__ not in ('TokSpace', 'TokNewline', 'TokComment')]
    for a, b in zip(toks, toks[1:]):
        if type(a).__name__ == 'TokSymbol' and a._data == b'{' and type(b).__name__ == 'TokSymbol' and b._data in (b',', b';'):
            return True
    return False


def missing_condition(src):
    """an `if`/`elseif` keyword directly followed (up to trivia) by `then` or `do`"""
    toks = [t for t in (L.impl_lex([src])[1] or []) if type(t).__name__ not in ('TokSpace', 'TokNewline', 'TokComment')]
    for a, b in zip(toks, toks[1:]):
        if type(a).__name__ == 'TokKeyword' and a._data in (b'if', b'elseif') and type(b).__name__ == 'TokKeyword' and b._data in (b'then', b'do'):
            return True
    return False


def paren_prefix(src):
    """known finding family: a parenthesised expression directly followed by a call/index/field/method suffix"""
    toks = [t for t in (L.impl_lex([src])[1] or []) if type(t).__name__ not in ('TokSpace', 'TokNewline', 'TokComment')]
    depth = []
    for i, t in enumerate(toks):
        if t._data == b'(' and type(t).__name__ == 'TokSymbol':
            prev = toks[i - 1] if i else None
            is_call = prev is not None and (type(prev).__name__ in ('TokName', 'TokString') or prev._data in (b')', b']', b'}'))
            depth.append(is_call)
        elif t._data == b')' and type(t).__name__ == 'TokSymbol' and depth:
            was_call = depth.pop()
            nxt = toks[i + 1] if i + 1 < len(toks) else None
            if not was_call and nxt is not None and (nxt._data in (b'(', b'[', b'.', b':', b'{') or type(nxt).__name__ == 'TokString'):
                return True
    return False


def replay(ctx, rep, res):
    run(ctx, res)
    return not res.failures and not res.diffs
