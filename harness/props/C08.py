"""C08 — parser: correspondence (grammar-as-data model vs parser.py: kinds, nesting, spans) + statement-extent oracle."""
from common import hx
import implutil as U
import lexutil as L
import gen_lua

ASSUMPTIONS = ['programs come from the dialect generator (statements never start with a parenthesis; short-if conditions are one parenthesised '
               'expression); acceptance of every dialect program is tested here, not proved']
TRUSTED_EXTRA = ['modelled by hand: Parser._accept/_expect/_assert and every _method of parser.py as grammar data for one generic interpreter '
                 '(Model/Peg.lean, Model/PicoGrammar.lean); Gen.binopPats/unopPats regenerated']
PARTIAL = 'C08: cover/spans/fence theorems are proved for every grammar and instantiated at picotool\'s; "every dialect program is accepted" is correspondence-tested only'


def ser(n):
    from pico8.lua import parser
    if isinstance(n, parser.Node):
        name = type(n).__name__
        if name == 'StatIf' and getattr(n, 'short_if', False):
            name = 'StatIfShort'
        s = '(%s %d %d' % (name, n.start_pos, n.end_pos)
        for f in n._fields:
            s += ser(getattr(n, f))
        return s + ')'
    if isinstance(n, (list, tuple)):
        return ''.join(ser(x) for x in n)
    return ''


def impl_parse(src):
    from pico8.lua import lexer, parser
    lx = lexer.Lexer(version=8)
    try:
        lx.process_lines([src])
    except Exception as e:
        return 'err ' + U.exc_kind(e), None, None
    toks = lx.tokens
    p = parser.Parser(version=8)
    try:
        p.process_tokens(toks)
    except Exception as e:
        return 'err ' + U.exc_kind(e), toks, None
    return 'ok ' + ser(p.root), toks, p.root


def statements(root, toks):
    """[(kind, first sig ordinal, last sig ordinal)] for every statement node, in order of their starts (outer first)."""
    from pico8.lua import parser, lexer
    sig = [i for i, t in enumerate(toks) if not isinstance(t, (lexer.TokSpace, lexer.TokNewline, lexer.TokComment))]
    ordinal = {i: k for k, i in enumerate(sig)}
    out = []

    def walk(n):
        if isinstance(n, parser.Node):
            name = type(n).__name__
            if name.startswith('Stat'):
                if name == 'StatIf' and getattr(n, 'short_if', False):
                    name = 'StatIfShort'
                inside = [i for i in sig if n.start_pos <= i < n.end_pos]
                out.append((name, ordinal[inside[0]] if inside else -1, ordinal[inside[-1]] if inside else -1))
            for f in n._fields:
                walk(getattr(n, f))
        elif isinstance(n, (list, tuple)):
            for x in n:
                walk(x)
    walk(root)
    return out, len(sig)


def check_program(res, src, items, batch, tag):
    out, toks, root = impl_parse(src)
    key = 'C08:%s:%s' % (tag, hx(src)[:60])
    inp = {'source': hx(src)}
    res.evaluations += 1
    if items is not None:
        if root is None:
            res.fail(key, 'a program of the dialect is rejected (%s)' % out, inp)
            batch.append(('parse ' + L.chunks_arg([src]), out, {'op': 'parse', 'source': hx(src)}))
            return
        got, nsig = statements(root, toks)
        want = gen_lua.expected_statements(items)
        if nsig != len(items):
            return   # generator/lexer disagreement on token boundaries: C07's subject
        last_sig = max(i for i, t in enumerate(toks) if type(t).__name__ not in ('TokSpace', 'TokNewline', 'TokComment')) if nsig else -1
        if root.end_pos < last_sig + 1:
            res.fail(key, 'the parser stopped before the last token (consumed up to token %d of %d)' % (root.end_pos, last_sig + 1), inp)
        elif sorted(got, key=lambda s: (s[1], -s[2])) != sorted(want, key=lambda s: (s[1], -s[2])):
            a = sorted(got, key=lambda s: (s[1], -s[2]))
            b = sorted(want, key=lambda s: (s[1], -s[2]))
            d = next((x, y) for x, y in zip(a + [None], b + [None]) if x != y)
            res.fail(key, 'statement kinds/extents differ from the program\'s structure: parser has %r, program has %r' % d, inp)
        for s in want:
            res.nontrivial.add((s[0], s[2] - s[1] > 3))
    batch.append(('parse ' + L.chunks_arg([src]), out if out.startswith('ok') else 'err', {'op': 'parse', 'source': hx(src)}))


def empty_parens(src):
    """`(` `)` with nothing between them where a prefix expression starts (`x=()`, a line starting with `( )`): the
    implementation's `_prefixexp` then calls `_prefixexp_recur(None)` and may return None with the position advanced;
    the model reports a parse error (documented gap, malformed input only).  Detected exactly: the real parser is run
    with `_prefixexp_recur` wrapped to record a call with `None`."""
    from pico8.lua import parser as P
    toks = L.impl_lex([src])[1]
    if toks is None:
        return False
    seen = []
    orig = P.Parser._prefixexp_recur

    def spy(self, first):
        if first is None:
            seen.append(1)
        return orig(self, first)
    P.Parser._prefixexp_recur = spy
    try:
        try:
            P.Parser(version=8).process_tokens(toks)
        except Exception:
            pass
    finally:
        P.Parser._prefixexp_recur = orig
    return bool(seen)


def mutate(rng, src):
    toks = L.impl_lex([src])[1] or []
    sig = [t for t in toks if type(t).__name__ not in ('TokSpace', 'TokNewline', 'TokComment')]
    if not sig:
        return src
    k = rng.randrange(4)
    codes = [t.code for t in toks]
    idx = [i for i, t in enumerate(toks) if t in sig]
    i = rng.choice(idx)
    if k == 0:
        del codes[i]
    elif k == 1:
        codes.insert(i, rng.choice([b'end', b')', b'=', b',', b'then', b'|=', b'(', b'1']) + b' ')
    elif k == 2:
        j = rng.choice(idx)
        codes[i], codes[j] = codes[j], codes[i]
    else:
        codes[i] = rng.choice([b'?', b'::', b'..', b'do', b'}'])
    return b''.join(codes)


def run(ctx, res):
    rng = ctx.rng
    res.rule = ('dialect programs from the grammar-directed generator (all statement and expression forms, short-ifs with/without else, at end '
                'of input, in blocks, with trailing comments, nested) in random layouts; expected statement kinds/extents come from the generator; '
                'malformed stream (token deleted/inserted/swapped/replaced) for error agreement; '
                'distinct non-trivial = distinct (statement kind, long?) seen in accepted programs')
    batch = []
    for i in range(ctx.budget(700, 15000)):
        src, items, feats = gen_lua.gen_program(rng)
        check_program(res, src, items, batch, 'program')
        for k in feats:
            res.count('feat:' + k)
        if i == 3:
            res.sample({'source': repr(src[:160])})
    # the words the picotool source itself mentions, as identifiers in every syntactic position (they are identifiers like any other)
    for src, items in gen_lua.word_programs(rng, per_word=4 if ctx.thorough() else 2):
        check_program(res, src, items, batch, 'word')
        res.count('word-program')
    anchors = [b'if (a) if (b) c=1 d=2\ne=3\nf=4\n', b'if (a) b=1\nc=2\n', b'if (a) b=1 else c=2\nd=3', b'if (a) b=1', b'if (a) b=1 -- c\nd=1',
               b'function f()\nif (a) if (b) c=1\ne=3\nend\n', b'if (a) b=1 else if (c) d=1\ne=2\n', b'if (a) else x=1\ny=2', b'if (a) x=1 else\ny=2',
               b'if (a) return\nx=1', b'if (a)--[[\n]] b=1\nc=2', b'a=1;;;b=2', b'a=b=c\n', b'a |= 1\n', b'?x,y\n', b'x=()', b'(f or g)(x)\n',
               b'a = (b or c).d\n', b'a=("s"):rep(2)\n', b'if (a) do b=1 end', b'if (a) then b=1 end', b'f{1}"x"[[y]]\n', b't={,}', b'',
               b'if #f(x) y=1\n', b'if (a)+f(x) y=1\n', b'if -(x) y=1\n', b'if f(x) y=1\n', b'if not (x) y=1\n', b'if (a) or (b) y=1\nz=2\n',
               b'if t[(i)] y=1\n', b'if (a).b(c) y=1\n',
               # long and deep programs: many branches, many statements, deep nesting of every bracket kind (no limit is part of the dialect)
               b'if a then x=0\n' + b''.join(b'elseif a==%d then x=%d\n' % (k, k) for k in range(130)) + b'else x=-1 end\n',
               b''.join(b'if c%d then\n' % k for k in range(90)) + b'y=1\n' + b'end\n' * 90,
               b''.join(b'do ' for _ in range(120)) + b'z=1 ' + b'end ' * 120 + b'\n',
               b'q=' + b'(' * 150 + b'1' + b')' * 150 + b'\n', b'w=' + b'{' * 100 + b'}' * 100 + b'\n', b'v=t' + b'[t' * 80 + b'[1]' + b']' * 80 + b'\n',
               b''.join(b'function f%d() ' % k for k in range(70)) + b'return 0 ' + b'end ' * 70 + b'\n',
               b''.join(b'a%d=%d ' % (k, k) for k in range(1500)) + b'\n', b'u=1' + b'+1' * 400 + b'\n', b'r=f' + b'(g' * 60 + b'()' + b')' * 60 + b'\n',
               b'while a do ' * 40 + b'repeat ' * 40 + b'until b ' * 40 + b'end ' * 40 + b'\n', b'if (a) ' * 30 + b'x=1\n']
    # small valid programs around comments glued to a token and empty blocks: each must be accepted and consumed to its last token
    glued = [b'--[[c]]repeat until x\ny=1\n', b'--[[c]]do end\ny=1\n', b'do --[[c]]::l:: end\ny=1\n', b'while a do --[[c]]do end y=1 end\nz=2\n',
             b'--[[a]]--[[b]]repeat until x\nq=1\n', b'if a then --[[c]]do end else --[[d]]repeat until b end\nw=1\n', b'--[[c]]::top:: goto top\n',
             b'function f() --[[c]]do end return 1 end\nv=f()\n', b'repeat --[[c]]::l:: until x\nu=1\n', b'--[==[c]==]do end--[[e]]y=1\n',
             b'for i=1,2 do --[[c]]do end end\nt=1\n', b'do--[[c]]end\ns=1\n', b'--[[c]]while x do end r=1\n', b'if (a) --[[c]]do end\np=1\n']
    for a in glued:
        check_program(res, a, None, batch, 'glued-comment')
        out_, toks_, root_ = impl_parse(a)
        nsig_ = [i for i, t in enumerate(toks_ or []) if type(t).__name__ not in ('TokSpace', 'TokNewline', 'TokComment')]
        if not out_.startswith('ok') or (nsig_ and root_.end_pos < nsig_[-1] + 1):
            res.fail('C08:glued-comment:' + hx(a)[:40], 'the valid program %r is %s' % (
                a, 'rejected (%s)' % out_[:60] if not out_.startswith('ok') else 'not consumed to its end'), {'source': hx(a)})
    for a in anchors:
        check_program(res, a, None, batch, 'anchor')
        if len(a) > 200:
            # the long and deep ones are plain valid programs: they must be accepted and consumed to their last token
            out_, toks_, root_ = impl_parse(a)
            nsig_ = [i for i, t in enumerate(toks_ or []) if type(t).__name__ not in ('TokSpace', 'TokNewline', 'TokComment')]
            if not out_.startswith('ok') or (nsig_ and root_.end_pos < nsig_[-1] + 1):
                res.fail('C08:long-program:' + hx(a)[:40], 'a long / deeply nested but valid program (%d bytes, starts %r) is %s' % (
                    len(a), a[:40], 'rejected (%s)' % out_[:60] if not out_.startswith('ok') else 'not consumed to its end'), {'source': hx(a)})
    for _ in range(ctx.budget(400, 8000)):
        src = mutate(rng, gen_lua.gen_program(rng, style='spaced')[0])
        check_program(res, src, None, batch, 'malformed')
        res.count('malformed')
    # histories: a Lua object fed in several steps (update_from_lines more than once re-parses the grown token list with the same
    # parser object), and one parser object used for two different programs: the tree is that of the tokens it is given now
    from pico8.lua import lua as lua_mod, parser as parser_mod, lexer as lexer_mod
    for h in range(ctx.budget(40, 600)):
        a_src = gen_lua.gen_program(rng, style=rng.choice(['lines', 'spaced']))[0]
        b_src = gen_lua.gen_program(rng, style=rng.choice(['lines', 'spaced']))[0]
        if not a_src.endswith(b'\n'):
            a_src += b'\n'
        if h % 2:
            # one program cut at a token boundary anywhere (also in the middle of a short-if line); and, for the reused parser, the same
            # program with one blank replaced by a line break (same token positions, different line ends)
            src0 = gen_lua.gen_program(rng, style='spaced')[0]
            if h % 4 == 1:
                # programs rich in short-ifs with several statements on their line
                tpl = [b'if (x%d) a%d=1 b%d=2 c%d=3\n', b'y%d=%d z%d=%d\n', b'if (f(x%d)) g%d() h%d() i%d=0\n', b'while q%d do if (z%d) r%d=1 t%d=2\n end\n',
                       b'if (u%d) v%d=1 else w%d=2 k%d=3\n', b'?x%d,%d if (m%d) n%d=1\n']
                src0 = b''.join(rng.choice(tpl) % ((n_,) * 4) for n_ in range(rng.randrange(1, 5)))
            codes = [t.code for t in (L.impl_lex([src0])[1] or [])]
            if len(codes) > 3:
                k = rng.randrange(1, len(codes))
                a_src, b_src = b''.join(codes[:k]), b''.join(codes[k:])
        res.evaluations += 1
        res.count('parse-histories')
        whole, _, _ = impl_parse(a_src + b_src)
        l = lua_mod.Lua(version=8)
        try:
            l.update_from_lines([a_src])
        except Exception:
            whole = 'skip'        # the first piece alone is not a program the parser accepts: no second step to speak of
        try:
            l.update_from_lines([b_src])
            inc = 'ok ' + ser(l.root)
        except Exception as e:
            inc = 'err ' + U.exc_kind(e)
        key = 'C08:history:%d:%s' % (h, hx(a_src)[:40])
        if whole.startswith('ok') and inc != whole:
            res.fail(key, 'feeding a program in two steps (update_from_lines twice) gives a different tree than parsing it at once',
                     {'first': hx(a_src), 'second': hx(b_src)}, observed=inc[:300], expected=whole[:300])
            continue
        if h % 2:
            src0 = a_src + b_src
            toks0 = L.impl_lex([src0])[1] or []
            spaces = [i for i, t in enumerate(toks0) if type(t).__name__ == 'TokSpace']
            if spaces:
                i = rng.choice(spaces)
                a_src, b_src = src0, b''.join(b'\n' if j == i else t.code for j, t in enumerate(toks0))
        try:
            p = parser_mod.Parser(version=8)
            for src_ in (a_src, b_src):
                lx = lexer_mod.Lexer(version=8)
                lx.process_lines([src_])
                p.process_tokens(lx.tokens)
            reused = 'ok ' + ser(p.root)
        except Exception as e:
            reused = 'err ' + U.exc_kind(e)
        fresh = impl_parse(b_src)[0]
        if fresh.startswith('ok') and reused != fresh:
            res.fail(key, 'a parser object that parsed another program before gives a different tree for this one',
                     {'first': hx(a_src), 'second': hx(b_src)}, observed=reused[:300], expected=fresh[:300])
    if ctx.model.available:
        mo = ctx.model.run([b[0] for b in batch])
        for (line, exp, case), got in zip(batch, mo):
            g = got if got.startswith('ok') else 'err'
            e = exp if exp.startswith('ok') else 'err'
            if e != g:
                if e.startswith('ok') and g == 'err' and empty_parens(bytes.fromhex(case['source'])):
                    res.count('known-model-gap:empty-parens')
                    continue
                res.diff(case, exp[:200], got[:200])
        res.count('impl_err', sum(1 for b in batch if not b[1].startswith('ok')))


def replay(ctx, rep, res):
    run(ctx, res)
    return not res.failures and not res.diffs
