"""Helpers shared by property modules: building carts with arbitrary region bytes, checksums, etc."""
import io
import os

from common import REPO, hx  # noqa: F401


def rand_bytes(rng, n, style=None):
    style = style or rng.choice(['uniform', 'uniform', 'ff', 'zero', 'bits', 'ramp', 'const', 'rows', 'single', 'records', 'motif', 'echo', 'hexsplit'])
    if style == 'hexsplit':
        # groups of four bytes that are different ways of cutting ONE string of hex digits into four numbers (01 23 05 06 / 12 03 05 06 /
        # 01 02 35 06 ...): distinct records that any rendering without padding or separators would confuse
        out = bytearray()
        while len(out) < n:
            digits = [rng.randrange(1, 16) for _ in range(rng.randrange(5, 8))]
            splits = []
            for _ in range(6):
                cuts, left, grp = [], len(digits), []
                sizes = [1, 1, 1, 1]
                for _ in range(len(digits) - 4):
                    sizes[rng.choice([i for i in range(4) if sizes[i] < 2])] += 1
                pos = 0
                for sz in sizes:
                    v = 0
                    for d in digits[pos:pos + sz]:
                        v = v * 16 + d
                    grp.append(v)
                    pos += sz
                splits.append(bytes(grp))
            for g4 in splits:
                out += g4
        return bytes(out[:n])
    if style == 'motif':
        # low entropy: a random sequence over two or three short motifs (1-6 bytes each), so that what ends one record / row / pattern
        # very often equals what starts the next, and stretches repeat at every distance
        motifs = [bytes(rng.getrandbits(8) for _ in range(rng.randrange(1, 7))) for _ in range(rng.choice([2, 2, 3]))]
        out = bytearray()
        while len(out) < n:
            out += rng.choice(motifs) * rng.choice([1, 1, 2, 5])
        return bytes(out[:n])
    if style == 'echo':
        # random content in which every 68-, 64- or 128-byte record begins with a copy of the last 2, 4 or 8 bytes of the data before
        # it (a held note, a repeated row end): coincidences ACROSS record boundaries
        out = bytearray(rng.getrandbits(8) for _ in range(n))
        for rec in (68, 64, 128):
            k = rng.choice([2, 4, 8])
            for at in range(rec, n - k, rec):
                if rng.random() < 0.5:
                    out[at:at + k] = out[at - k:at] if rec != 68 else out[at - 4 - k:at - 4]       # (an sfx record ends with its 4 header bytes)
        return bytes(out)
    if style == 'records':
        # 68-byte records (sound effects), each one of: the untouched default of a new cart (no notes, speed 16), the same with speed 1
        # (sound effect 0 of a new cart), all zero, only a header, random — so that "looks unused" and "is the default" differ per record
        out = bytearray()
        while len(out) < n:
            k = rng.randrange(6)
            out += (bytes(64) + b'\x00\x10\x00\x00' if k == 0 else bytes(64) + b'\x00\x01\x00\x00' if k == 1 else bytes(68) if k == 2
                    else bytes(64) + bytes(rng.getrandbits(8) for _ in range(4)) if k == 3
                    else bytes(rng.getrandbits(8) for _ in range(64)) + b'\x00\x10\x00\x00' if k == 4 else bytes(rng.getrandbits(8) for _ in range(68)))
        return bytes(out[:n])
    if style == 'single':
        # all zero except one byte in every 68-byte stretch, at a position that moves through the stretch (sfx patterns, rows, cells
        # whose only content is their last / first / some middle byte)
        out = bytearray(n)
        for k in range(0, n, 68):
            j = k + (k // 68 * 7 + rng.randrange(3) - 1) % 68
            if j < n:
                out[j] = rng.randrange(1, 256)
        return bytes(out)
    if style == 'const':
        # one byte value throughout, its two nibbles different (a two-colour stripe pattern in gfx terms)
        hi, lo = rng.sample(range(16), 2)
        return bytes([hi << 4 | lo]) * n
    if style == 'rows':
        # 64-byte rows, each made of one repeated byte (most of them with different nibbles), some rows random
        out = bytearray()
        while len(out) < n:
            out += bytes([rng.randrange(256)]) * 64 if rng.random() < 0.8 else bytes(rng.getrandbits(8) for _ in range(64))
        return bytes(out[:n])
    if style == 'uniform':
        return bytes(rng.getrandbits(8) for _ in range(n))
    if style == 'ff':
        return b'\xff' * n
    if style == 'zero':
        return b'\x00' * n
    if style == 'bits':
        b = 1 << rng.randrange(8)
        return bytes(b if rng.random() < 0.5 else 0 for _ in range(n))
    return bytes((i * 7 + 3) % 256 for i in range(n))


REGION_SIZES = (('gfx', 0x2000), ('map', 0x1000), ('gff', 0x100), ('music', 0x100), ('sfx', 0x1100))


def make_game(rng=None, regions=None, code=b'', version=8, label=None):
    """A Game with the given (or random) region contents; code is lexed/parsed by the real Lua class."""
    from pico8.game.game import Game
    from pico8.lua.lua import Lua
    from pico8.gfx.gfx import Gfx
    g = Game.make_empty_game(version=version)
    regions = dict(regions or {})
    for name, size in REGION_SIZES:
        if name in regions:
            data = regions[name]
        elif rng is not None:
            data = rand_bytes(rng, size)
        else:
            continue
        getattr(g, name)._data = bytearray(data)
    g.lua = Lua.from_lines([code] if code else [], version=version)
    g.label = None if label is None else Gfx(data=label, version=version)
    g.version = version
    return g


def regions_of(g):
    return {name: bytes(getattr(g, name)._data) for name, _ in REGION_SIZES}


def chk(regions):
    h = 0
    for r in regions:
        h = (h * 31 + 7) % 1000000007
        for b in r:
            h = (h * 257 + b + 1) % 1000000007
    return h


def exc_kind(e):
    """Map a Python exception to the model's error enum."""
    from pico8 import util
    name = type(e).__name__
    table = {'ValueError': 'value', 'UnicodeDecodeError': 'value', 'IndexError': 'index', 'AssertionError': 'assert',
             'KeyError': 'key', 'TypeError': 'type', 'InvalidP8HeaderError': 'header',
             'InvalidP8SectionError': 'section', 'LexerError': 'lex', 'ParserError': 'parse',
             'P8IncludeOutsideOfAllowedDirectory': 'outside-root', 'P8IncludeNotFound': 'not-found',
             'LuaBuildError': 'build', 'InvalidP8PNGError': 'too-large'}
    return table.get(name, name)


class quiet:
    """Silence picotool's own message streams (bound to sys.stdout/stderr at import time)."""

    def __enter__(self):
        from pico8 import util
        import io as _io
        self.util = util
        self.saved = (util._write_stream, util._error_stream)
        util._write_stream = _io.StringIO()
        util._error_stream = _io.StringIO()
        return self

    def __exit__(self, *a):
        self.util._write_stream, self.util._error_stream = self.saved
        return False
