"""Shared by C12/C20: build directory layouts, record file-system accesses of the real code."""
import builtins
import os

from common import hx


class Recorder:
    """Records every path the code under test hands to open / os.path.isfile / os.path.exists."""

    def __init__(self):
        self.opened, self.probed = [], []

    def __enter__(self):
        self._open, self._isfile, self._exists = builtins.open, os.path.isfile, os.path.exists

        def sopen(path, *a, **k):
            if isinstance(path, (str, bytes)):
                self.opened.append(os.fsdecode(path))
            return self._open(path, *a, **k)

        def sisfile(path):
            self.probed.append(os.fsdecode(path))
            return self._isfile(path)

        def sexists(path):
            self.probed.append(os.fsdecode(path))
            return self._exists(path)
        builtins.open, os.path.isfile, os.path.exists = sopen, sisfile, sexists
        return self

    def __exit__(self, *a):
        builtins.open, os.path.isfile, os.path.exists = self._open, self._isfile, self._exists
        return False

    def touched(self):
        return [os.path.normpath(os.path.abspath(p)) for p in self.opened + self.probed]


def under(path, root):
    path = os.path.normpath(os.path.abspath(path))
    root = os.path.normpath(os.path.abspath(root))
    return path == root or path.startswith(root.rstrip(os.sep) + os.sep)


def write(path, data):
    os.makedirs(os.path.dirname(path), exist_ok=True)
    with open(path, 'wb') as fh:
        fh.write(data)


def hp(s):
    return hx(s.encode('utf-8'))
