"""bin/check Cxx --tier quick|thorough [--replay FILE]

exit 0: property held on everything explored (KNOWN-FINDING lines allowed)
exit 1: `VIOLATION property=<id> replay=<path>` printed
exit 2: infrastructure failure / timeout (never a violation)
"""
import argparse
import importlib
import json
import os
import sys
import time
import traceback

sys.path.insert(0, os.path.dirname(os.path.abspath(__file__)))
import common  # noqa: E402
from common import (VERIF, LEAN, Ctx, Result, Infra)  # noqa: E402


def load_module(prop):
    return importlib.import_module('props.' + prop)


def main():
    ap = argparse.ArgumentParser()
    ap.add_argument('prop')
    ap.add_argument('--tier', default=os.environ.get('VERIF_TIER', 'quick'))
    ap.add_argument('--replay', default=None)
    args = ap.parse_args()
    prop = args.prop
    tier = args.tier if args.tier in ('quick', 'thorough') else 'quick'
    try:
        seed = int(os.environ.get('VERIF_SEED', '0'))
    except ValueError:
        seed = 0
    t0 = time.time()
    common.ensure_repo_on_path()
    mod = load_module(prop)
    ctx = Ctx(prop, tier, seed)
    try:
        rc = run(ctx, mod, args, t0)
    except Infra as e:
        print('INFRA: %s' % e)
        rc = 2
    except Exception:
        traceback.print_exc()
        print('INFRA: unexpected harness error')
        rc = 2
    finally:
        ctx.cleanup()
    sys.exit(rc)


def run(ctx, mod, args, t0):
    prop = ctx.prop
    props_module = getattr(mod, 'PROPS_MODULE', 'PicoVerif.Props.' + prop)
    props_file = os.path.join(LEAN, props_module.replace('.', '/') + '.lean')
    stated = [n for n, _ in common.theorem_names(props_file)]
    partial_note = getattr(mod, 'PARTIAL', '')

    # ---- replay mode: run exactly one stored case against the current tree
    if args.replay:
        with open(args.replay if os.path.isabs(args.replay) else os.path.join(VERIF, args.replay)) as fh:
            rep = json.load(fh)
        res = Result()
        mod.replay(ctx, rep, res)
        # (a replay that re-runs the whole check also meets the open known findings: they are not what is being replayed)
        open_keys = {e['key'] for e in common.load_known(prop) if e.get('status') == 'open'}
        still = [f for f in res.failures if f['key'] not in open_keys]
        if still or res.diffs:
            print('REPLAY: still failing: %s' % (still[0]['what'] if still else 'correspondence: %s' % str(res.diffs[0])[:200]))
            return 1
        print('REPLAY: no longer fails')
        return 0

    # a replay file left by an earlier run with this seed does not describe this run
    import glob
    for old in glob.glob(os.path.join(VERIF, 'replay', '%s-%d-*.json' % (prop, ctx.seed))):
        try:
            os.remove(old)
        except OSError:
            pass
    # ---- 0/1: regenerate tables, rebuild proofs + driver
    broken = []          # theorem names that no longer check
    infra_notes = []
    with common.Lock():
        ok, out = common.gen_tables()
        gen_ok = ok
        if not ok:
            # the repo no longer imports, or a table has a shape the translator cannot read
            infra_notes.append('gen_tables failed: ' + out[-800:])
        bok, bout = common.lake_build([props_module])
        if not bok:
            broken = common.broken_theorems(props_file, bout)
            if not broken:
                # failure in an imported module (model / generated table): every theorem is unchecked
                broken = ['<build of %s failed before its theorems: %s>' % (
                    props_module, '; '.join(l for l in bout.splitlines() if l.startswith('error'))[:400])]
        dok, dout = common.lake_build(['picomodel'])
        if not dok:
            ctx.model.available = False
            infra_notes.append('driver build failed: ' + '; '.join(
                l for l in dout.splitlines() if l.startswith('error'))[:400])
        else:
            ctx.model.available = True

    if not gen_ok:
        # cannot even import the repo: infrastructure, not a violation
        try:
            import pico8  # noqa: F401
            from pico8 import tool  # noqa: F401
        except Exception as e:
            raise Infra('repository does not import: %r' % (e,))

    # ---- audit
    axioms = {}
    discharged = []
    bad_axioms = {}
    forbidden = []
    if not broken:
        axioms, aout = common.audit_axioms(prop, props_module, stated)
        for n in stated:
            if n not in axioms:
                broken.append(n + ' <not found by #print axioms>')
            elif set(axioms[n]) - common.ALLOWED_AXIOMS:
                bad_axioms[n] = axioms[n]
            else:
                discharged.append(n)
        closure = common.lean_imports_closure(props_module)
        forbidden = common.grep_forbidden(sorted(closure.values()))
        if ctx.tier == 'thorough':
            import subprocess
            mods = sorted(m for m in closure)
            p = subprocess.run(['lake', 'env', 'leanchecker'] + mods, cwd=LEAN, capture_output=True, text=True, timeout=3000)
            if p.returncode != 0:
                broken.append('<leanchecker rejected: %s>' % (p.stdout + p.stderr)[-300:])
    else:
        # count what still checks by auditing is impossible when the module failed; none discharged
        pass
    if (bad_axioms or forbidden) and os.environ.get('VERIF_DEV_ALLOW_SORRY'):
        print('DEV: ignoring proof hygiene failure (%d theorems with sorry)' % len(bad_axioms))
    elif bad_axioms or forbidden:
        raise Infra('proof hygiene failure (machinery defect, not a repo violation): axioms=%r forbidden=%r' % (bad_axioms, forbidden))

    # ---- 2: correspondence + property oracle on the implementation
    res = Result()
    try:
        mod.run(ctx, res)
    except Infra:
        raise
    except Exception as e:
        # An exception escaped the property module.  If it was raised inside the implementation (innermost frame under the
        # repository) by a call the module makes on every run, the implementation's behaviour changed from "returns" to
        # "raises": that is a finding about the code, reported with the traceback as replay.  Raised in harness code: infra.
        tb = traceback.extract_tb(e.__traceback__)
        inner = tb[-1].filename if tb else ''
        site = next((f for f in reversed(tb) if f.filename.startswith(os.path.join(common.VERIF, 'harness'))), None)
        if os.path.abspath(inner).startswith(os.path.abspath(common.REPO) + os.sep) and site is not None:
            res.fail('%s:impl-raised:%s@%s:%d' % (prop, type(e).__name__, os.path.basename(site.filename), site.lineno),
                     'the implementation raised %s (%s) in a call this check makes on every run (%s:%d: %s); on the pinned tree the call returns'
                     % (type(e).__name__, str(e)[:200], os.path.basename(site.filename), site.lineno, (site.line or '').strip()[:120]),
                     {'traceback': traceback.format_exception(type(e), e, e.__traceback__)[-12:]})
        else:
            raise
    # history independence (harness/probes.py): the same calls in this warm process and in fresh interpreters, in both orders
    if not res.failures:
        try:
            import probes
            probes.history_independence(ctx, res, prop, probes.default_cases(prop, ctx.rng))
        except Infra:
            raise
        except Exception as e:
            raise Infra('history-independence probes failed to run: %r' % (e,))

    known = common.load_known(prop)
    open_keys = {e['key']: e for e in known if e.get('status') == 'open'}
    new_fail = [f for f in res.failures if f['key'] not in open_keys]
    seen_known = {}
    for f in res.failures:
        if f['key'] in open_keys:
            seen_known[f['key']] = open_keys[f['key']]

    violation = None
    searched = False
    if not new_fail and (broken or res.diffs):
        # ---- failing-input search (deeper budget) because an obligation / the correspondence broke
        searched = True
        ctx.deep = True
        res2 = Result()
        hint = {'broken': broken, 'diffs': res.diffs[:5]}
        if hasattr(mod, 'search'):
            mod.search(ctx, res2, hint)
        else:
            mod.run(ctx, res2)
        res.evaluations += res2.evaluations
        res.nontrivial |= res2.nontrivial
        new_fail = [f for f in res2.failures if f['key'] not in open_keys]

    n = 0
    if new_fail:
        new_fail.sort(key=lambda g: len(json.dumps(g['input'], default=str)))
        f = new_fail[0]
        path = common.write_replay(prop, ctx.seed, n, {
            'property': prop, 'kind': 'failing-input', 'what': f['what'], 'key': f['key'],
            'input': f['input'], 'observed': f.get('observed'), 'expected': f.get('expected'),
            'broken_obligations': broken, 'seed': ctx.seed,
            'other_failures': [g['key'] for g in new_fail[1:20]]})
        violation = 'VIOLATION property=%s replay=%s' % (prop, path)
    elif broken:
        path = common.write_replay(prop, ctx.seed, n, {
            'property': prop, 'kind': 'broken-obligation', 'theorem': broken,
            'note': 'these theorems no longer check against the model regenerated from the current source; '
                    'the failing-input search on the implementation found no input violating the property',
            'seed': ctx.seed})
        violation = 'VIOLATION property=%s replay=%s no-failing-input-found' % (prop, path)
    elif res.diffs:
        d = res.diffs[0]
        path = common.write_replay(prop, ctx.seed, n, {
            'property': prop, 'kind': 'correspondence-diff', 'correspondence': d,
            'n_diffs': len(res.diffs),
            'note': 'the executable Lean model and the implementation disagree on this input, so the theorems no '
                    'longer speak about the code; the failing-input search found no input violating the property',
            'seed': ctx.seed})
        violation = 'VIOLATION property=%s replay=%s no-failing-input-found' % (prop, path)

    for k, e in seen_known.items():
        print('KNOWN-FINDING: property=%s %s' % (prop, e.get('what', k)))

    # ---- 4: evidence
    cov = {
        'obligations': max(len(stated), 1),
        'discharged': len(discharged),
        'checker_cmd': 'cd lean && lake build %s && lake env lean .lake/audit/Audit_%s.lean  (#print axioms per theorem)%s' % (
            props_module, prop, ' && lake env leanchecker <modules>' if ctx.tier == 'thorough' else ''),
        'trusted_base': common.TRUSTED_BASE + list(getattr(mod, 'TRUSTED_EXTRA', [])),
        'theorems': [{'name': n, 'axioms': axioms.get(n)} for n in stated],
        'broken_obligations': broken,
        'evaluations': res.evaluations,
        'distinct_nontrivial': len(res.nontrivial),
        'rule': res.rule,
        'samples': res.samples or ['<none>'],
        'correspondence_diffs': len(res.diffs),
        'traces_validated_against_impl': res.evaluations - len(res.diffs),
        'input_histogram': res.histogram,
        'failing_input_search_ran': searched,
        'known_findings_seen': sorted(seen_known),
        'model_driver_available': ctx.model.available,
    }
    cov.update(res.extra)
    ev = {
        'property_id': prop, 'tier': ctx.tier, 'seed': ctx.seed, 'level': 'proof',
        'coverage': cov,
        'assumptions': list(getattr(mod, 'ASSUMPTIONS', [])) + ([partial_note] if partial_note else []) + infra_notes,
        'wall_s': round(time.time() - t0, 2),
        'violations': 1 if violation else 0,
    }
    common.write_evidence(prop, ev)

    if violation:
        print(violation)
        return 1
    print('OK property=%s tier=%s theorems=%d/%d evaluations=%d distinct=%d wall=%.1fs' % (
        prop, ctx.tier, len(discharged), len(stated), res.evaluations, len(res.nontrivial), time.time() - t0))
    return 0


if __name__ == '__main__':
    main()
