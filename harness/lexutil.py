"""Canonical token lines shared by the lexer-family property modules."""
from common import hx

KIND = {'TokSpace': 'space', 'TokNewline': 'newline', 'TokComment': 'comment', 'TokString': 'string', 'TokNumber': 'number',
        'TokName': 'name', 'TokLabel': 'label', 'TokKeyword': 'keyword', 'TokSymbol': 'symbol'}


def show_tok(t):
    k = KIND[type(t).__name__]
    q = '-'
    if k == 'string':
        q = ('m%d' % len(t._multiline_quote)) if t._multiline_quote is not None else str(t._quote[0])
    return '%s.%s.%d.%d.%s' % (k, hx(t._data), t._lineno, t._charno, q)


def impl_lex(chunks):
    """Token line of the real lexer for a list of chunks, or 'err <kind>'."""
    from pico8.lua import lexer
    import implutil
    lx = lexer.Lexer(version=8)
    try:
        lx.process_lines(list(chunks))
    except Exception as e:
        return 'err ' + implutil.exc_kind(e), None
    toks = lx.tokens
    return 'ok ' + (' '.join(show_tok(t) for t in toks) or '-'), toks


def chunks_arg(chunks):
    return ':'.join(hx(c) for c in chunks) if chunks else '.'


def split_lines(src):
    parts = src.split(b'\n')
    out = [p + b'\n' for p in parts[:-1]]
    if parts[-1]:
        out.append(parts[-1])
    return out


def strip_pos(line):
    """Drop line/col from a canonical token line (for comparisons that ignore positions)."""
    if not line.startswith('ok '):
        return line
    out = []
    for t in line[3:].split(' '):
        if t == '-':
            continue
        f = t.split('.')
        out.append('.'.join([f[0], f[1], f[4]]))
    return 'ok ' + ' '.join(out)
