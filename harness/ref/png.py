"""Independent minimal PNG decoder (8-bit RGBA / RGB, non-interlaced), written from the PNG specification.
Used only to check that picotool's output is a valid PNG with the expected pixels (pypng is not used here)."""
import struct
import zlib


def decode(data):
    """Returns (width, height, planes, rows) with rows = list of bytes (width*planes each). Raises ValueError."""
    if data[:8] != b'\x89PNG\r\n\x1a\n':
        raise ValueError('bad signature')
    pos = 8
    ihdr = None
    idat = b''
    seen_end = False
    while pos < len(data):
        if pos + 8 > len(data):
            raise ValueError('truncated chunk header')
        ln, typ = struct.unpack('>I4s', data[pos:pos + 8])
        body = data[pos + 8:pos + 8 + ln]
        crc = data[pos + 8 + ln:pos + 12 + ln]
        if len(body) != ln or len(crc) != 4:
            raise ValueError('truncated chunk')
        if struct.unpack('>I', crc)[0] != (zlib.crc32(typ + body) & 0xffffffff):
            raise ValueError('bad crc')
        if typ == b'IHDR':
            ihdr = struct.unpack('>IIBBBBB', body)
        elif typ == b'IDAT':
            idat += body
        elif typ == b'IEND':
            seen_end = True
            break
        pos += 12 + ln
    if ihdr is None or not seen_end:
        raise ValueError('missing IHDR/IEND')
    w, h, depth, ctype, comp, flt, interlace = ihdr
    if depth != 8 or ctype not in (2, 6) or comp != 0 or flt != 0 or interlace != 0:
        raise ValueError('unsupported PNG flavour %r' % (ihdr,))
    planes = 4 if ctype == 6 else 3
    raw = zlib.decompress(idat)
    stride = w * planes
    if len(raw) != h * (stride + 1):
        raise ValueError('bad image data size')
    rows = []
    prev = bytearray(stride)
    for y in range(h):
        ft = raw[y * (stride + 1)]
        line = bytearray(raw[y * (stride + 1) + 1:(y + 1) * (stride + 1)])
        for i in range(stride):
            a = line[i - planes] if i >= planes else 0
            b = prev[i]
            c = prev[i - planes] if i >= planes else 0
            if ft == 0:
                pass
            elif ft == 1:
                line[i] = (line[i] + a) & 255
            elif ft == 2:
                line[i] = (line[i] + b) & 255
            elif ft == 3:
                line[i] = (line[i] + (a + b) // 2) & 255
            elif ft == 4:
                p = a + b - c
                pa, pb, pc = abs(p - a), abs(p - b), abs(p - c)
                pr = a if (pa <= pb and pa <= pc) else (b if pb <= pc else c)
                line[i] = (line[i] + pr) & 255
            else:
                raise ValueError('bad filter type')
        rows.append(bytes(line))
        prev = line
    return w, h, planes, rows
