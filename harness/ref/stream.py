"""Independent decoder for the PICO-8 `:c:` stream, written from the format description (not from picotool).
Returns None when the stream is not well formed."""
TABLE = b'\x00\n 0123456789abcdefghijklmnopqrstuvwxyz!#%(){}[]<>+=/*:;.,~_'


def ref_decode(stream):
    out = bytearray()
    i = 0
    n = len(stream)
    while i < n:
        c = stream[i]
        if c == 0:
            if i + 1 >= n:
                return None
            out.append(stream[i + 1])
            i += 2
        elif c < 60:
            out.append(TABLE[c])
            i += 1
        else:
            if i + 1 >= n:
                return None
            d = stream[i + 1]
            off = (c - 60) * 16 + (d & 15)
            ln = (d >> 4) + 2
            if ln < 3 or off == 0 or off > len(out):
                return None
            for _ in range(ln):
                out.append(out[-off])
            i += 2
    return bytes(out)
