"""Helpers for the tree-driven writer properties (C09, C10): run the real writers."""


def run_writer(src_chunks, writer, args=None):
    from pico8.lua import lua
    l = lua.Lua.from_lines(list(src_chunks), version=8)
    cls = {'fmt': lua.LuaFormatterWriter, 'astecho': lua.LuaASTEchoWriter, 'astmin': lua.LuaMinifyWriter}[writer]
    return b''.join(l.to_lines(writer_cls=cls, writer_args=args))


def luafmt(src, width=2):
    return run_writer([src], 'fmt', {'indentwidth': width})


def expected_depths(items):
    """Independent of picotool: nesting depth (blocks + brackets open, a closing token counts as closed) of each item,
    computed from the token texts and the generator's knowledge of which `if`s are short-form.
    A short-`if` opens no level for its body; its own `else` (the one met while no block opened inside the short-if is
    still open) opens one level that ends with the statement."""
    depths = []
    stack = []            # entries: 'x' (block or bracket) | 'sif-else'
    open_short = []       # per open short-if: {'base': stack height at its start, 'else': seen its own else}
    pending_func = 0
    paren_is_func = []
    for i, it in enumerate(items):
        t = it.text
        for k in it.opens:
            if k == 'StatIfShort':
                open_short.append({'base': len(stack), 'else': False})
        own_else = (t == b'else' and bool(open_short) and not open_short[-1]['else'] and len(stack) == open_short[-1]['base'])
        # closing tokens pop before
        if t in (b'end', b'until', b')', b'}', b']', b'elseif', b'else') and not own_else:
            if stack:
                stack.pop()
        depths.append(len(stack))
        # opening tokens push after
        if t in (b'do', b'then', b'repeat', b'{', b'['):
            stack.append('x')
        elif t == b'(':
            stack.append('x')
            paren_is_func.append(pending_func > 0)
            if pending_func:
                pending_func -= 1
        elif t == b'function':
            pending_func += 1
        elif t == b'else':
            if own_else:
                open_short[-1]['else'] = True
                stack.append('sif-else')
            else:
                stack.append('x')
        if t == b')':
            if paren_is_func and paren_is_func.pop():
                stack.append('x')          # function body
        # a short-if ends with its last token: drop its else level
        for _ in range(getattr(it, '_short_closes', 0)):
            sif = open_short.pop()
            if sif['else'] and stack and stack[-1] == 'sif-else':
                stack.pop()
    return depths


def mark_short_if_ends(items):
    """annotate items with the number of short-if statements ending at them (from the generator's tags)"""
    stack = []
    for it in items:
        it_opens = list(it.opens)
        for k in it_opens:
            stack.append(k)
        n = 0
        for _ in range(it.closes):
            if stack.pop() == 'StatIfShort':
                n += 1
        try:
            it._short_closes = n
        except AttributeError:
            pass
