"""Helpers for the tree-driven writer properties (C09, C10): run the real writers."""


def run_writer(src_chunks, writer, args=None):
    from pico8.lua import lua
    l = lua.Lua.from_lines(list(src_chunks), version=8)
    cls = {'fmt': lua.LuaFormatterWriter, 'astecho': lua.LuaASTEchoWriter, 'astmin': lua.LuaMinifyWriter}[writer]
    return b''.join(l.to_lines(writer_cls=cls, writer_args=args))


def luafmt(src, width=2):
    return run_writer([src], 'fmt', {'indentwidth': width})


def expected_depths(items):
    """Independent of picotool: nesting depth (blocks + brackets open, a closing token counts as closed) of each item,
    computed from the token texts and the generator's knowledge of which `if`s are short-form."""
    depths = []
    stack = []            # entries: ('blk'|'br'|'sif-else', id)
    short_if_ends = {}    # item index of the last token of a short-if -> number of short-ifs ending there
    open_short = []
    func_paren = []       # depth of paren nesting at which a `function` awaits its parameter list
    pending_func = 0
    paren_is_func = []
    for i, it in enumerate(items):
        t = it.text
        for k in it.opens:
            if k == 'StatIfShort':
                open_short.append({'else': False})
        # closing tokens pop before
        if t in (b'end', b'until', b')', b'}', b']', b'elseif') or (t == b'else'):
            in_short = bool(open_short) and t == b'else' and not open_short[-1].get('long_if_depth')
            if t == b'else' and in_short and open_short[-1]['else'] is False and not open_short[-1].get('inner_blocks'):
                pass    # short-if else: stays at the short-if's own level
            elif stack:
                stack.pop()
        depths.append(len(stack))
        # opening tokens push after
        if t in (b'do', b'then', b'repeat', b'{', b'['):
            stack.append('x')
            if open_short:
                open_short[-1]['inner_blocks'] = open_short[-1].get('inner_blocks', 0) + (1 if t in (b'do', b'then', b'repeat') else 0)
        elif t == b'(':
            stack.append('x')
            paren_is_func.append(pending_func > 0)
            if pending_func:
                pending_func -= 1
        elif t == b'function':
            pending_func += 1
        elif t == b'else':
            if open_short and open_short[-1]['else'] is False and not open_short[-1].get('inner_blocks'):
                open_short[-1]['else'] = True
                stack.append('sif-else')
            else:
                stack.append('x')
        if t == b')':
            if paren_is_func and paren_is_func.pop():
                stack.append('x')          # function body
                if open_short:
                    open_short[-1]['inner_blocks'] = open_short[-1].get('inner_blocks', 0) + 1
        if t in (b'end', b'until') and open_short and open_short[-1].get('inner_blocks'):
            open_short[-1]['inner_blocks'] -= 1
        for _ in range(it.closes):
            pass
        # a short-if ends with its last token: drop its else level
        n_close_short = getattr(it, '_short_closes', 0)
        for _ in range(n_close_short):
            s = open_short.pop()
            if s['else'] and stack and stack[-1] == 'sif-else':
                stack.pop()
    return depths


def mark_short_if_ends(items):
    """annotate items with the number of short-if statements ending at them (from the generator's tags)"""
    stack = []
    for it in items:
        it_opens = list(it.opens)
        for k in it_opens:
            stack.append(k)
        n = 0
        for _ in range(it.closes):
            if stack.pop() == 'StatIfShort':
                n += 1
        try:
            it._short_closes = n
        except AttributeError:
            pass
