"""Grammar-directed generator of PICO-8 Lua programs (the dialect picotool parses) with a layout pass.

A program is generated as a flat list of Items (token text + layout constraints); the layout pass joins
them with separators chosen per gap (nothing / spaces / tab / newline / comments ...), never violating a
constraint (short-if and `?` lines stay on one line and end with a newline; tokens that would fuse are
kept apart).  Everything derives from the `random.Random` handed in.
"""

KEYWORDS = {b'and', b'break', b'do', b'else', b'elseif', b'end', b'false', b'for', b'function', b'goto', b'if',
            b'in', b'local', b'nil', b'not', b'or', b'repeat', b'return', b'then', b'true', b'until', b'while'}
SYMBOLS = [b'+=', b'-=', b'*=', b'/=', b'%=', b'..=', b'==', b'~=', b'!=', b'<=', b'>=', b'&', b'|', b'^^', b'~',
           b'<<>', b'>>>', b'>><', b'<<', b'>>', b'\\', b'+', b'-', b'*', b'/', b'%', b'^', b'#', b'@', b'$',
           b'<', b'>', b'=', b'(', b')', b'{', b'}', b'[', b']', b';', b':', b',', b'...', b'..', b'.']
BINOPS = [b'&', b'|', b'^^', b'<<', b'>>', b'>>>', b'<<>', b'>><', b'\\', b'<', b'>', b'<=', b'>=', b'~=', b'!=', b'==',
          b'..', b'+', b'-', b'*', b'/', b'%', b'^', b'and', b'or']
UNOPS = [b'-', b'#', b'~', b'@', b'%', b'$', b'not']
ASSIGNOPS = [b'=', b'=', b'=', b'+=', b'-=', b'*=', b'/=', b'%=', b'..=']
BUILTINS = [b'print', b'btn', b'spr', b'rnd', b'flr', b'add', b'del', b'pairs', b'all', b'sfx', b'_init', b'_update', b'_draw',
            b't', b'time', b'self']
GLYPHS = [b'\x83', b'\x8b', b'\x8e', b'\x91', b'\x94', b'\x97', b'\x80', b'\xff', b'\x99']


def is_word(c):
    return (48 <= c <= 57) or (65 <= c <= 90) or (97 <= c <= 122) or c == 95 or c >= 128


def must_separate(a, b):
    """Conservative: True if writing b directly after a could change how they lex (any Lua-family lexer)."""
    if not a or not b:
        return False
    la, fb = a[-1], b[0]
    if is_word(la) and is_word(fb):
        return True
    if is_word(la) and (fb == 46) and a[:1].isdigit():      # number then '.'
        return True
    if a[:1] == b'.' and a[1:2].isdigit() and fb == 46:
        return True
    if la == 46 and (48 <= fb <= 57):                        # '.' / '..' then digit
        return True
    if la == 45 and fb == 45:                                # comment
        return True
    if la == 47 and fb == 47:
        return True
    if la == 91 and fb in (91, 61):                          # long bracket
        return True
    if (48 <= la <= 57 or is_word(la)) and a[:1].isdigit() and fb in (b'e'[0], b'E'[0], b'x'[0], b'b'[0]):
        return True
    # two symbols forming a longer symbol (or part of one)
    for s in SYMBOLS:
        if len(s) < 2:
            continue
        for k in range(1, len(s)):
            if a.endswith(s[:k]) and b.startswith(s[k:]):
                return True
            if a.endswith(s[:k]) and s[k:].startswith(b[:len(s) - k]) and len(b) < len(s) - k:
                return True
    if la == 58 and fb == 58:
        return True
    return False


class Item:
    __slots__ = ('text', 'no_nl_before', 'nl_after', 'kind', 'opens', 'closes', '_short_closes')

    def __init__(self, text, kind='tok'):
        self.text = text
        self.no_nl_before = False
        self.nl_after = False
        self.kind = kind
        self.opens = []     # statement kinds that start at this token (outermost first)
        self.closes = 0     # number of statements that end at this token
        self._short_closes = 0

_SOURCE_WORDS = None


def source_words():
    """Identifier-like words that occur in the bytes constants of the CURRENT picotool source (docstrings excluded): the
    words the code itself compares things with (`include`, `require`, `lua`, `gfx`, `c`, `_update60`, `pico8`, ...). A few of them
    are used as ordinary identifiers in every generated program: an identifier is an identifier whatever it spells, and a word that a
    change teaches the code to look for enters this dictionary with the change."""
    global _SOURCE_WORDS
    if _SOURCE_WORDS is not None:
        return _SOURCE_WORDS
    import ast
    import os
    import re
    repo = os.environ.get('PICOTOOL_REPO', '/repo')
    words = set()
    for root, _, files in os.walk(os.path.join(repo, 'pico8')):
        for fn in files:
            if not fn.endswith('.py') or 'demos' in root:
                continue
            try:
                tree = ast.parse(open(os.path.join(root, fn), encoding='utf-8').read())
            except Exception:
                continue
            docs = set()
            for node in ast.walk(tree):
                if isinstance(node, (ast.Module, ast.ClassDef, ast.FunctionDef, ast.AsyncFunctionDef)) and node.body and \
                        isinstance(node.body[0], ast.Expr) and isinstance(node.body[0].value, ast.Constant):
                    docs.add(id(node.body[0].value))
            for node in ast.walk(tree):
                if isinstance(node, ast.Constant) and id(node) not in docs and isinstance(node.value, bytes):
                    v = node.value
                    if len(v) > 80:
                        continue
                    for w in re.findall(rb'[A-Za-z_][A-Za-z0-9_]*', v):
                        if w not in KEYWORDS and len(w) <= 16 and not re.fullmatch(rb'__[a-z]+__', w):
                            # (a line that reads as a `__section__` header is outside the .p8 format: C03 excludes such sources)
                            words.add(w)
    try:
        import sys
        sys.path.insert(0, repo)
        from pico8.lua import lua as _lua
        words -= set(getattr(_lua, 'PICO8_BUILTINS', ()))       # the API names are in BUILTINS already
    except Exception:
        pass
    _SOURCE_WORDS = sorted(words)
    return _SOURCE_WORDS


class LuaGen:
    def __init__(self, rng, max_depth=3, names=None, allow_nested_short_if=True, glyph_names=True,
                 stmt_budget=12, all_escapes=True):
        self.rng = rng
        self.max_depth = max_depth
        self.names = names or [b'a', b'b', b'x', b'y', b'foo', b'bar', b'i', b'n', b'tbl', b'p1', b'_v', b'ba', b'aa',
                               b'player_x', b'endx', b'dox', b'nilx', b'x2', b'T', b'Zz',
                               # identifiers that differ from a keyword in letter case only (Lua is case-sensitive)
                               b'In', b'Do', b'If', b'END', b'Nil', b'True', b'Function', b'NOT', b'oR', b'Local']
        if glyph_names:
            self.names = self.names + [b'\x80x', b'x\x99', b'\xe3\x81']
            sw = [w for w in source_words() if w != b'require']
            if sw and names is None:
                self.names = self.names + [rng.choice(sw) for _ in range(4)]
        self.allow_nested_short_if = allow_nested_short_if
        self.stmt_budget = stmt_budget
        self.all_escapes = all_escapes
        self.labels = []
        self.features = {}
        self.in_short_if = 0

    def feat(self, k):
        self.features[k] = self.features.get(k, 0) + 1

    # ---- leaves
    def name(self):
        r = self.rng.random()
        if r < 0.12:
            return self.rng.choice(BUILTINS)
        if r < 0.17:
            return self.rng.choice(GLYPHS)
        return self.rng.choice(self.names)

    def number(self):
        rng = self.rng
        k = rng.randrange(12)
        d = lambda n=3: bytes(rng.choice(b'0123456789') for _ in range(rng.randrange(1, n + 1)))  # noqa: E731
        h = lambda: bytes(rng.choice(b'0123456789abcdefABCDEF') for _ in range(rng.randrange(1, 4)))  # noqa: E731
        bn = lambda: bytes(rng.choice(b'01') for _ in range(rng.randrange(1, 6)))  # noqa: E731
        self.feat('num%d' % k)
        if k < 3:
            return d()
        if k == 3:
            return d() + b'.' + d()
        if k == 4:
            return d() + b'.'
        if k == 5:
            return b'.' + d()
        if k == 6:
            return d() + rng.choice([b'e', b'E']) + rng.choice([b'', b'-']) + d(2)
        if k == 7:
            return d() + b'.' + d() + b'e' + d(1)
        if k == 8:
            return rng.choice([b'0x', b'0X']) + h()
        if k == 9:
            return rng.choice([b'0x', b'0X']) + rng.choice([h(), b'']) + b'.' + h()
        if k == 10:
            return rng.choice([b'0b', b'0B']) + bn()
        return rng.choice([b'0b', b'0B']) + rng.choice([bn(), b'']) + b'.' + bn()

    def string(self):
        rng = self.rng
        k = rng.random()
        if k < 0.12:
            lvl = rng.choice([0, 0, 1, 2, 3])
            eq = b'=' * lvl
            body = bytearray()
            for _ in range(rng.randrange(0, 10)):
                body.append(rng.choice(b'ab ]=[\n"\\x1') if rng.random() < 0.8 else rng.randrange(256))
            if rng.random() < 0.3:
                # a line inside the string that BEGINS like something the cart formats give a meaning to at line start (but is not it)
                body += b'\n' + rng.choice([b'__index__ is', b'__gfx__x', b'__x__ y', b'__lua', b'_lua__', b'#include foo', b'-->9',
                                            b'version 8', b'pico-8 cartridge', b'__lua__ ', b'::c::', b':c:']) + rng.choice([b'', b'\n', b' z'])
                self.feat('longstr-lookalike-line')
            body = bytes(body)
            close = b']' + eq + b']'
            while close in body or (body + b']').endswith(close[:-1] + b']') and False:
                body = body.replace(close, b'')
            if body.endswith(b']') and lvl == 0:
                body += b' '
            if lvl and body.endswith(b']' + eq):
                body += b' '
            self.feat('longstr%d' % lvl)
            return b'[' + eq + b'[' + body + close
        q = rng.choice(b'"\'')
        out = bytearray([q])
        for _ in range(rng.randrange(0, 9)):
            r = rng.random()
            if r < 0.5:
                c = rng.choice(b'abz 019_-+*/(){}[]<>=,.:;#%&|^~@$!?')
                out.append(c)
            elif r < 0.62:
                c = rng.randrange(256)
                if c in (q, 0x5c, 0x0a, 0x0d):
                    c = 0x41
                out.append(c)
            elif r < 0.80:
                esc = rng.choice([b'n', b't', b'\\', b'"', b"'", b'a', b'b', b'f', b'r', b'v', b'*', b'#', b'-', b'|', b'+', b'^'])
                out += b'\\' + esc
                self.feat('esc-char')
            elif r < 0.92 and self.all_escapes:
                v = rng.choice([0, 1, 7, 9, 10, 14, 15, 16, 65, 127, 128, 255, rng.randrange(256)])
                nxt = rng.choice([b'', b'', rng.choice([b'0', b'1', b'9']), b'a', b'"' if q != 0x22 else b"'"])
                # a short form followed by a digit would absorb it: use three digits there
                form = '%03d' if nxt[:1].isdigit() else rng.choice(['%d', '%02d', '%03d'])
                out += b'\\' + (form % v).encode() + nxt
                if not nxt:
                    out += b' '
                self.feat('esc-dec')
            elif self.all_escapes:
                out += b'\\x' + bytes(rng.choice(b'0123456789abcdefABCDEF') for _ in range(2))
                self.feat('esc-hex')
        out.append(q)
        return bytes(out)

    # ---- expressions: return list of Items
    def T(self, text):
        return Item(text)

    def exp(self, depth, vararg=False):
        rng = self.rng
        if depth <= 0:
            k = rng.randrange(7)
        else:
            k = rng.randrange(16)
        if k == 0:
            return [self.T(rng.choice([b'nil', b'true', b'false']))]
        if k in (1, 2):
            return [self.T(self.number())]
        if k == 3:
            return [self.T(self.string())]
        if k in (4, 5):
            return [self.T(self.name())]
        if k == 6:
            return [self.T(b'...')] if vararg else [self.T(self.name())]
        if k in (7, 8, 9):
            self.feat('binop')
            return self.exp(depth - 1, vararg) + [self.T(rng.choice(BINOPS))] + self.exp(depth - 1, vararg)
        if k == 10:
            self.feat('unop')
            return [self.T(rng.choice(UNOPS))] + self.exp(depth - 1, vararg)
        if k == 11:
            return self.prefixexp(depth - 1, vararg)
        if k == 12:
            return self.table(depth - 1, vararg)
        if k == 13:
            self.feat('function-exp')
            return [self.T(b'function')] + self.funcbody(depth - 1)
        if k == 14:
            self.feat('paren-exp')
            return [self.T(b'(')] + self.exp(depth - 1, vararg) + [self.T(b')')]
        return self.call(depth - 1, vararg)

    def explist(self, depth, vararg=False, lo=1, hi=3):
        out = []
        for i in range(self.rng.randrange(lo, hi + 1)):
            if i:
                out.append(self.T(b','))
            out += self.exp(depth, vararg)
        return out

    def prefixexp(self, depth, vararg=False, must_be=None):
        """Name followed by index/attribute/call suffixes. must_be: None | 'var' | 'call'"""
        rng = self.rng
        out = [self.T(self.name())]
        n = rng.randrange(0, 4)
        last = 'var'
        for _ in range(n):
            k = rng.randrange(6)
            if k == 0:
                out += [self.T(b'[')] + self.exp(depth - 1, vararg) + [self.T(b']')]
                last = 'var'
                self.feat('index')
            elif k in (1, 2):
                out += [self.T(b'.'), self.T(rng.choice(self.names))]
                last = 'var'
                self.feat('attr')
            else:
                out += self.callsuffix(depth - 1, vararg)
                last = 'call'
        if must_be == 'var' and last != 'var':
            out += [self.T(b'.'), self.T(rng.choice(self.names))]
        if must_be == 'call' and last != 'call':
            out += self.callsuffix(depth - 1, vararg)
        return out

    def callsuffix(self, depth, vararg=False):
        rng = self.rng
        out = []
        if rng.random() < 0.25:
            out += [self.T(b':'), self.T(rng.choice(self.names))]
            self.feat('method-call')
        k = rng.randrange(8)
        if k == 0:
            out.append(self.T(self.string()))
            self.feat('string-call')
        elif k == 1:
            out += self.table(depth, vararg)
            self.feat('table-call')
        elif k == 2:
            out += [self.T(b'('), self.T(b')')]
        else:
            out += [self.T(b'(')] + self.explist(depth, vararg, 1, 3) + [self.T(b')')]
        return out

    def call(self, depth, vararg=False):
        self.feat('call')
        return self.prefixexp(depth, vararg, must_be='call')

    def table(self, depth, vararg=False):
        rng = self.rng
        self.feat('table')
        out = [self.T(b'{')]
        n = rng.randrange(0, 4)
        for i in range(n):
            if i:
                out.append(self.T(rng.choice([b',', b',', b';'])))
            k = rng.randrange(3)
            if k == 0:
                out += [self.T(b'[')] + self.exp(depth - 1, vararg) + [self.T(b']'), self.T(b'=')] + self.exp(depth - 1, vararg)
            elif k == 1:
                out += [self.T(rng.choice(self.names)), self.T(b'=')] + self.exp(depth - 1, vararg)
            else:
                out += self.exp(depth - 1, vararg)
        if n and rng.random() < 0.25:
            out.append(self.T(rng.choice([b',', b';'])))
            self.feat('table-trailing-sep')
        out.append(self.T(b'}'))
        return out

    def funcbody(self, depth):
        rng = self.rng
        out = [self.T(b'(')]
        n = rng.randrange(0, 3)
        vararg = rng.random() < 0.25
        for i in range(n):
            if i:
                out.append(self.T(b','))
            out.append(self.T(rng.choice(self.names)))
        if vararg:
            if n:
                out.append(self.T(b','))
            out.append(self.T(b'...'))
            self.feat('vararg')
        out.append(self.T(b')'))
        out += self.block(depth, vararg=vararg, in_func=True)
        out.append(self.T(b'end'))
        return out

    # ---- statements
    @staticmethod
    def tag(kind, items):
        items[0].opens.insert(0, kind)
        items[-1].closes += 1
        return items

    def simple_stat(self, depth, vararg=False, in_loop=False, no_qmark=False):
        rng = self.rng
        k = rng.randrange(10)
        if (no_qmark or self.in_short_if) and k == 8:
            k = 0
        if k < 5:
            self.feat('assign')
            n = rng.choice([1, 1, 1, 2])
            out = []
            for i in range(n):
                if i:
                    out.append(self.T(b','))
                out += self.prefixexp(depth - 1, vararg, must_be='var')
            op = rng.choice(ASSIGNOPS) if n == 1 else b'='
            if op != b'=':
                self.feat('compound-assign')
            return self.tag('StatAssignment', out + [self.T(op)] + self.explist(depth, vararg, 1, n + 1 if n > 1 else 1))
        if k < 8:
            return self.tag('StatFunctionCall', self.call(depth, vararg))
        if k == 8:
            self.feat('qmark-print')
            it = [self.T(b'?')]
            arg = rng.choice(['s', 'p'])
            it += [self.T(self.string())] if arg == 's' else [self.T(b'(')] + self.exp(depth - 1, vararg) + [self.T(b')')]
            for x in it[1:]:
                x.no_nl_before = True
            it[-1].nl_after = True
            return self.tag('StatFunctionCall', it)
        self.feat('local')
        out = [self.T(b'local')]
        n = rng.choice([1, 1, 2])
        for i in range(n):
            if i:
                out.append(self.T(b','))
            out.append(self.T(rng.choice(self.names)))
        if rng.random() < 0.8:
            out += [self.T(b'=')] + self.explist(depth, vararg, 1, n)
        return self.tag('StatLocalAssignment', out)

    def last_stat(self, depth, vararg, in_loop, in_func):
        rng = self.rng
        if in_loop and rng.random() < 0.5:
            self.feat('break')
            return self.tag('StatBreak', [self.T(b'break')])
        self.feat('return')
        out = [self.T(b'return')]
        if rng.random() < 0.7:
            out += self.explist(depth, vararg, 1, 2)
        return self.tag('StatReturn', out)

    def short_if(self, depth, vararg, in_loop, in_func):
        rng = self.rng
        self.feat('short-if')
        self.in_short_if += 1
        try:
            return self._short_if(depth, vararg, in_loop, in_func)
        finally:
            self.in_short_if -= 1

    def _short_if(self, depth, vararg, in_loop, in_func):
        rng = self.rng
        out = [self.T(b'if'), self.T(b'(')] + self.exp(depth - 1, vararg) + [self.T(b')')]
        body = []
        nested = False
        for i in range(rng.choice([1, 1, 2])):
            if i and rng.random() < 0.3:
                body.append(self.T(b';'))
            if self.allow_nested_short_if and depth > 1 and rng.random() < 0.08:
                body += self._short_if(depth - 1, vararg, in_loop, in_func)
                self.feat('nested-short-if')
                nested = True
                break
            body += self.simple_stat(depth - 1, vararg, in_loop, no_qmark=True)
        if not nested and rng.random() < 0.25:
            body += self.last_stat(depth - 1, vararg, in_loop, in_func)
        elif not nested and rng.random() < 0.3:
            body.append(self.T(b'else'))
            self.feat('short-if-else')
            if rng.random() < 0.9:
                body += self.simple_stat(depth - 1, vararg, in_loop, no_qmark=True)
        out += body
        for x in out[1:]:
            x.no_nl_before = True
        out[-1].nl_after = True
        return self.tag('StatIfShort', out)

    def stat(self, depth, vararg=False, in_loop=False, in_func=False):
        rng = self.rng
        k = rng.randrange(24) if depth > 0 else rng.randrange(9)
        if k < 9:
            return self.simple_stat(depth, vararg, in_loop)
        if k == 9:
            self.feat('do')
            return self.tag('StatDo', [self.T(b'do')] + self.block(depth - 1, vararg, in_loop, in_func) + [self.T(b'end')])
        if k == 10:
            self.feat('while')
            return self.tag('StatWhile', [self.T(b'while')] + self.exp(depth - 1, vararg) + [self.T(b'do')] + self.block(depth - 1, vararg, True, in_func) + [self.T(b'end')])
        if k == 11:
            self.feat('repeat')
            return self.tag('StatRepeat', [self.T(b'repeat')] + self.block(depth - 1, vararg, True, in_func) + [self.T(b'until')] + self.exp(depth - 1, vararg))
        if k in (12, 13):
            self.feat('if')
            out = [self.T(b'if')] + self.exp(depth - 1, vararg) + [self.T(b'then')] + self.block(depth - 1, vararg, in_loop, in_func)
            for _ in range(rng.choice([0, 0, 1, 2])):
                self.feat('elseif')
                out += [self.T(b'elseif')] + self.exp(depth - 1, vararg) + [self.T(b'then')] + self.block(depth - 1, vararg, in_loop, in_func)
            if rng.random() < 0.4:
                self.feat('else')
                out += [self.T(b'else')] + self.block(depth - 1, vararg, in_loop, in_func)
            return self.tag('StatIf', out + [self.T(b'end')])
        if k in (14, 15, 16):
            if self.in_short_if:
                return self.simple_stat(depth, vararg, in_loop)
            return self.short_if(depth, vararg, in_loop, in_func)
        if k == 17:
            self.feat('for-step')
            out = [self.T(b'for'), self.T(rng.choice(self.names)), self.T(b'=')] + self.exp(depth - 1, vararg) + [self.T(b',')] + self.exp(depth - 1, vararg)
            if rng.random() < 0.4:
                out += [self.T(b',')] + self.exp(depth - 1, vararg)
            return self.tag('StatForStep', out + [self.T(b'do')] + self.block(depth - 1, vararg, True, in_func) + [self.T(b'end')])
        if k == 18:
            self.feat('for-in')
            out = [self.T(b'for'), self.T(rng.choice(self.names))]
            if rng.random() < 0.5:
                out += [self.T(b','), self.T(rng.choice(self.names))]
            return self.tag('StatForIn', out + [self.T(b'in')] + self.explist(depth - 1, vararg, 1, 2) + [self.T(b'do')] + self.block(depth - 1, vararg, True, in_func) + [self.T(b'end')])
        if k in (19, 20):
            self.feat('function-stat')
            out = [self.T(b'function'), self.T(rng.choice(self.names + [b'_update60', b'_draw', b'_init']))]
            for _ in range(rng.choice([0, 0, 1, 2])):
                out += [self.T(b'.'), self.T(rng.choice(self.names))]
            if rng.random() < 0.2:
                out += [self.T(b':'), self.T(rng.choice(self.names))]
            return self.tag('StatFunction', out + self.funcbody(depth - 1))
        if k == 21:
            self.feat('local-function')
            return self.tag('StatLocalFunction', [self.T(b'local'), self.T(b'function'), self.T(rng.choice(self.names))] + self.funcbody(depth - 1))
        if k == 22:
            self.feat('goto')
            lbl = rng.choice(self.names)
            return self.tag('StatGoto', [self.T(b'goto'), self.T(lbl)])
        self.feat('label')
        return self.tag('StatLabel', [self.T(b'::' + rng.choice(self.names) + b'::')])

    def block(self, depth, vararg=False, in_loop=False, in_func=False, n=None):
        rng = self.rng
        out = []
        n = rng.choice([0, 1, 1, 2, 3]) if n is None else n
        for i in range(n):
            if self.stmt_budget <= 0:
                break
            self.stmt_budget -= 1
            st = self.stat(depth, vararg, in_loop, in_func)
            st[0].kind = 'stat-start'
            # a statement that starts with '(' would be glued to the previous one; ours never do
            out += st
            if rng.random() < 0.15:
                out.append(self.T(b';'))
                self.feat('semicolon')
        if (in_func or in_loop or depth < self.max_depth) and rng.random() < 0.3:
            st = self.last_stat(depth, vararg, in_loop, in_func)
            st[0].kind = 'stat-start'
            out += st
            if rng.random() < 0.2:
                out.append(self.T(b';'))
        return out

    def program(self, nstats=None):
        n = nstats if nstats is not None else self.rng.choice([1, 2, 3, 5, 8])
        self.stmt_budget = max(self.stmt_budget, n)
        return self.block(self.max_depth, n=n)


COMMENT_WORDS = [b'note', b'x=1', b'if then', b'--', b'[[', b']]', b'"', b'todo: \x8e', b'']


# comments on lines of their own (both spellings, indented and not, single and stacked)
OWN_LINE_COMMENTS = [b'\n-- own\n', b'\n  // own line\n', b'\n\t-- t\n  // u\n', b'\n//x\n', b'\n   --[[ blk ]]\n', b'\n// a\n// b\n\n']


def layout(rng, items, style='random', final_newline=None, header=None):
    """Join items into source text. Returns (source bytes, list of separators used)."""
    out = bytearray()
    if header:
        out += header
    prev = None
    need_nl = False
    for it in items:
        seps = []
        if prev is None:
            lead = rng.choice([b'', b'', b' ', b'\n', b'  \n ']) if style == 'random' and not header else b''
            out += lead
        else:
            sep_needed = must_separate(prev.text, it.text)
            nl_ok = not it.no_nl_before
            if need_nl:
                opts = [b'\n', b'\n', b' \n', b'\n\n', b' -- ' + rng.choice(COMMENT_WORDS).replace(b'\n', b' ') + b'\n',
                        b'\r\n', b' // c\n', b'\n  ', b'\r', b'\n\r'] + OWN_LINE_COMMENTS       # (a lone CR is a line end too)
                sep = rng.choice(opts) if style != 'compact' else b'\n'
            elif style == 'compact':
                sep = b' ' if sep_needed else b''
            elif style == 'lines':
                if it.kind == 'stat-start' and nl_ok:
                    sep = rng.choice([b'\n', b'\n', b'\n  ', b'\n\n', b'  \n\t', b' \n', b'\n\n\n ', b' -- c\n'] + OWN_LINE_COMMENTS)
                else:
                    sep = b' ' if (sep_needed or rng.random() < 0.7) else b''
            elif style == 'elements':
                # one statement per line, and bracketed lists may be broken one element per line: a line break may also follow an
                # opening bracket or a list comma and precede a closing bracket
                brk = prev.text in (b'(', b'{', b'[', b',') or it.text in (b')', b'}', b']')
                if nl_ok and (it.kind == 'stat-start' or (brk and rng.random() < 0.45)):
                    sep = rng.choice([b'\n', b'\n', b'\n  ', b'\n\n', b'  \n\t', b' \n'])
                else:
                    sep = b' ' if (sep_needed or rng.random() < 0.7) else b''
            elif style == 'breaks':
                # line breaks (no comments) before any token that may start a line: closing brackets, operators, arguments, ...
                if nl_ok and (it.kind == 'stat-start' or rng.random() < 0.3):
                    sep = rng.choice([b'\n', b'\n', b'\n  ', b'\n\n', b'  \n\t', b' \n'])
                else:
                    sep = b' ' if (sep_needed or rng.random() < 0.7) else b''
            elif style == 'spaced':
                sep = rng.choice([b' ', b' ', b'  ', b'\t']) if (sep_needed or rng.random() < 0.8) else b''
            else:
                opts = [b' ', b' ', b'  ', b'\t', b' --[[ c ]] ', b'--[[' + rng.choice(COMMENT_WORDS).replace(b']]', b'] ] ') + b']]']
                if not sep_needed:
                    opts += [b'', b'', b'']
                if nl_ok:
                    opts += [b'\n', b'\n', b'\n\n', b' \n  ', b' -- ' + rng.choice(COMMENT_WORDS).replace(b'\n', b' ') + b'\n',
                             b'\r\n', b'// ' + rng.choice(COMMENT_WORDS).replace(b'\n', b' ') + b'\n', b'\t\n', b'\r', b' \r '] + OWN_LINE_COMMENTS
                sep = rng.choice(opts)
                if sep.startswith(b'--') and prev.text.endswith(b'-'):
                    sep = b' ' + sep
                if sep.startswith(b'//') and prev.text.endswith(b'/'):
                    sep = b' ' + sep
                if sep.startswith(b'--[[') and sep.endswith(b']]') and must_separate(prev.text, it.text):
                    sep = sep + b' '
            out += sep
        out += it.text
        need_nl = it.nl_after
        prev = it
    if final_newline is None:
        final_newline = rng.random() < 0.7
    if final_newline or need_nl and rng.random() < 0.7:
        out += rng.choice([b'\n', b'\n', b'\n\n', b' \n']) if style == 'random' else b'\n'
    return bytes(out)


def gen_program(rng, style=None, **kw):
    if 'names' not in kw and rng.random() < 0.12:
        # a program whose identifiers are words the picotool source itself mentions (see source_words)
        sw = [w for w in source_words() if w != b'require']
        if sw:
            kw = dict(kw, names=[rng.choice(sw), rng.choice(sw), b'x'], glyph_names=False)
    g = LuaGen(rng, **kw)
    items = g.program()
    style = style or rng.choice(['random', 'random', 'compact', 'spaced', 'lines'])
    return layout(rng, items, style), items, g.features


LOOKALIKE_LINES = [b'__index__ is', b'__gfx__x', b'__x__ y', b'__lua', b'_lua__', b'#include foo', b'-->9', b'version 8', b'pico-8 cartridge',
                   b'__lua__ ', b'::c::', b':c:', b'__init__(self)', b' __gfx__', b'__gfx__ ',
                   # whole lines of underscores around glyph identifiers: no section header (a header name is ASCII), though their
                   # Unicode spelling in the .p8 file consists of letters
                   b'__\xd1__', b'__a\x9a__', b'__\x80x__', b'__\xe3\x81__', b'__\x89__']


def lookalike_programs():
    """Programs in which a line INSIDE a long string, a long comment or a continued quoted string begins like something the cart formats
    give a meaning to at the start of a line (a section header, an include, a tab cut) without being it: to every tool it is text."""
    allb = b'\n'.join(LOOKALIKE_LINES)
    out = [b'--[[ all of them\n' + allb + b'\n]]\nlocal s = [==[\n' + allb + b'\n]==]\nx = #s\n']
    for ll in LOOKALIKE_LINES:
        out.append(b'local s = [[a\n' + ll + b'\nb]]\nx = #s\n')
        out.append(b'--[[ c\n' + ll + b'\n]]\nx = 1\n')
        out.append(b'local t = [==[\n' + ll + b']==] y = "a\\\n' + ll + b'"\n')
    return out


def word_program(rng, w, style=None):
    """A fixed program in which the identifier `w` stands in every syntactic position an identifier can have (operand of every unary
    operator, assignment target, field, method, function name, parameter, loop variable, table key, label, goto target, call with
    string / table argument), with statement tags, laid out like any generated program."""
    g = LuaGen(rng, names=[w], glyph_names=False)
    T, tag = g.T, LuaGen.tag

    def S(kind, *parts):
        out = []
        for p in parts:
            out += p if isinstance(p, list) else [T(p)]
        return tag(kind, out)
    A, C = 'StatAssignment', 'StatFunctionCall'
    items = []
    items += S(A, b'x', b'=', b'#', w)
    items += S(A, w, b'=', b'-', w, b'+', b'#', w, b'*', b'~', w)
    items += S(A, b't', b'[', b'#', w, b'+', b'1', b']', b'=', b'not', w)
    items += S(A, w, b'.', w, b'=', w, b'.', w, b'..', w)
    items += S(C, w, b':', w, b'(', w, b',', b'#', w, b')')
    items += S('StatFunction', b'function', w, b'.', w, b':', w, b'(', w, b')', S('StatReturn', b'return', w), b'end')
    items += S('StatLocalFunction', b'local', b'function', w, b'(', w, b',', b'...', b')', S('StatReturn', b'return', b'...'), b'end')
    items += S('StatLocalAssignment', b'local', w, b',', b'x', b'=', w)
    items += S('StatForStep', b'for', w, b'=', b'1', b',', b'#', w, b'do', S(C, w, b'(', b')'), b'end')
    items += S('StatForIn', b'for', w, b',', b'x', b'in', w, b'(', w, b')', b'do', b'end')
    items += S(A, b't', b'=', b'{', w, b'=', w, b',', b'[', w, b']', b'=', w, b';', w, b'}')
    items += S('StatLabel', b'::' + w + b'::')
    items += S('StatGoto', b'goto', w)
    items += S(C, w, b'"s"')
    items += S(C, w, b'{', w, b'}')
    items += S(A, b'x', b'=', b'@', w, b'+', b'%', w, b'+', b'$', w)
    items += S('StatWhile', b'while', w, b'do', S('StatBreak', b'break'), b'end')
    items += S('StatRepeat', b'repeat', b'until', w)
    items += S('StatIf', b'if', w, b'then', S(A, w, b'+=', b'1'), b'elseif', b'#', w, b'>', b'0', b'then', b'else', b'end')
    items += S('StatDo', b'do', S(A, b'x', b'=', w), b'end')
    items += S('StatReturn', b'return', w)
    style = style or rng.choice(['random', 'spaced', 'lines', 'compact'])
    return layout(rng, items, style), items


def word_programs(rng, per_word=1):
    """`word_program` for every word of the source dictionary."""
    out = []
    for w in source_words():
        for k in range(per_word):
            out.append(word_program(rng, w, style=['spaced', 'random', 'lines', 'compact'][k % 4]))
    return out


def expected_statements(items):
    """[(kind, first item index, last item index)] in source order of statement starts (outermost first)."""
    out = []
    stack = []
    for i, it in enumerate(items):
        for k in it.opens:
            stack.append((k, i, len(out)))
            out.append(None)
        for _ in range(it.closes):
            k, start, slot = stack.pop()
            out[slot] = (k, start, i)
    assert not stack
    return out


ESC_ATOMS = [b'\\\\', b'\\"', b"\\'", b'\\n', b'\\t', b'\\a', b'\\b', b'\\f', b'\\r', b'\\v', b'\\0', b'\\9', b'\\14', b'\\15', b'\\92', b'\\092', b'\\x5c', b'\\x5C', b'\\34',
             b'\\39', b'\\10', b'\\13', b'\\x0a', b'\\x00', b'\\000', b'\\014', b'\\255', b'\\*', b'\\#', b'\\-', b'\\|', b'\\+', b'\\^', b'\\\n']
DIGIT_TAILS = [b'', b'0', b'7', b'00', b'07', b'49', b'007', b'1499', b'15', b'153', b'x41', b'n', b'\\']


def string_escape_cases(rng, nrandom):
    """Programs made of quoted literals whose bodies put every escape spelling next to what could be read as its continuation: digits after
    numbered and named escapes (and after an escaped backslash), escape letters after an escape whose value is a backslash, raw control
    bytes whose canonical spelling is a short numbered escape followed by digits."""
    out = []
    for a in ESC_ATOMS:
        for t in DIGIT_TAILS:
            if t == b'\\':
                t = b'\\\\'
            out.append(b's="' + a + t + b'" t=\'k' + a + a + t + b"'\n")
    for raw in (b'\x00', b'\x0e', b'\x0f', b'\x01', b'\x06', b'\x07', b'\x0b', b'\x7f', b'\x80', b'\xff'):
        for t in (b'', b'0', b'7', b'07', b'123', b'a'):
            out.append(b'r="' + raw + t + b'" q=\'' + raw + raw + t + b"'\n")
    atoms = ESC_ATOMS + [b'n', b'x', b'5', b'c', b'0', b'9', b'2', b'1', b'4', b' ', b'\x80', b'\xff', b'a', b'\x00', b'\x0e']
    for _ in range(nrandom):
        body = b''.join(rng.choice(atoms) for _ in range(rng.randrange(1, 7)))
        out.append(b'v="' + body + b'" w=\'' + body + b"'\n")
    return out
