"""Shared machinery for all property checks (see DESIGN.md section 2.2).

Flow of one run (harness/check.py):
  0. regenerate lean/PicoVerif/Gen/*.lean from the repo working tree
  1. lake build the property's Props module (+ the compiled driver); audit axioms; grep sources
  2. correspondence (implementation in-process  vs  compiled Lean model) + direct property oracle
  3. decide: VIOLATION with a failing input / no-failing-input-found / KNOWN-FINDING / ok
  4. write evidence/<id>.json
"""
import fcntl
import hashlib
import json
import os
import random
import re
import shutil
import subprocess
import sys
import tempfile
import time

VERIF = os.path.dirname(os.path.dirname(os.path.abspath(__file__)))
REPO = os.environ.get('PICOTOOL_REPO', '/repo')
LEAN = os.path.join(VERIF, 'lean')
PY = sys.executable
DRIVER = os.path.join(LEAN, '.lake', 'build', 'bin', 'picomodel')
ALLOWED_AXIOMS = {'propext', 'Classical.choice', 'Quot.sound'}
FORBIDDEN_RE = re.compile(
    r'\bsorry\b|\badmit\b|^axiom |native_decide|bv_decide|implemented_by|\bunsafe |maxHeartbeats 0')

TRUSTED_BASE = [
    'Lean 4.33.0 kernel (leanchecker re-check in thorough tier)',
    'axioms allowed: propext, Classical.choice, Quot.sound (audited per theorem by #print axioms each run)',
    'tools/gen_tables.py (translator of tables/constants from /repo into Lean data)',
    'correspondence harness (differential execution of Lean model vs implementation; generator-bounded)',
    'CPython semantics of re, bytes/bytearray slicing, int/float, str<->UTF-8, os.path; pypng, zlib',
]


def ensure_repo_on_path():
    if sys.path[0] != REPO:
        sys.path.insert(0, REPO)
    sys.dont_write_bytecode = True


class Infra(Exception):
    """Infrastructure failure: exit 2, never a violation."""


def hx(b):
    b = bytes(b)
    return b.hex() if b else '-'


def unhx(s):
    return b'' if s == '-' else bytes.fromhex(s)


class Lock:
    def __enter__(self):
        os.makedirs(os.path.join(LEAN, '.lake'), exist_ok=True)
        self.fh = open(os.path.join(LEAN, '.lake', 'verif.lock'), 'w')
        fcntl.flock(self.fh, fcntl.LOCK_EX)
        return self

    def __exit__(self, *a):
        fcntl.flock(self.fh, fcntl.LOCK_UN)
        self.fh.close()


def gen_tables():
    env = dict(os.environ, PICOTOOL_REPO=REPO, PYTHONDONTWRITEBYTECODE='1')
    p = subprocess.run([PY, os.path.join(VERIF, 'tools', 'gen_tables.py')],
                       capture_output=True, text=True, env=env)
    return p.returncode == 0, p.stdout + p.stderr


def lake_build(targets, timeout=3000):
    p = subprocess.run(['lake', 'build'] + targets, cwd=LEAN, capture_output=True,
                       text=True, timeout=timeout)
    return p.returncode == 0, p.stdout + p.stderr


def theorem_names(props_file):
    """(namespace-qualified) names of the theorems stated in a Props file, with line numbers."""
    names = []
    ns = []
    with open(props_file, encoding='utf-8') as fh:
        for i, line in enumerate(fh, 1):
            m = re.match(r'^namespace\s+(\S+)', line)
            if m:
                ns.append(m.group(1))
                continue
            m = re.match(r'^end\s+(\S+)', line)
            if m and ns and ns[-1] == m.group(1):
                ns.pop()
                continue
            m = re.match(r'^(?:@\[[^\]]*\]\s*)?(?:private\s+|protected\s+)?theorem\s+([^\s:({\[]+)', line)
            if m:
                names.append(('.'.join(ns + [m.group(1)]), i))
    return names


def broken_theorems(props_file, build_out):
    """Map error positions in lake output to the theorem they fall in."""
    names = theorem_names(props_file)
    rel = os.path.relpath(props_file, LEAN)
    broken = []
    for m in re.finditer(r'error: (\S+?):(\d+):(\d+):', build_out):
        if os.path.normpath(m.group(1)) != os.path.normpath(rel):
            continue
        ln = int(m.group(2))
        cur = None
        for n, l in names:
            if l <= ln:
                cur = n
        if cur and cur not in broken:
            broken.append(cur)
    return broken


def audit_axioms(prop, module, names):
    """Run `#print axioms` for every theorem; return {name: [axioms]} and the raw output."""
    d = os.path.join(LEAN, '.lake', 'audit')
    os.makedirs(d, exist_ok=True)
    f = os.path.join(d, 'Audit_%s.lean' % prop)
    with open(f, 'w') as fh:
        fh.write('import %s\n' % module)
        for n in names:
            fh.write('#print axioms %s\n' % n)
    p = subprocess.run(['lake', 'env', 'lean', f], cwd=LEAN, capture_output=True, text=True, timeout=1200)
    out = p.stdout + p.stderr
    res = {}
    for m in re.finditer(r"'([^']+)' (depends on axioms: \[([^\]]*)\]|does not depend on any axioms)", out):
        axs = [a.strip() for a in (m.group(3) or '').replace('\n', ' ').split(',') if a.strip()]
        res[m.group(1)] = axs
    return res, out


def grep_forbidden(files):
    hits = []
    for f in files:
        in_block = 0
        with open(f, encoding='utf-8') as fh:
            for i, line in enumerate(fh, 1):
                code = line
                # strip block comments (approximate, nest-aware) and line comments
                out = []
                j = 0
                while j < len(code):
                    if code.startswith('/-', j):
                        in_block += 1
                        j += 2
                    elif code.startswith('-/', j) and in_block:
                        in_block -= 1
                        j += 2
                    elif in_block:
                        j += 1
                    elif code.startswith('--', j):
                        break
                    else:
                        out.append(code[j])
                        j += 1
                code = ''.join(out)
                if FORBIDDEN_RE.search(code):
                    hits.append('%s:%d: %s' % (os.path.relpath(f, VERIF), i, line.strip()))
    return hits


def lean_imports_closure(module):
    """Source files (within lean/) transitively imported by `module`."""
    seen = {}
    todo = [module]
    while todo:
        m = todo.pop()
        if m in seen:
            continue
        f = os.path.join(LEAN, m.replace('.', '/') + '.lean')
        if not os.path.exists(f):
            continue
        seen[m] = f
        with open(f, encoding='utf-8') as fh:
            for line in fh:
                mm = re.match(r'^import\s+(\S+)', line)
                if mm and mm.group(1).startswith('PicoVerif'):
                    todo.append(mm.group(1))
    return seen


class Model:
    """Batch interface to the compiled Lean driver (line protocol)."""

    def __init__(self):
        self.available = os.path.exists(DRIVER)
        self.calls = 0

    def run(self, lines, timeout=3000):
        if not self.available:
            raise Infra('driver not built')
        if not lines:
            return []
        data = ('\n'.join(lines) + '\n').encode()
        p = subprocess.run([DRIVER], input=data, capture_output=True, timeout=timeout)
        if p.returncode != 0:
            raise Infra('driver exited %d: %s' % (p.returncode, p.stderr.decode(errors='replace')[:500]))
        out = p.stdout.decode().split('\n')
        if out and out[-1] == '':
            out.pop()
        if len(out) != len(lines):
            raise Infra('driver returned %d lines for %d requests' % (len(out), len(lines)))
        self.calls += len(lines)
        return out


class Ctx:
    def __init__(self, prop, tier, seed):
        self.prop = prop
        self.tier = tier
        self.seed = seed
        self.rng = random.Random(seed * 1000003 + int(hashlib.sha1(prop.encode()).hexdigest()[:6], 16))
        self.model = Model()
        self.t0 = time.time()
        self.deep = False          # set for the failing-input search pass
        self.tmp = tempfile.mkdtemp(prefix='picoverif-%s-' % prop)

    def thorough(self):
        return self.tier == 'thorough' or self.deep

    def budget(self, quick, thorough):
        if self.tier == 'thorough':
            return thorough
        if self.deep:       # failing-input search after a broken obligation / correspondence diff
            return min(thorough, 4 * quick)
        return quick

    def cleanup(self):
        shutil.rmtree(self.tmp, ignore_errors=True)


class Result:
    """What a property module's run() reports."""

    def __init__(self):
        self.evaluations = 0
        self.nontrivial = set()      # distinct non-trivial case keys (hashable, small)
        self.rule = ''
        self.samples = []
        self.diffs = []              # correspondence disagreements: dicts
        self.failures = []           # property violations on the implementation: dicts with 'key','what','input'
        self.extra = {}              # extra coverage keys
        self.histogram = {}

    def count(self, k, n=1):
        self.histogram[k] = self.histogram.get(k, 0) + n

    def sample(self, s, cap=6):
        if len(self.samples) < cap:
            self.samples.append(s)

    def diff(self, case, impl, model, **kw):
        d = {'case': case, 'impl': impl, 'model': model}
        d.update(kw)
        self.diffs.append(d)

    def fail(self, key, what, inp, **kw):
        d = {'key': key, 'what': what, 'input': inp}
        d.update(kw)
        self.failures.append(d)


def load_known(prop):
    f = os.path.join(VERIF, 'known_findings.json')
    if not os.path.exists(f):
        return []
    with open(f) as fh:
        data = json.load(fh)
    return [e for e in data.get('findings', []) if e.get('property') == prop]


def write_replay(prop, seed, n, obj):
    d = os.path.join(VERIF, 'replay')
    os.makedirs(d, exist_ok=True)
    f = os.path.join(d, '%s-%d-%d.json' % (prop, seed, n))
    with open(f, 'w') as fh:
        json.dump(obj, fh, indent=1, default=str)
    return os.path.relpath(f, VERIF)


def write_evidence(prop, obj):
    d = os.path.join(VERIF, 'evidence')
    os.makedirs(d, exist_ok=True)
    with open(os.path.join(d, prop + '.json'), 'w') as fh:
        json.dump(obj, fh, indent=1, default=str)
