"""Helpers for the token-stream writer properties (C01, C02, C06, C19): run the real writers, parse Spec tokens."""
import os

from common import hx
import lexutil as L


def parse_toks(line):
    """'ok kind.hex.line.col.q ...' -> list of (kind, data bytes, line, col, q) or None."""
    if not line.startswith('ok'):
        return None
    out = []
    for t in line[3:].split(' '):
        if t in ('-', ''):
            continue
        k, d, ln, col, q = t.split('.')
        out.append((k, b'' if d == '-' else bytes.fromhex(d), int(ln), int(col), q))
    return out


TRIVIA = ('space', 'newline', 'comment')


def sig(toks):
    return [t for t in toks if t[0] not in TRIVIA]


def gaps_have_newline(toks):
    """For consecutive significant tokens: does the gap between them contain a newline token?"""
    out = []
    cur = None
    seen = False
    for t in toks:
        if t[0] in TRIVIA:
            if t[0] == 'newline' and cur is not None:
                seen = True
            continue
        if cur is not None:
            out.append(seen)
        cur = t
        seen = False
    return out


def real_tokens(chunks):
    from pico8.lua import lexer
    lx = lexer.Lexer(version=8)
    lx.process_lines(list(chunks))
    return lx.tokens


def minify(src_chunks, cfg, keep_path=None):
    """Output of LuaMinifyTokenWriter on the real token stream (parser bypassed: it ignores the tree)."""
    from pico8.lua import lua
    toks = real_tokens(src_chunks)
    args = {}
    if cfg == 'keepall':
        args['keep_all_names'] = True
    elif cfg == 'keepfile':
        args['keep_names_from_file'] = keep_path
    w = lua.LuaMinifyTokenWriter(tokens=toks, root=None, args=args)
    return b''.join(w.to_lines())


def token_count(chunks):
    from pico8.lua import lua
    l = lua.Lua(version=8)
    l._lexer.process_lines(list(chunks))
    return l.get_token_count()


def write_keep_file(ctx, names, name='keep.txt', style=0):
    p = os.path.join(ctx.tmp, name)
    with open(p, 'wb') as fh:
        for i, n in enumerate(names):
            if style and i % 3 == 0:
                fh.write(b'# comment\n\n')
            fh.write((b'  ' if style and i % 2 else b'') + n + (b' \n' if style else b'\n'))
    return p
