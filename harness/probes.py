"""History independence: the same library calls give the same results whatever the process did before.

Every property module hands a list of (probe name, hex-encoded arguments) to `history_independence`.  The probes are small,
deterministic functions of their arguments that call the implementation (a Lua text minified, formatted, echoed, lexed, parsed,
compressed, written as a cart, ...).  They are evaluated three times:

  warm           in the long-lived process of the check, after everything the check has done (hundreds of other inputs);
  cold           in a fresh interpreter, in the given order;
  cold-reversed  in another fresh interpreter, in reverse order.

All three must agree: a difference means a result depends on state kept between calls (module-level caches, class attributes used as
instance state, mutable default arguments, objects edited in place) — exactly what no single-call test can see.
"""
import json
import os
import subprocess
import sys

from common import REPO, hx


def _lua(src, version=8):
    from pico8.lua import lua
    return lua.Lua.from_lines([src], version=version)


def probe(name, args):
    """One probe; args are bytes objects.  Returns a short string (hex of the result or 'err <type>')."""
    try:
        from pico8.lua import lua, lexer
        if name == 'minify':
            return hx(b''.join(_lua(args[0]).to_lines(writer_cls=lua.LuaMinifyTokenWriter)))
        if name == 'luafmt':
            return hx(b''.join(_lua(args[0]).to_lines(writer_cls=lua.LuaFormatterWriter, writer_args={'indentwidth': args[1][0] if len(args) > 1 and args[1] else 2})))
        if name == 'astecho':
            return hx(b''.join(_lua(args[0]).to_lines(writer_cls=lua.LuaASTEchoWriter)))
        if name == 'echo':
            return hx(b''.join(_lua(args[0]).to_lines()))
        if name == 'lex':
            lx = lexer.Lexer(version=8)
            lx.process_lines([args[0]])
            return hx(repr([(type(t).__name__, t._data, t._lineno, t._charno) for t in lx.tokens]).encode())
        if name == 'parse':
            from props import C08
            return hx(C08.impl_parse(args[0])[0].encode())
        if name == 'stats':
            l = _lua(args[0])
            return hx(repr((l.get_token_count(), l.get_char_count(), l.get_line_count(), l.get_title(), l.get_byline())).encode())
        if name == 'compress':
            from pico8.game import compress
            return hx(bytes(compress.compress_code(args[0])))
        if name == 'decompress':
            from pico8.game import compress
            return hx(repr(compress.decompress_code(args[0])[:2]).encode())
        if name == 'code2bytes':
            from pico8.game.formatter import p8png
            return hx(bytes(p8png.get_bytes_from_code(args[0])))
        if name == 'p2u':
            return hx(lua.p8scii_to_unicode(args[0]).encode('utf-8'))
        if name == 'u2p':
            return hx(lua.unicode_to_p8scii(args[0].decode('utf-8')))
        if name == 'names':
            f = lua.MinifyNameFactory()
            return hx(b' '.join(f.get_short_name(n) for n in args[0].split(b' ')))
        if name in ('p8write', 'pngregions', 'sections'):
            import io
            import implutil as U
            g = U.make_game(regions=dict(zip(('gfx', 'map', 'gff', 'music', 'sfx'), args[1:6])), code=args[0], version=8)
            if name == 'sections':
                return hx(b'|'.join(b''.join(getattr(g, k).to_lines()) for k in ('gfx', 'map', 'gff', 'music', 'sfx')))
            from pico8.game.formatter.p8 import P8Formatter
            out = io.BytesIO()
            P8Formatter.to_file(g, out)
            if name == 'p8write':
                return hx(out.getvalue())
            g2 = P8Formatter.from_file(io.BytesIO(out.getvalue()))
            return hx(b''.join(bytes(getattr(g2, k)._data) for k in ('gfx', 'map', 'gff', 'music', 'sfx')) + b''.join(g2.lua.to_lines()))
        if name == 'empty':
            from pico8.game.game import Game
            g = Game.make_empty_game()
            return hx(b''.join(bytes(getattr(g, k)._data) for k in ('gfx', 'map', 'gff', 'music', 'sfx')))
        if name == 'includes':
            from pico8.game.formatter import p8
            return hx(b''.join(p8.lines_for_tab(iter(args[0].split(b'\x00')), args[1][0] if len(args) > 1 and args[1] else None)))
        return 'err unknown-probe'
    except Exception as e:
        return 'err ' + type(e).__name__


def _run_all(cases):
    return [probe(n, [bytes.fromhex(a) for a in args]) for n, args in cases]


def history_independence(ctx, res, prop, cases):
    """cases: list of (probe name, [bytes, ...]).  Compares warm / cold / cold-reversed results."""
    if not cases:
        return
    enc = [(n, [bytes(a).hex() for a in args]) for n, args in cases]
    warm = _run_all(enc)
    cold = {}
    for order in ('forward', 'reversed'):
        seq = enc if order == 'forward' else list(reversed(enc))
        code = ('import sys, json\n'
                'sys.path.insert(0, %r); sys.path.insert(0, %r); sys.dont_write_bytecode = True\n'
                'import probes\n'
                'print(json.dumps(probes._run_all(json.loads(sys.stdin.read()))))\n' % (REPO, os.path.dirname(os.path.abspath(__file__))))
        env = dict(os.environ, PICOTOOL_REPO=REPO)
        p = subprocess.run([sys.executable, '-c', code], input=json.dumps(seq), capture_output=True, text=True, env=env, timeout=1200)
        try:
            out = json.loads(p.stdout.strip().splitlines()[-1])
        except Exception:
            res.fail('%s:history:fresh-interpreter' % prop, 'the probes could not be evaluated in a fresh interpreter: %s' % (p.stderr[-300:],), {'order': order})
            return
        cold[order] = out if order == 'forward' else list(reversed(out))
    res.evaluations += len(cases)
    res.count('history-independence-probes', len(cases))
    for i, (n, args) in enumerate(cases):
        w, c1, c2 = warm[i], cold['forward'][i], cold['reversed'][i]
        if not (w == c1 == c2):
            which = 'after everything this check had done' if w != c1 else 'depending on the order of the calls before it'
            res.fail('%s:history:%s:%s' % (prop, n, bytes(args[0]).hex()[:40]),
                     'the result of %s(...) differs %s (state is kept between calls)' % (n, which),
                     {'probe': n, 'args': [bytes(a).hex()[:400] for a in args]},
                     observed={'warm': w[:200], 'fresh': c1[:200], 'fresh_reversed_order': c2[:200]})
            break


def default_cases(prop, rng):
    """The probe list of a property: generated programs / texts / regions plus fixed shapes known to be sensitive to kept state."""
    import gen_lua
    import implutil as U
    lua_fixed = [b'a=\'"x"\' b="\\"x\\""\n', b'a="\\"x\\"" b=\'"x"\'\n', b'a=[[one]] b=[=[two]]three]=] c=[==[x]=]y]==]\n', b's="\\6" t="\\65" u="\\065" v="\\6" .."5"\n',
                 b'if (a) b=1 c=2\nd=3\n', b'if (a) b=1\nc=2 d=3\n', b'-- title\n-- by me\nx=1\n', b'x=1\n', b'--[[ t ]] y=2\n', b'::l\x99:: goto l\x99\n',
                 b'x = 6/-2 -- c\ny = 1 // d\n', b'function f(a,b) local c=a..b return c end\n', b'', b'-- only\n']
    progs = lua_fixed + [gen_lua.gen_program(rng)[0] for _ in range(10)]
    rng.shuffle(progs)
    fam = {'C01': ('minify', 'stats'), 'C06': ('echo', 'lex'), 'C07': ('lex', 'stats'), 'C08': ('parse',), 'C09': ('luafmt', 'astecho'),
           'C10': ('luafmt',), 'C19': ('minify', 'stats'), 'C02': ('minify',)}
    cases = []
    if prop in fam:
        for p_ in progs:
            for n in fam[prop]:
                cases.append((n, [p_, bytes([rng.choice([0, 1, 2, 3, 4, 8])])] if n == 'luafmt' else [p_]))
    if prop == 'C02':
        for _ in range(6):
            names = [rng.choice([b'a', b'b', b'foo', b'bar', b'x\x99', b'player', b'endx', b'print', b'zz']) for _ in range(rng.randrange(1, 12))]
            cases.append(('names', [b' '.join(names)]))
    if prop in ('C03', 'C16'):
        for _ in range(4):
            regs = [U.rand_bytes(rng, sz) for _, sz in (('gfx', 0x2000), ('map', 0x1000), ('gff', 0x100), ('music', 0x100), ('sfx', 0x1100))]
            cases.append(('sections', [b'x=1\n'] + regs))
            if prop == 'C03':
                cases.append(('p8write', [rng.choice(progs)] + regs))
                cases.append(('pngregions', [b'y=2\n'] + regs))
    if prop in ('C04', 'C05'):
        texts = [b'', b'x=1\n', b'print("hello")\n' * 9, b'function _update60() end\n', bytes(rng.randrange(32, 127) for _ in range(300)), b'ab' * 200] + progs[:6]
        for t in texts:
            cases.append(('compress', [t]))
            if prop == 'C04':
                cases.append(('code2bytes', [t]))
    if prop == 'C13':
        cases += [('empty', [b''])] * 3
    if prop == 'C15':
        for _ in range(12):
            b_ = bytes(rng.randrange(256) for _ in range(rng.choice([1, 2, 5, 40])))
            cases.append(('p2u', [b_]))
        from pico8.lua import lua
        for _ in range(6):
            b_ = bytes(rng.randrange(256) for _ in range(rng.choice([1, 3, 20])))
            cases.append(('u2p', [lua.p8scii_to_unicode(b_).encode('utf-8')]))
    if prop == 'C20':
        for _ in range(10):
            lines_ = [rng.choice([b'-->8\n', b'a=1\n', b'b=2\n', b'x=1 -->8\n', b'\n']) for _ in range(rng.randrange(0, 9))]
            cases.append(('includes', [b'\x00'.join(lines_), bytes([rng.randrange(0, 5)])]))
            cases.append(('includes', [b'\x00'.join(lines_), b'']))
    return cases
