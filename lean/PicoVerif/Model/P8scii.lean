import PicoVerif.Base.Bytes
import PicoVerif.Gen.Lua
/-! Model of `p8scii_to_unicode` / `unicode_to_p8scii` (pico8/lua/lua.py:293-324).
Unicode text is a list of code points (`List Nat`); UTF-8 itself is trusted. -/
namespace Pico.P8scii

abbrev Table := List (Nat × List Nat)

/-- `P8SCII_CHARSET[b].p8string` — indexed by *list position* (lua.py:324) -/
def spelling (tbl : Table) (i : Nat) : List Nat := (tbl[i]?.map (·.2)).getD []

/-- `p8scii_to_unicode` (lua.py:315). (`IndexError` cannot happen when the table has 256 rows.) -/
def toUnicode (tbl : Table) (bs : Bytes) : List Nat := bs.flatMap (fun b => spelling tbl b.toNat)

/-- `UNICODE_TO_P8SCII[s]`: a dict built from the table, later rows overwrite (lua.py:293) -/
def lookupCode (tbl : Table) (s : List Nat) : Option Nat :=
  (tbl.reverse.find? (fun e => e.2 == s)).map (·.1)

/-- `UNICODE_CHAR_WIDTHS[c]`: first code point -> length of spelling, later *keys* overwrite (lua.py:294).
Dict keys iterate in first-insertion order of distinct spellings; with duplicate-free spellings that is table order. -/
def lookupWidth (tbl : Table) (c : Nat) : Option Nat :=
  (tbl.reverse.find? (fun e => e.2.head? == some c)).map (·.2.length)

/-- `unicode_to_p8scii` (lua.py:297); `none` = KeyError. Fuel bounds the `while` loop. -/
def toP8F (tbl : Table) : Nat → List Nat → Option (List Nat)
  | 0, _ => none
  | _ + 1, [] => some []
  | fuel + 1, c :: rest =>
    match lookupWidth tbl c with
    | none => none
    | some w =>
      match lookupCode tbl ((c :: rest).take w) with
      | none => none
      | some code =>
        if w = 0 then none else
        (toP8F tbl fuel ((c :: rest).drop w)).map (code :: ·)

def toP8 (tbl : Table) (s : List Nat) : Option (List Nat) := toP8F tbl (s.length + 1) s

/-- a code point Python can put in a `str` and encode as UTF-8 -/
def validScalar (c : Nat) : Bool := c < 0x110000 && !(0xD800 ≤ c && c ≤ 0xDFFF)

end Pico.P8scii
