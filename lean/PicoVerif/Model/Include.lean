import PicoVerif.Base.Path
import PicoVerif.Gen.Game
/-! Model of `#include` processing (pico8/game/formatter/p8.py: `INCLUDE_LINE_RE`, `lines_for_tab`, `process_includes`)
and of the `require()` file lookup (pico8/build/build.py: the path filter of `_evaluate_require`, `_locate_require_file`).
The file system is a parameter. -/
namespace Pico.Inc
open Pico.Path

def isReSpace (b : UInt8) : Bool := b == 32 || (9 ≤ b && b ≤ 13)

structure IncMatch where
  path : Bytes          -- group 1
  ext : Bytes           -- group 2: .p8.png | .p8 | .lua
  tab : Option Nat      -- group 3 without the colon
  deriving DecidableEq, Repr

def exts : List Bytes := [".p8.png".toUTF8.toList, ".p8".toUTF8.toList, ".lua".toUTF8.toList]

/-- the longest non-empty prefix `P` of the run such that the rest starts with an extension (first listed wins):
the backtracking of the greedy `(\S+)` -/
def splitExt (run : Bytes) : Nat → Option (Bytes × Bytes)
  | 0 => none
  | k + 1 =>
    match exts.find? (fun e => e.isPrefixOf (run.drop (k + 1))) with
    | some e => some (run.take (k + 1), e)
    | none => splitExt run k

/-- `INCLUDE_LINE_RE.match(line)`: `\s*#include\s+(\S+)(\.p8\.png|\.p8|\.lua)(\:\d+)?` -/
def matchInclude (line : Bytes) : Option IncMatch :=
  let s := line.dropWhile isReSpace
  if !"#include".toUTF8.toList.isPrefixOf s then none else
  let s := s.drop 8
  let ws := (s.takeWhile isReSpace).length
  if ws = 0 then none else
  let s := s.drop ws
  let run := s.takeWhile (fun b => !isReSpace b)
  match splitExt run (run.length - 1) with
  | none => none
  | some (p, e) =>
    let rest := s.drop (p.length + e.length)
    let tab := match rest with
      | 58 :: r => let ds := r.takeWhile isDigit; if ds.isEmpty then none else some (decToNat ds)
      | _ => none
    some { path := p, ext := e, tab := tab }

/-- `TAB_LINE_RE.match(line)`: the line starts with `-->8` -/
def isTabLine (line : Bytes) : Bool := "-->8".toUTF8.toList.isPrefixOf line

/-- `lines_for_tab(lines, inc_tab)` -/
def linesForTab (tab : Option Nat) : List Bytes → Nat → List Bytes
  | [], _ => []
  | l :: rest, cur =>
    if isTabLine l then (if tab.isNone then [l] else []) ++ linesForTab tab rest (cur + 1)
    else (if tab.isNone ∨ tab = some cur then [l] else []) ++ linesForTab tab rest cur

def withNewline (l : Bytes) : Bytes := if l.getLast? = some 10 then l else l ++ [10]

/-- the part of the file system `process_includes` looks at -/
structure FS where
  isFile : P → Bool
  fileLines : P → List Bytes                      -- iterating the opened file
  cartCode : P → Except Err (List Bytes)          -- `from_file(..., do_includes=False).lua.to_lines()`

inductive Access | isfile (p : P) | open_ (p : P)
  deriving DecidableEq, Repr

def bytesToPath (b : Bytes) : P := b.map (fun c => Char.ofNat c.toNat)

/-- one line of `process_includes`: the lines it yields and the file-system accesses it makes.
`root` = the include root, `cartDir` = `os.path.dirname(filename)` (both absolute and normalised) -/
def includeLine (fs : FS) (root cartDir : P) (line : Bytes) : Except Err (List Bytes) × List Access :=
  match matchInclude line with
  | none => (.ok [line], [])
  | some m =>
    let full := normpath (join cartDir (bytesToPath (m.path ++ m.ext)))
    if !isWithin full root then (.error .outsideRoot, [])
    else if !fs.isFile full then (.error .notFound, [.isfile full])
    else if m.ext = ".lua".toUTF8.toList then
      (.ok ((fs.fileLines full).map withNewline), [.isfile full, .open_ full])
    else
      match fs.cartCode full with
      | .error e => (.error e, [.isfile full, .open_ full])
      | .ok code => (.ok ((linesForTab m.tab code 0).map withNewline), [.isfile full, .open_ full])

/-- `process_includes(lualines, filename)` -/
def processIncludes (fs : FS) (root cartDir : P) : List Bytes → Except Err (List Bytes) × List Access
  | [] => (.ok [], [])
  | l :: rest =>
    match includeLine fs root cartDir l with
    | (.error e, acc) => (.error e, acc)
    | (.ok ls, acc) =>
      match processIncludes fs root cartDir rest with
      | (.error e, acc2) => (.error e, acc ++ acc2)
      | (.ok ls2, acc2) => (.ok (ls ++ ls2), acc ++ acc2)

/-- `os.path.expanduser` for `~/...` paths with `HOME = home` -/
def expanduser (home p : P) : P :=
  match p with
  | '~' :: rest => if rest = [] ∨ rest.head? = some '/' then rstripSlash home ++ rest else p
  | _ => p

/-- `get_root_include_path(filename)` for an absolute `filename` (p8.py:104-131) -/
def rootFor (home : P) (cartPaths : List P) (filename : P) : P :=
  let full := normpath (expanduser home filename)
  let root := cartPaths.foldl (fun acc c =>
    let cand := normpath (expanduser home c)
    if isWithin full cand then some cand else acc) none
  root.getD (dirname full)

/-! ### require() -/

def isInfixB (pat s : Bytes) : Bool :=
  match s with
  | [] => pat.isEmpty
  | _ :: t => pat.isPrefixOf s || isInfixB pat t

def splitByte (c : UInt8) : Bytes → List Bytes
  | [] => [[]]
  | b :: rest =>
    if b = c then [] :: splitByte c rest
    else match splitByte c rest with
      | [] => [[b]]
      | h :: t => (b :: h) :: t

/-- the filter of `_evaluate_require` (build.py:141-147): `true` = rejected with a LuaBuildError -/
def requireRejected (p : Bytes) : Bool :=
  isInfixB [46, 47] p || p.head? == some 47 || (splitByte 47 p).any (fun part => part == [46] || part == [46, 46])

/-- `str.replace('?', p)` -/
def replaceQ (tpl p : P) : P := tpl.flatMap fun c => if c = '?' then p else [c]

def splitSemi (s : P) : List P :=
  match s with
  | [] => [[]]
  | c :: rest =>
    if c = ';' then [] :: splitSemi rest
    else match splitSemi rest with
      | [] => [[c]]
      | h :: t => (c :: h) :: t

/-- the candidate paths `_locate_require_file` probes with `os.path.isfile`, in order -/
def requireCandidates (p : P) (fileDir : P) (luaPath : P) : List P :=
  (splitSemi luaPath).map fun tpl =>
    let c := replaceQ tpl p
    if c.head? = some '/' then c else join fileDir c

/-- `_locate_require_file`: first candidate that is a file; accesses = the probes made -/
def locateRequire (isFile : P → Bool) (p fileDir luaPath : P) : Option P × List Access :=
  let rec go : List P → List Access → Option P × List Access
    | [], acc => (none, acc)
    | c :: rest, acc => if isFile c then (some c, acc ++ [.isfile c]) else go rest (acc ++ [.isfile c])
  go (requireCandidates p fileDir luaPath) []

end Pico.Inc
