import PicoVerif.Model.Include
/-! Model of the packaging logic of `p8tool build` for `require()` (build.py: `_evaluate_require`,
`_prepend_package_lua`).  The extraction of `require(...)` calls from a file's tree and the file lookup are
parameters (`World`), tied to the code by the correspondence. -/
namespace Pico.Req
open Pico.Inc

/-- one `require(...)` call as the walker reports it: the path string and the `use_game_loop` option,
or an argument error (wrong arity / not a string literal / bad option table) -/
abbrev Call := Except Err (Bytes × Bool)

structure World where
  /-- `_locate_require_file(p, file_path, lua_path)`: the file found for path `p` required from file `from_` -/
  locate : Bytes → Nat → Option Nat
  /-- the require() calls of file `f`, in walk order, after game-loop functions were stripped (`false`) or kept (`true`) -/
  callsOf : Nat → Bool → List Call

/-- an entry of `package_lua` (insertion-ordered dict): name, the file it was loaded from, whether its game loop was kept -/
structure Pkg where
  name : Bytes
  file : Nat
  keepLoop : Bool
  deriving DecidableEq, Repr

/-- `_evaluate_require` on a list of calls found in file `cur` -/
def evalCalls (w : World) : Nat → List Call → Nat → List Pkg → Except Err (List Pkg)
  | 0, _, _, _ => .error .fuel
  | _ + 1, [], _, pkgs => .ok pkgs
  | fuel + 1, c :: rest, cur, pkgs =>
    match c with
    | .error e => .error e
    | .ok (p, ugl) =>
      if requireRejected p then .error .build
      else if pkgs.any (·.name == p) then evalCalls w fuel rest cur pkgs
      else match w.locate p cur with
        | none => .error .notFound
        | some f =>
          -- the package is registered before its own require() calls are evaluated (cycles stop here)
          match evalCalls w fuel (w.callsOf f ugl) f (pkgs ++ [{ name := p, file := f, keepLoop := ugl }]) with
          | .error e => .error e
          | .ok pkgs' => evalCalls w fuel rest cur pkgs'

def quote (name : Bytes) : Bytes := name.flatMap fun b => if b = 34 then [92, 34] else [b]

/-- one package block of `_prepend_package_lua` -/
def pkgBlock (name body : Bytes) : Bytes :=
  "package._c[\"".toUTF8.toList ++ quote name ++ "\"]=function()\n".toUTF8.toList ++
    (if body.isEmpty ∨ body.getLast? = some 10 then body else body ++ [10]) ++ "end\n".toUTF8.toList

/-- `_prepend_package_lua`: the built code -/
def assembleCode (pkgs : List (Bytes × Bytes)) (main : Bytes) : Bytes :=
  if pkgs.isEmpty then main else
  Gen.requirePreamblePackage.flatten ++ pkgs.flatMap (fun p => pkgBlock p.1 p.2) ++ Gen.requirePreambleRequire.flatten ++ main

/-- the decision which top-level statements of a package are stripped (build.py `_evaluate_require`): a
`function NAME(...)` statement whose name path is the single name `NAME`, without `:method`, with `NAME` one of the
game-loop function names.  (`local function`, assignments of function values and `function a.b()` are never stripped.) -/
def stripsStat (namepath : List Bytes) (methodname : Option Bytes) : Bool :=
  match namepath, methodname with
  | [n], none => Gen.gameLoopNames.contains n
  | _, _ => false

/-- removing the token ranges `[s, e)` of the stripped statements (sorted, disjoint) from a token list -/
def dropRanges {α : Type} (toks : List α) : List (Nat × Nat) → Nat → List α
  | [], pos => toks.drop pos
  | (s, e) :: rest, pos => (toks.take s).drop pos ++ dropRanges toks rest e

end Pico.Req
