import PicoVerif.Base.Py
import PicoVerif.Gen.Game
/-! Model of `Game.write_cart_data` (game.py:86-109). The memory map is `Gen.memmap`, regenerated from
the source on every run. -/
namespace Pico.CartMem

structure Mem where
  gfx : Bytes
  map : Bytes
  gff : Bytes
  music : Bytes
  sfx : Bytes
  deriving DecidableEq, Repr

/-- the regions in PICO-8 address order -/
def Mem.flat (m : Mem) : Bytes := m.gfx ++ m.map ++ m.gff ++ m.music ++ m.sfx

def Mem.get (m : Mem) (name : String) : Bytes :=
  if name = "gfx" then m.gfx else if name = "map" then m.map else if name = "gff" then m.gff
  else if name = "music" then m.music else m.sfx

def Mem.set (m : Mem) (name : String) (v : Bytes) : Mem :=
  if name = "gfx" then { m with gfx := v } else if name = "map" then { m with map := v }
  else if name = "gff" then { m with gff := v } else if name = "music" then { m with music := v }
  else { m with sfx := v }

/-- the loop body for one `(start_a, end_a, section_data)` entry (game.py:102-109) -/
def writeRegion (startA endA : Nat) (sec data : Bytes) (startAddr : Nat) : Bytes :=
  let endAddr := startAddr + data.length
  let lo := max startAddr startA
  let hi := min endAddr endA
  if lo ≥ hi then sec
  else pySliceAssign sec (lo - startA) (hi - startA) (pySlice data (lo - startAddr) (hi - startAddr))

def writeAll (mm : List (Nat × Nat × String)) (m : Mem) (data : Bytes) (startAddr : Nat) : Mem :=
  mm.foldl (fun m e => m.set e.2.2 (writeRegion e.1 e.2.1 (m.get e.2.2) data startAddr)) m

/-- `Game.write_cart_data(data, start_addr)`; `.error .value` = the ValueError of game.py:93 -/
def writeCartData (m : Mem) (data : Bytes) (startAddr : Nat) : Except Err Mem :=
  if startAddr + data.length > Gen.cartEnd then .error .value
  else .ok (writeAll Gen.memmap m data startAddr)

/-- the memory has the sizes of the PICO-8 memory map -/
def Mem.WF (m : Mem) : Prop :=
  m.gfx.length = 0x2000 ∧ m.map.length = 0x1000 ∧ m.gff.length = 0x100 ∧
  m.music.length = 0x100 ∧ m.sfx.length = 0x1100

end Pico.CartMem
