import PicoVerif.Model.Lexer
/-! Generic grammar interpreter mirroring the control structure of picotool's recursive-descent parser
(pico8/lua/parser.py): `_accept` (skip trivia, refuse at the short-if fence, rewind), `_expect`/`_assert` (hard errors),
node construction with (start, end) token positions, the left-recursive `_exp_binop` / `_prefixexp_recur` chains, the
short-if fence `_max_pos`.  Trees are concrete: every accepted token is a leaf. -/
namespace Pico.Peg
open Pico.Lex

inductive Pat | kind (k : Kind) | exact (k : Kind) (d : List UInt8)
deriving Repr

def Pat.matches (p : Pat) (t : Tok) : Bool :=
  match p with
  | .kind k => t.kind == k
  | .exact k d => t.kind == k && t.data == d

inductive Tree
  | leaf (i : Nat)
  | node (k : Nat) (s e : Nat) (cs : List Tree)
deriving Repr

mutual
def Tree.leaves : Tree → List Nat
  | .leaf i => [i]
  | .node _ _ _ cs => leavesL cs
def leavesL : List Tree → List Nat
  | [] => []
  | t :: ts => t.leaves ++ leavesL ts
end

theorem leavesL_append (a b : List Tree) : leavesL (a ++ b) = leavesL a ++ leavesL b := by
  induction a with
  | nil => simp [leavesL]
  | cons t ts ih => simp [leavesL, ih]

inductive G
  | eps
  | tok (p : Pat)
  | seq (a b : G)
  | alt (a b : G)
  | star (g : G)
  | nt (n : Nat)
  | hard (g : G)
  | node (k : Nat) (g : G)
  | chain (first suffix : G)
  | fence (g : G)
  | prevTokIs (p : Pat)
  | notAhead (g : G)
  | filterTop (ks : List Nat) (g : G)

structure PSt where
  pos : Nat
  maxPos : Option Nat
deriving Repr

abbrev Res := Except Err (Option (List Tree × PSt))

/-- index of first non-trivia token at or after `i` (or `toks.size`). -/
def skipTrivia (toks : Array Tok) (i : Nat) : Nat :=
  if h : i < toks.size then
    if toks[i].trivia then skipTrivia toks (i+1) else i
  else i
termination_by toks.size - i

def nextNewline (toks : Array Tok) (i : Nat) : Nat :=
  if h : i < toks.size then
    if toks[i].kind == .newline then i else nextNewline toks (i+1)
  else i
termination_by toks.size - i

def fenceOk (m : Option Nat) (j : Nat) : Bool :=
  match m with | none => true | some m => j < m

def topKindIn (ks : List Nat) : List Tree → Bool
  | [.node k _ _ _] => ks.contains k
  | _ => false

def reparent (acc : List Tree) : List Tree → List Tree
  | [.node k s e cs] => [.node k s e (acc ++ cs)]
  | ts => acc ++ ts

variable (gram : Nat → G) (toks : Array Tok)

def run : Nat → G → PSt → Res
  | 0, _, _ => .error .fuel
  | fuel+1, g, st =>
    match g with
    | .eps => .ok (some ([], st))
    | .tok p =>
      let j := skipTrivia toks st.pos
      if h : j < toks.size then
        if p.matches toks[j] && fenceOk st.maxPos j then
          .ok (some ([.leaf j], { st with pos := j+1 }))
        else .ok none
      else .ok none
    | .seq a b =>
      match run fuel a st with
      | .error e => .error e
      | .ok none => .ok none
      | .ok (some (ta, st1)) =>
        match run fuel b st1 with
        | .error e => .error e
        | .ok none => .ok none
        | .ok (some (tb, st2)) => .ok (some (ta ++ tb, st2))
    | .alt a b =>
      match run fuel a st with
      | .error e => .error e
      | .ok (some r) => .ok (some r)
      | .ok none => run fuel b st
    | .star g =>
      match run fuel g st with
      | .error e => .error e
      | .ok none => .ok (some ([], st))
      | .ok (some (t1, st1)) =>
        if st1.pos ≤ st.pos then .ok (some (t1, st1)) else
        match run fuel (.star g) st1 with
        | .error e => .error e
        | .ok none => .ok (some (t1, st1))
        | .ok (some (t2, st2)) => .ok (some (t1 ++ t2, st2))
    | .nt n => run fuel (gram n) st
    | .hard g =>
      match run fuel g st with
      | .error e => .error e
      | .ok none => .error .parse
      | .ok (some r) => .ok (some r)
    | .node k g =>
      match run fuel g st with
      | .error e => .error e
      | .ok none => .ok none
      | .ok (some (ts, st1)) => .ok (some ([.node k st.pos st1.pos ts], st1))
    | .chain first suffix =>
      match run fuel first st with
      | .error e => .error e
      | .ok none => .ok none
      | .ok (some (t1, st1)) => chainLoop fuel suffix t1 st1
    | .fence g =>
      let saved := st.maxPos
      let m := nextNewline toks st.pos
      let m := match saved with | none => m | some s => min s m
      match run fuel g { st with maxPos := some m } with
      | .error e => .error e
      | .ok none => .ok none
      | .ok (some (ts, st1)) => .ok (some (ts, { st1 with maxPos := saved }))
    | .prevTokIs p =>
      if h : 0 < st.pos ∧ st.pos - 1 < toks.size then
        if p.matches (toks[st.pos - 1]'h.2) then .ok (some ([], st)) else .ok none
      else .ok none
    | .notAhead g =>
      match run fuel g st with
      | .error e => .error e
      | .ok none => .ok (some ([], st))
      | .ok (some _) => .ok none
    | .filterTop ks g =>
      match run fuel g st with
      | .error e => .error e
      | .ok none => .ok none
      | .ok (some (ts, st1)) => if topKindIn ks ts then .ok (some (ts, st1)) else .ok none
where
  chainLoop : Nat → G → List Tree → PSt → Res
  | 0, _, _, _ => .error .fuel
  | fuel+1, suffix, acc, st =>
    match run fuel suffix st with
    | .error e => .error e
    | .ok none => .ok (some (acc, st))
    | .ok (some (ts, st1)) =>
      if st1.pos ≤ st.pos then .ok (some (reparent acc ts, st1)) else
      chainLoop fuel suffix (reparent acc ts) st1

end Pico.Peg
