import PicoVerif.Base.Py
import PicoVerif.Gen.Game
/-! Models of the section text codecs: `Gfx.to_lines/from_lines` (gfx.py:64-114),
`BaseSection.to_lines/from_lines` (util.py:97-123, used by Gff and Map), `Sfx.to_lines/from_lines`
(sfx.py:94-152 via get/set_note, get/set_properties), `Music.to_lines/from_lines` (music.py:44-95).
Lines are byte strings; a well-formed line ends with LF. -/
namespace Pico.Sections

def LF : UInt8 := 10

/-- gfx.py:110 `(b & 0x0f) << 4 | (b & 0xf0) >> 4` -/
def swapNibbles (b : UInt8) : UInt8 := ((b &&& 0x0f) <<< 4) ||| ((b &&& 0xf0) >>> 4)

/-- `Gfx.to_lines` -/
def gfxToLines (d : Bytes) : List Bytes :=
  (chunks Gen.hexLineLenGfx d).map fun row => toHex (row.map swapNibbles) ++ [LF]

/-- gfx.py:86-88: swap each pair of hex digits of a 128-character row -/
def swapPairs : Bytes → Bytes
  | a :: b :: rest => b :: a :: swapPairs rest
  | l => l

/-- one line of `Gfx.from_lines`: `none` = line skipped (length ≠ 129) -/
def gfxLine (line : Bytes) : Except Err (Option Bytes) :=
  if line.length ≠ 129 then .ok none else
  let l := rstrip line
  if l.length < 128 then .error .index      -- larray[i+1] out of range
  else if l.length ≠ 128 then .error .value -- 129 characters: odd-length hex string
  else match fromHex (swapPairs l) with
    | some bs => .ok (some bs)
    | none => .error .value

/-- `Gfx.from_lines` -/
def gfxFromLines : List Bytes → Except Err Bytes
  | [] => .ok []
  | line :: rest => do
    let r ← gfxLine line
    let t ← gfxFromLines rest
    pure ((r.getD []) ++ t)

/-- `BaseSection.to_lines` with the class's `HEX_LINE_LENGTH_BYTES` -/
def hexToLines (n : Nat) (d : Bytes) : List Bytes :=
  (chunks n d).map fun row => toHex row ++ [LF]

/-- `BaseSection.from_lines` (no length check; hex text without inner whitespace) -/
def hexFromLines : List Bytes → Except Err Bytes
  | [] => .ok []
  | line :: rest =>
    match fromHex (rstrip line) with
    | none => .error .value
    | some bs => do
      let t ← hexFromLines rest
      pure (bs ++ t)

/-! ### sfx -/

/-- `Sfx.get_note` on the two bytes (sfx.py:168-176): (pitch, waveform, volume, effect) -/
def getNote (lsb msb : UInt8) : UInt8 × UInt8 × UInt8 × UInt8 :=
  (lsb &&& 0x3f,
   ((msb &&& 0x80) >>> 4) ||| ((msb &&& 0x01) <<< 2) ||| ((lsb &&& 0xc0) >>> 6),
   (msb &&& 0x0e) >>> 1,
   (msb &&& 0x70) >>> 4)

/-- `Sfx.set_note` with all four fields given (sfx.py:191-209); `none` = AssertionError -/
def setNote (lsb msb : UInt8) (p w v e : Nat) : Option (UInt8 × UInt8) :=
  if p > 63 ∨ w > 15 ∨ v > 7 ∨ e > 7 then none else
  let p8 : UInt8 := p.toUInt8
  let w8 : UInt8 := w.toUInt8
  let v8 : UInt8 := v.toUInt8
  let e8 : UInt8 := e.toUInt8
  let lsb1 : UInt8 := (lsb &&& 0xc0) ||| p8
  let lsb2 : UInt8 := (lsb1 &&& 0x3f) ||| ((w8 &&& 3) <<< (6 : UInt8))
  let msb1 : UInt8 := (msb &&& 0x7e) ||| ((w8 &&& 4) >>> (2 : UInt8)) ||| ((w8 &&& 8) <<< (4 : UInt8))
  let msb2 : UInt8 := (msb1 &&& 0xf1) ||| (v8 <<< (1 : UInt8))
  let msb3 : UInt8 := (msb2 &&& 0x8f) ||| (e8 <<< (4 : UInt8))
  some (lsb2, msb3)

/-- text of one note in `Sfx.to_lines` (sfx.py:146-150): 2+2+1 hex digits -/
def noteText (lsb msb : UInt8) : Bytes :=
  let (p, w, v, e) := getNote lsb msb
  toHex [p, (w <<< 4) ||| v] ++ [hexDigit (e.toNat % 16)]

def notesText : Bytes → Bytes
  | lsb :: msb :: rest => noteText lsb msb ++ notesText rest
  | _ => []

/-- one 68-byte pattern -> one line (sfx.py:142-151) -/
def sfxPatternLine (pat : Bytes) : Bytes :=
  toHex (pat.drop 64) ++ notesText (pat.take 64) ++ [LF]

/-- `Sfx.to_lines`: always 64 patterns; `none` = IndexError (region shorter than 4352 bytes) -/
def sfxToLines (d : Bytes) : Option (List Bytes) :=
  if d.length < 64 * 68 then none else
  some ((chunks 68 (d.take (64 * 68))).map sfxPatternLine)

/-- `int(x, 16)` on a string of hex digits only -/
def hexInt (s : Bytes) : Option Nat :=
  s.foldlM (fun acc c => (unhexDigit c).map (fun v => acc * 16 + v)) 0

/-- notes of one line: `for i in range(8, 168, 5)` -/
def parseNotes : Nat → Bytes → Except Err Bytes
  | 0, _ => .ok []
  | n + 1, s =>
    match hexInt (s.take 2), hexInt ((s.drop 2).take 1), hexInt ((s.drop 3).take 1), hexInt ((s.drop 4).take 1) with
    | some p, some w, some v, some e =>
      -- the pattern starts as zeros except the defaults of Sfx.empty, which lie outside the notes
      match setNote 0 0 p w v e with
      | none => .error .assert_
      | some (lsb, msb) => do
        let rest ← parseNotes n (s.drop 5)
        pure (lsb :: msb :: rest)
    | _, _, _, _ => .error .value

/-- one line of `Sfx.from_lines`: `none` = skipped -/
def sfxLine (line : Bytes) : Except Err (Option Bytes) :=
  if line.length ≠ 169 then .ok none else
  match hexInt (line.take 2), hexInt ((line.drop 2).take 2), hexInt ((line.drop 4).take 2), hexInt ((line.drop 6).take 2) with
  | some a, some b, some c, some d => do
    let notes ← parseNotes 32 (line.drop 8)
    pure (some (notes ++ [a.toUInt8, b.toUInt8, c.toUInt8, d.toUInt8]))
  | _, _, _, _ => .error .value

/-- patterns parsed from the lines that are not skipped -/
def sfxPatterns : List Bytes → Except Err (List Bytes)
  | [] => .ok []
  | line :: rest => do
    let r ← sfxLine line
    let t ← sfxPatterns rest
    pure (match r with | none => t | some p => p :: t)

/-- `Sfx.from_lines`: parsed patterns overwrite the front of `Sfx.empty`; a 65th pattern is an IndexError -/
def sfxFromLines (lines : List Bytes) : Except Err Bytes := do
  let pats ← sfxPatterns lines
  if pats.length > 64 then .error .index else
  let body := pats.flatten
  pure (body ++ Gen.emptySfx.drop body.length)

/-! ### music -/

/-- `Music.to_lines`: one line per 4 bytes; `none` = IndexError (length not a multiple of 4) -/
def musicToLines : Bytes → Option (List Bytes)
  | [] => some []
  | c1 :: c2 :: c3 :: c4 :: rest =>
    let fstop := (c3 &&& 128) >>> 7
    let frepeat := (c2 &&& 128) >>> 7
    let fnext := (c1 &&& 128) >>> 7
    let flags := (fstop <<< 2) ||| (frepeat <<< 1) ||| fnext
    (musicToLines rest).map fun t =>
      (toHex [flags] ++ [32] ++ toHex [c1 &&& 127, c2 &&& 127, c3 &&& 127, c4 &&& 127] ++ [LF]) :: t
  | _ => none

/-- first byte of `bytes.fromhex(s)` for `s` a slice of at most two characters -/
def hexByte0 (s : Bytes) : Except Err UInt8 :=
  match s with
  | [a, b] => match unhexDigit a, unhexDigit b with
    | some x, some y => .ok (x * 16 + y).toUInt8
    | _, _ => .error .value
  | [] => .error .index        -- fromhex('')[0]
  | _ => .error .value         -- odd number of digits

/-- one line of `Music.from_lines`: `none` = skipped (no space in the line) -/
def musicLine (line : Bytes) : Except Err (Option Bytes) :=
  if !line.contains 32 then .ok none else
  let flagstr := line.takeWhile (· != 32)
  let chanstr := (line.dropWhile (· != 32)).drop 1
  if chanstr.contains 32 then .error .value else   -- too many values to unpack
  match fromHex flagstr with
  | none => .error .value
  | some [] => .error .index
  | some (flags :: _) => do
    let fstop := (flags &&& 4) >>> 2
    let frepeat := (flags &&& 2) >>> 1
    let fnext := flags &&& 1
    let c1 ← hexByte0 (pySlice chanstr 0 2)
    let c2 ← hexByte0 (pySlice chanstr 2 4)
    let c3 ← hexByte0 (pySlice chanstr 4 6)
    let c4 ← hexByte0 (pySlice chanstr 6 8)
    pure (some [c1 ||| (fnext <<< 7), c2 ||| (frepeat <<< 7), c3 ||| (fstop <<< 7), c4])

def musicFromLines : List Bytes → Except Err Bytes
  | [] => .ok []
  | line :: rest => do
    let r ← musicLine line
    let t ← musicFromLines rest
    pure (r.getD [] ++ t)

/-- what the `.p8` music format can keep: bit 7 of every 4th byte is dropped -/
def musicNorm : Bytes → Bytes
  | c1 :: c2 :: c3 :: c4 :: rest => c1 :: c2 :: c3 :: (c4 &&& 127) :: musicNorm rest
  | l => l

end Pico.Sections
