import PicoVerif.Model.Require
import PicoVerif.Model.AstWriters
/-! Model of the discovery of `require()` calls in a parsed file (`build.RequireWalker` on top of
`lua.BaseASTWalker`), of the stripping of game-loop functions from a required package, and — composing them with the
lexer, the parser, `evalCalls` and `assembleCode` — of the whole code transformation of `p8tool build --lua main.lua`.

The walker visits every field of every node in order (source order); at a call node whose callee is the plain name
`require` it validates the arguments and reports the call *without* descending into it; everywhere else it descends. -/
namespace Pico.ReqWalk
open Pico.Lex Pico.Peg Pico.Gram Pico.Req Pico.Inc

def tokAt (toks : Array Tok) (i : Nat) : Tok := toks.getD i default

def isNode : Tree → Bool | .node .. => true | .leaf _ => false

def requireName : Bytes := "require".toUTF8.toList
def useGameLoop : Bytes := "use_game_loop".toUTF8.toList

/-- the callee is the plain name `require` -/
def isRequireCallee (toks : Array Tok) : Tree → Bool
  | .node k _ _ [.leaf i] => k == kVarName && (tokAt toks i).kind == .name && (tokAt toks i).data == requireName
  | _ => false

/-- `{use_game_loop=true|false}`: the option table must have exactly one field, named `use_game_loop`, whose value is
a boolean literal -/
def optionOf (toks : Array Tok) : Tree → Option Bool
  | .node k _ _ [.node kt _ _ tcs] =>
    if k == kExpValue && kt == kTableConstructor then
      match tcs.filter isNode with
      | [.node kf _ _ [.leaf n, .leaf _, .node ke _ _ [.leaf v]]] =>
        if kf == kFieldNamedKey && (tokAt toks n).data == useGameLoop && ke == kExpValue && (tokAt toks v).kind == .keyword then
          if (tokAt toks v).data == "true".toUTF8.toList then some true
          else if (tokAt toks v).data == "false".toUTF8.toList then some false
          else none
        else none
      | _ => none
    else none
  | _ => none

/-- the string literal value of an argument expression -/
def stringOf (toks : Array Tok) : Tree → Option Bytes
  | .node k _ _ [.leaf i] => if k == kExpValue && (tokAt toks i).kind == .string then some (tokAt toks i).data else none
  | _ => none

/-- validation of the argument part of a `require` call (the trees after the callee) -/
def callOf (toks : Array Tok) (args : List Tree) : Call :=
  match args with
  | [.node k _ _ acs] =>
    if k != kFunctionArgs then .error .build else     -- `require{...}` (table argument without parentheses)
    match acs.filter isNode with
    | [] => .error .build                              -- no arguments
    | [.node ke _ _ es] =>
      if ke != kExpList then .error .build else
      match es.filter isNode with
      | [a] => match stringOf toks a with
        | some p => .ok (p, false)
        | none => .error .build
      | [a, o] => match stringOf toks a, optionOf toks o with
        | some p, some b => .ok (p, b)
        | _, _ => .error .build
      | _ => .error .build
    | _ => .error .build
  | _ => .error .build                                 -- `require "x"` (string argument without parentheses)

def isErr : Call → Bool | .error _ => true | .ok _ => false

/-- sequencing with "raise stops the walk" -/
def cut (a b : List Call) : List Call := if a.any isErr then a else a ++ b

mutual
/-- the calls the walker reports for one tree, in walk order; nothing follows an argument error (the walker raises) -/
def walk (toks : Array Tok) : Tree → List Call
  | .leaf _ => []
  | .node k _ _ cs =>
    if k == kFunctionCall then
      match cs with
      | c :: args => if isRequireCallee toks c then [callOf toks args] else walkL toks cs
      | [] => []
    else walkL toks cs
def walkL (toks : Array Tok) : List Tree → List Call
  | [] => []
  | t :: ts => cut (walk toks t) (walkL toks ts)
end

mutual
/-- specification of the discovery: the argument lists of the outermost `require(...)` calls of a tree, in source order -/
def reqNodes (toks : Array Tok) : Tree → List (List Tree)
  | .leaf _ => []
  | .node k _ _ cs =>
    if k == kFunctionCall then
      match cs with
      | c :: args => if isRequireCallee toks c then [args] else reqNodesL toks cs
      | [] => []
    else reqNodesL toks cs
def reqNodesL (toks : Array Tok) : List Tree → List (List Tree)
  | [] => []
  | t :: ts => reqNodes toks t ++ reqNodesL toks ts
end

/-- a list of calls up to and including its first argument error -/
def throughFirstError : List Call → List Call
  | [] => []
  | c :: cs => if isErr c then [c] else c :: throughFirstError cs

/-- parse a token list to its forest (the chunk node) -/
def parse (toks : List Tok) : Except Err (List Tree) :=
  let arr := toks.toArray
  match Peg.run Gram.gram arr (50 * arr.size + 200) (.nt Gram.nChunk) { pos := 0, maxPos := none } with
  | .error e => .error e
  | .ok none => .error .parse
  | .ok (some (ts, _)) => .ok ts

/-- the require() calls of a lexed file -/
def requireCalls (toks : List Tok) : Except Err (List Call) :=
  match parse toks with
  | .error e => .error e
  | .ok ts => .ok (walkL toks.toArray ts)

/-- name path and method of a `function a.b:c()` statement's FunctionName node -/
def funcNameParts (toks : Array Tok) : Tree → Option (List Bytes × Option Bytes)
  | .node k _ _ cs =>
    if k != kFunctionName then none else
    let rec go : List Tree → List Bytes → Option (List Bytes × Option Bytes)
      | [], acc => some (acc.reverse, none)
      | [.leaf c, .leaf m], acc =>
        if (tokAt toks c).data == [58] then some (acc.reverse, some (tokAt toks m).data)
        else if (tokAt toks c).data == [46] then some (((tokAt toks m).data :: acc).reverse, none) else none
      | .leaf d :: .leaf n :: rest, acc =>
        if (tokAt toks d).data == [46] then go rest ((tokAt toks n).data :: acc) else none
      | _, _ => none
    match cs with
    | .leaf n :: rest => go rest [(tokAt toks n).data]
    | _ => none
  | _ => none

/-- token ranges `[start, end)` of the top-level statements the build strips from a package -/
def stripRanges (toks : Array Tok) : List Tree → List (Nat × Nat)
  | [.node k _ _ cs] =>
    if k != kChunk then [] else
    cs.filterMap fun t => match t with
      | .node ks s e (.leaf _ :: fn :: _) =>
        if ks == kStatFunction then
          match funcNameParts toks fn with
          | some (np, m) => if stripsStat np m then some (s, e) else none
          | none => none
        else none
      | _ => none
  | _ => []

/-- the code of a package after stripping (`keep = true`: untouched) -/
def packageCode (keep : Bool) (src : List Bytes) : Except Err (List Tok) :=
  match Lex.lex src with
  | .error e => .error e
  | .ok toks =>
    if keep then .ok toks else
    match parse toks with
    | .error e => .error e
    | .ok ts =>
      match stripRanges toks.toArray ts with
      | [] => .ok toks
      | rs => Lex.lex [Wr.echo (dropRanges toks rs 0)]

/-! ### the whole code transformation of `p8tool build --lua main.lua` -/

/-- the files the build can see: (normalised absolute path, content as the chunks iterating the file yields) -/
abbrev Files := List (Path.P × List Bytes)

def fileIdx (fs : Files) (p : Path.P) : Option Nat := fs.findIdx? (fun f => f.1 == Path.normpath p)

/-- the `World` of `evalCalls` made of concrete files: lookup through the load path, calls through lexer, parser and walker -/
def worldOf (fs : Files) (luaPath : Path.P) : World where
  locate := fun p cur =>
    match fs[cur]? with
    | none => none
    | some (curPath, _) =>
      (locateRequire (fun c => (fileIdx fs c).isSome) (bytesToPath p) (Path.dirname curPath) luaPath).1.bind (fileIdx fs)
  callsOf := fun f keep =>
    match fs[f]? with
    | none => [.error .notFound]
    | some (_, src) =>
      match packageCode keep src with
      | .error e => [.error e]
      | .ok toks => match requireCalls toks with
        | .error e => [.error e]
        | .ok cs => cs

/-- `do_build` for `--lua main.lua`: the code of the built cart (before the cart writer) -/
def buildLua (fs : Files) (main : Nat) (luaPath : Path.P) : Except Err Bytes :=
  match fs[main]? with
  | none => .error .notFound
  | some (_, src) =>
    match Lex.lex src with
    | .error e => .error e
    | .ok mainToks =>
      match requireCalls mainToks with
      | .error e => .error e
      | .ok calls =>
        let w := worldOf fs luaPath
        match evalCalls w (4 * fs.length + 4 * calls.length + 16) calls main [] with
        | .error e => .error e
        | .ok pkgs =>
          match pkgs.mapM (fun (p : Pkg) => match fs[p.file]? with
              | none => (.error .notFound : Except Err (Bytes × Bytes))
              | some (_, src) => (packageCode p.keepLoop src).map fun toks => (p.name, Wr.echo toks)) with
          | .error e => .error e
          | .ok bodies =>
            -- `_prepend_package_lua` re-lexes (and re-parses) the assembled code; the cart writer echoes it
            match Lex.lex [assembleCode bodies (Wr.echo mainToks)] with
            | .error e => .error e
            | .ok toks => match parse toks with
              | .error e => .error e
              | .ok _ => .ok (Wr.echo toks)

end Pico.ReqWalk
