import PicoVerif.Base.Py
import PicoVerif.Model.Sections
/-! Models of the section accessors: gfx.py:116-235, map.py:68-198, gff.py:43-107, sfx.py:154-266,
music.py:97-176. Byte assignment `data[i] = v` is `setAt` (`IndexError` if out of range). -/
namespace Pico.Acc
open Pico.Sections

def setAt (l : Bytes) (i : Nat) (v : UInt8) : Except Err Bytes :=
  if i < l.length then .ok (l.set i v) else .error .index

def getAt (l : Bytes) (i : Nat) : Except Err UInt8 :=
  match l[i]? with | some b => .ok b | none => .error .index

/-! ### gfx -/

/-- colour of pixel (px, py) of the 128x128 sheet: low nibble = even x (gfx.py:153-161) -/
def pixelAt (gfx : Bytes) (px py : Nat) : Except Err UInt8 := do
  let b ← getAt gfx (py * 64 + px / 2)
  pure (if px % 2 = 0 then b &&& 0x0f else (b &&& 0xf0) >>> (4 : UInt8))

/-- one pixel row of `get_sprite`: tiles `tx0 .. tx0+tw-1` of tile row `ty`, line `yo` -/
def spriteRow (gfx : Bytes) (ty yo : Nat) : Nat → Nat → Except Err Bytes
  | 0, _ => .ok []
  | tw + 1, tx => do
    let seg ← (if tx > 15 ∨ ty > 15 then .ok (List.replicate 8 0)
               else (List.range 8).mapM fun xo => pixelAt gfx (tx * 8 + xo) (ty * 8 + yo))
    let rest ← spriteRow gfx ty yo tw (tx + 1)
    pure (seg ++ rest)

/-- `Gfx.get_sprite(id, tile_width, tile_height)` -/
def getSprite (gfx : Bytes) (id tw th : Nat) : Except Err (List Bytes) :=
  if id > 255 ∨ tw < 1 ∨ th < 1 then .error .assert_ else
  ((List.range th).flatMap fun dy => (List.range 8).map fun yo => (id / 16 + dy, yo)).mapM
    fun (ty, yo) => spriteRow gfx ty yo tw (id % 16)

/-- the assignment to one pixel inside `set_sprite` (gfx.py:229-235) -/
def setPixel (gfx : Bytes) (px py : Nat) (val : UInt8) : Except Err Bytes := do
  let loc := py * 64 + px / 2
  let b ← getAt gfx loc
  setAt gfx loc (if px % 2 = 0 then (b &&& 0xf0) + val else (b &&& 0x0f) + (val <<< (4 : UInt8)))

def setSpriteRow (fx py : Nat) : List Nat → Nat → Bytes → Except Err Bytes
  | [], _, gfx => .ok gfx
  | val :: rest, x, gfx =>
    if val > 16 then .error .value          -- out of contract (colours are 0..15, 16 = TRANSPARENT)
    else if val = 16 ∨ py ≥ 128 ∨ fx + x ≥ 128 then setSpriteRow fx py rest (x + 1) gfx
    else do
      let g ← setPixel gfx (fx + x) py val.toUInt8
      setSpriteRow fx py rest (x + 1) g

def setSpriteRows (fx fy : Nat) : List (List Nat) → Nat → Bytes → Except Err Bytes
  | [], _, gfx => .ok gfx
  | row :: rest, y, gfx => do
    let g ← setSpriteRow fx (fy + y) row 0 gfx
    setSpriteRows fx fy rest (y + 1) g

/-- `Gfx.set_sprite(id, sprite, tile_x_offset, tile_y_offset)` -/
def setSprite (gfx : Bytes) (id : Nat) (sprite : List (List Nat)) (xoff yoff : Nat) : Except Err Bytes :=
  setSpriteRows (id % 16 * 8 + xoff) (id / 16 * 8 + yoff) sprite 0 gfx

/-! ### map (rows 32..63 live in gfx bytes 0x1000..0x1fff) -/

structure MG where
  map : Bytes
  gfx : Bytes
  deriving DecidableEq, Repr

def getCell (s : MG) (x y : Nat) : Except Err UInt8 :=
  if x > 127 ∨ y > 63 then .error .assert_
  else if y ≤ 31 then getAt s.map (y * 128 + x) else getAt s.gfx (4096 + (y - 32) * 128 + x)

def setCell (s : MG) (x y val : Nat) : Except Err MG :=
  if x > 127 ∨ y > 63 ∨ val > 255 then .error .assert_
  else if y ≤ 31 then do let m ← setAt s.map (y * 128 + x) val.toUInt8; pure { s with map := m }
  else do let g ← setAt s.gfx (4096 + (y - 32) * 128 + x) val.toUInt8; pure { s with gfx := g }

/-- `Map.get_rect_tiles(x, y, width, height)` -/
def getRectTiles (s : MG) (x y w h : Nat) : Except Err (List Bytes) :=
  if x > 127 ∨ w < 1 ∨ h < 1 ∨ y + h > 64 then .error .assert_ else
  (List.range h).mapM fun dy => (List.range w).mapM fun dx =>
    if y + dy > 63 ∨ x + dx > 127 then .ok 0 else getCell s (x + dx) (y + dy)

def setRectRow (x ty : Nat) : List Nat → Nat → MG → Except Err MG
  | [], _, s => .ok s
  | val :: rest, dx, s =>
    if ty > 63 ∨ dx + x > 127 then setRectRow x ty rest (dx + 1) s
    else do let s' ← setCell s (dx + x) ty val; setRectRow x ty rest (dx + 1) s'

/-- `Map.set_rect_tiles(rect, x, y)` -/
def setRectTiles (x y : Nat) : List (List Nat) → Nat → MG → Except Err MG
  | [], _, s => .ok s
  | row :: rest, dy, s => do
    let s' ← setRectRow x (dy + y) row 0 s
    setRectTiles x y rest (dy + 1) s'

/-! ### gff -/

def getFlags (gff : Bytes) (id flags : Nat) : Except Err Nat :=
  if id > 255 then .error .assert_ else do let b ← getAt gff id; pure (b.toNat &&& flags)

def setFlags (gff : Bytes) (id flags : Nat) : Except Err Bytes :=
  if id > 255 then .error .assert_ else do
    let b ← getAt gff id; setAt gff id (b ||| (flags % 256).toUInt8)

def clearFlags (gff : Bytes) (id flags : Nat) : Except Err Bytes :=
  if id > 255 then .error .assert_ else do
    let b ← getAt gff id; setAt gff id (b &&& (~~~ (flags % 256).toUInt8))

def resetFlags (gff : Bytes) (id flags : Nat) : Except Err Bytes :=
  if id > 255 then .error .assert_ else setAt gff id (flags % 256).toUInt8

/-! ### sfx -/

def sfxGetNote (sfx : Bytes) (id note : Nat) : Except Err (UInt8 × UInt8 × UInt8 × UInt8) := do
  let lsb ← getAt sfx (id * 68 + note * 2)
  let msb ← getAt sfx (id * 68 + note * 2 + 1)
  pure (getNote lsb msb)

/-- `Sfx.set_note(id, note, pitch=, waveform=, volume=, effect=)`, `none` = leave unchanged -/
def sfxSetNote (sfx : Bytes) (id note : Nat) (p w v e : Option Nat) : Except Err Bytes := do
  let lsb ← getAt sfx (id * 68 + note * 2)
  let msb ← getAt sfx (id * 68 + note * 2 + 1)
  if (p.getD 0) > 63 ∨ (w.getD 0) > 15 ∨ (v.getD 0) > 7 ∨ (e.getD 0) > 7 then .error .assert_ else
  let lsb1 : UInt8 := match p with | some p => (lsb &&& 0xc0) ||| p.toUInt8 | none => lsb
  let lsb2 : UInt8 := match w with | some w => (lsb1 &&& 0x3f) ||| ((w.toUInt8 &&& 3) <<< (6 : UInt8)) | none => lsb1
  let msb1 : UInt8 := match w with
    | some w => (msb &&& 0x7e) ||| ((w.toUInt8 &&& 4) >>> (2 : UInt8)) ||| ((w.toUInt8 &&& 8) <<< (4 : UInt8))
    | none => msb
  let msb2 : UInt8 := match v with | some v => (msb1 &&& 0xf1) ||| (v.toUInt8 <<< (1 : UInt8)) | none => msb1
  let msb3 : UInt8 := match e with | some e => (msb2 &&& 0x8f) ||| (e.toUInt8 <<< (4 : UInt8)) | none => msb2
  let s1 ← setAt sfx (id * 68 + note * 2) lsb2
  setAt s1 (id * 68 + note * 2 + 1) msb3

def sfxGetProps (sfx : Bytes) (id : Nat) : Except Err (UInt8 × UInt8 × UInt8 × UInt8) := do
  let a ← getAt sfx (id * 68 + 64); let b ← getAt sfx (id * 68 + 65)
  let c ← getAt sfx (id * 68 + 66); let d ← getAt sfx (id * 68 + 67)
  pure (a, b, c, d)

def setOpt (l : Bytes) (i : Nat) : Option Nat → Except Err Bytes
  | none => .ok l
  | some v => if v > 255 then .error .value else setAt l i v.toUInt8

def sfxSetProps (sfx : Bytes) (id : Nat) (a b c d : Option Nat) : Except Err Bytes := do
  let s ← setOpt sfx (id * 68 + 64) a
  let s ← setOpt s (id * 68 + 65) b
  let s ← setOpt s (id * 68 + 66) c
  setOpt s (id * 68 + 67) d

/-! ### music -/

/-- `Music.get_channel`: `none` = silent -/
def musGetChannel (mus : Bytes) (id ch : Nat) : Except Err (Option Nat) :=
  if id > 63 ∨ ch > 3 then .error .assert_ else do
    let b ← getAt mus (id * 4 + ch)
    let p := (b &&& 0x7f).toNat
    pure (if p > 63 then none else some p)

def musSetChannel (mus : Bytes) (id ch : Nat) (pat : Option Nat) : Except Err Bytes :=
  if id > 63 ∨ ch > 3 ∨ (pat.getD 0) > 63 then .error .assert_ else do
    let b ← getAt mus (id * 4 + ch)
    let p := match pat with | some p => p | none => 0x40 + ch + 1
    setAt mus (id * 4 + ch) ((b &&& 0x80) ||| p.toUInt8)

def musGetProps (mus : Bytes) (id : Nat) : Except Err (Bool × Bool × Bool) :=
  if id > 63 then .error .assert_ else do
    let a ← getAt mus (id * 4); let b ← getAt mus (id * 4 + 1); let c ← getAt mus (id * 4 + 2)
    pure ((a &&& 0x80) > 0, (b &&& 0x80) > 0, (c &&& 0x80) > 0)

def setHigh (mus : Bytes) (i : Nat) : Option Bool → Except Err Bytes
  | none => .ok mus
  | some f => do let b ← getAt mus i; setAt mus i ((b &&& 0x7f) ||| (if f then 0x80 else 0))

def musSetProps (mus : Bytes) (id : Nat) (bg en st : Option Bool) : Except Err Bytes := do
  let m ← setHigh mus (id * 4) bg
  let m ← setHigh m (id * 4 + 1) en
  setHigh m (id * 4 + 2) st

end Pico.Acc
