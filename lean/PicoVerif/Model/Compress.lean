import PicoVerif.Base.Py
import PicoVerif.Gen.Game
/-! Model of pico8/game/compress.py: `_find_repeatable_block`, `compress_code`, `decompress_code`. -/
namespace Pico.Compress

def tableLen : Nat := Gen.charTable.length
def maxBlockLen : Nat := 17
/-- `(255 - len(COMPRESSED_LUA_CHAR_TABLE)) * 16` -/
def maxHistLen : Nat := (255 - tableLen) * 16

/-- inner `while` of `_find_repeatable_block` (compress.py:42-44): number of matching bytes from `k` on -/
def matchLen (dat : Array UInt8) (i pos maxLen : Nat) : Nat → Nat → Nat
  | 0, k => k
  | fuel + 1, k =>
    if k < maxLen ∧ i + k < pos ∧ dat.getD (i + k) 0 = dat.getD (pos + k) 0 then matchLen dat i pos maxLen fuel (k + 1)
    else k

/-- outer `while i < pos` (compress.py:40-51); `best = (best_len, best_i)`, `best_i` as an `Int` (starts at -100000) -/
def scan (dat : Array UInt8) (pos maxLen : Nat) : Nat → Nat → Nat × Int → Nat × Int
  | 0, _, best => best
  | fuel + 1, i, best =>
    if i < pos then
      let l := matchLen dat i pos maxLen maxLen 0
      let best' := if l > best.1 then (l, (i : Int)) else best
      scan dat pos maxLen fuel (i + 1) best'
    else best

/-- `_find_repeatable_block(dat, pos)` -> `(best_len, block_offset)` -/
def findBlock (dat : Array UInt8) (pos : Nat) : Nat × Int :=
  let maxLen := min maxBlockLen (dat.size - pos)
  let hist := min maxHistLen pos
  let (bl, bi) := scan dat pos maxLen hist (pos - hist) (0, -100000)
  (bl, (pos : Int) - bi)

/-- `literal_index[b]` (compress.py:80-82): last index `i ≥ 1` with `table[i] = b`, else 0 -/
def literalIndex (b : UInt8) : Nat :=
  (Gen.charTable.zipIdx.foldl (fun acc (c, i) => if i ≥ 1 ∧ c = b then i else acc) 0)

def isInfix (pat s : Bytes) : Bool :=
  match s with
  | [] => pat.isEmpty
  | _ :: t => pat.isPrefixOf s || isInfix pat t

def update60 : Bytes := "_update60".toUTF8.toList

/-- the text actually compressed (compress.py:84-88): PICO-8's compatibility suffix is appended -/
def withSuffix (t : Bytes) : Bytes :=
  if isInfix update60 t ∧ t.length < 0x10001 - (Gen.futureCode2.length + 1) then
    (if t.getLast? ≠ some 32 ∧ t.getLast? ≠ some 10 then t ++ [10] else t) ++ Gen.futureCode2
  else t

/-- main loop of `compress_code` (compress.py:99-112) -/
def compressLoop (dat : Array UInt8) : Nat → Nat → Array UInt8 → Array UInt8
  | 0, _, out => out
  | fuel + 1, pos, out =>
    if pos < dat.size then
      let (bl, bo) := findBlock dat pos
      if bl ≥ 3 then
        let o := bo.toNat
        compressLoop dat fuel (pos + bl) ((out.push (o / 16 + tableLen).toUInt8).push (o % 16 + (bl - 2) * 16).toUInt8)
      else
        let b := dat.getD pos 0
        let li := literalIndex b
        let out := out.push li.toUInt8
        compressLoop dat fuel (pos + 1) (if li = 0 then out.push b else out)
    else out

/-- `compress_code(in_p)` -/
def compress (t : Bytes) : Bytes :=
  let dat := (withSuffix t).toArray
  (compressLoop dat dat.size 0 #[]).toList

/-- state of the decoder loop: next input index, produced bytes (`out[:out_i]`) -/
structure DSt where
  inI : Nat
  out : Array UInt8

/-- Python `out[out_i - offset]` on `out = [0] * code_length` with `out_i` bytes written: negative indices wrap -/
def readBack (codeLength : Nat) (out : Array UInt8) (offset : Nat) : Except Err UInt8 :=
  if offset ≤ out.size then
    (if offset = 0 then
       (if out.size < codeLength then .ok 0 else .error .index)   -- out[out_i]: unwritten zero
     else .ok (out.getD (out.size - offset) 0))
  else
    let back := offset - out.size          -- index -back
    if back > codeLength then .error .index
    else
      let k := codeLength - back
      .ok (if k < out.size then out.getD k 0 else 0)

/-- the byte-wise block copy added by the fix (bounded by `code_length`) -/
def copyBlock (codeLength offset : Nat) : Nat → Array UInt8 → Except Err (Array UInt8)
  | 0, out => .ok out
  | n + 1, out =>
    if out.size ≥ codeLength then .ok out else do
      let b ← readBack codeLength out offset
      copyBlock codeLength offset n (out.push b)

/-- `while out_i < code_length and in_i < len(codedata)` (compress.py:131-150) -/
def decodeLoop (cd : Array UInt8) (codeLength : Nat) : Nat → DSt → Except Err DSt
  | 0, s => .ok s
  | fuel + 1, s =>
    if s.out.size < codeLength ∧ s.inI < cd.size then
      let c := cd.getD s.inI 0
      if c = 0 then
        if s.inI + 1 < cd.size then
          decodeLoop cd codeLength fuel ⟨s.inI + 2, s.out.push (cd.getD (s.inI + 1) 0)⟩
        else .error .index
      else if c ≤ 0x3b then
        match Gen.charTable[c.toNat]? with
        | some ch => decodeLoop cd codeLength fuel ⟨s.inI + 1, s.out.push ch⟩
        | none => .error .index
      else
        if s.inI + 1 < cd.size then
          let c2 := cd.getD (s.inI + 1) 0
          let offset := (c.toNat - 0x3c) * 16 + (c2.toNat % 16)
          let length := c2.toNat / 16 + 2
          match copyBlock codeLength offset length s.out with
          | .error e => .error e
          | .ok out => decodeLoop cd codeLength fuel ⟨s.inI + 2, out⟩
        else .error .index
    else .ok s

def stripSuffix (code suffix : Bytes) : Bytes :=
  if suffix.isSuffixOf code then
    let c := code.take (code.length - suffix.length)
    if c.getLast? = some 10 then c.dropLast else c
  else code

/-- `decompress_code(codedata)` -> `(code_length, code, compressed_size)` -/
def decompress (codedata : Bytes) : Except Err (Nat × Bytes × Nat) :=
  let cd := codedata.toArray
  if cd.size < 6 then .error .index else
  let codeLength := (cd.getD 4 0).toNat * 256 + (cd.getD 5 0).toNat
  if pySlice codedata 6 8 ≠ [0, 0] then .error .assert_ else
  match decodeLoop cd codeLength (cd.size + 1) ⟨8, #[]⟩ with
  | .error e => .error e
  | .ok s =>
    let code := s.out.toList
    let code := stripSuffix code Gen.futureCode1
    let code := stripSuffix code Gen.futureCode2
    .ok (codeLength, code, s.inI)

/-- the code-area header picotool writes in front of a compressed stream (p8png.py:152-156) -/
def header (t : Bytes) : Bytes :=
  [0x3a, 0x63, 0x3a, 0x00, (t.length / 256).toUInt8, (t.length % 256).toUInt8, 0, 0]

end Pico.Compress
