import PicoVerif.Model.PicoGrammar
import PicoVerif.Model.Writers
/-! Model of the tree-driven writers of pico8/lua/lua.py: `LuaASTEchoWriter` (718-1256), `LuaFormatterWriter`
(1423-1503) and `LuaMinifyWriter` (1335-1420).

Structure used (see DESIGN 4.3): the walk handlers emit the program's significant tokens in stream order, each
preceded by the text `_get_code_for_spaces` returns for the run of space/newline/comment tokens in front of it; a
node's `end_pos` is right after a significant token, so a run is never split between two calls.  What the handlers
add is the *indent level in force when a run is consumed* (`indentOf`, transcribed handler by handler) and, since the
fix, the end-of-walk completeness check.  `normRun` is the formatter's regex pipeline as a function on bytes. -/
namespace Pico.Ast
open Pico.Lex Pico.Peg Pico.Gram

/-! ### the formatter's regex pipeline (lua.py:1457-1491), one function per `re.sub` -/

/-- `re.sub(br'\t', b' ')` -/
def subTab (s : Bytes) : Bytes := s.map fun b => if b = 9 then 32 else b

/-- `\r\n`→`\n`, then `\n\r`→`\n`, then `\r`→`\n` -/
def subCRLF : Bytes → Bytes
  | 13 :: 10 :: rest => 10 :: subCRLF rest
  | b :: rest => b :: subCRLF rest
  | [] => []
def subLFCR : Bytes → Bytes
  | 10 :: 13 :: rest => 10 :: subLFCR rest
  | b :: rest => b :: subLFCR rest
  | [] => []
def subCR (s : Bytes) : Bytes := s.map fun b => if b = 13 then 10 else b

/-- `re.sub(br' +\n', b'\n')`: drop the spaces directly in front of a line feed -/
def dropSpacesBeforeLF : Bytes → Bytes
  | [] => []
  | b :: rest =>
    if b = 32 then
      let n := spanLen (· == 32) rest
      if (rest.drop n).head? = some 10 then dropSpacesBeforeLF (rest.drop n)
      else b :: dropSpacesBeforeLF rest
    else b :: dropSpacesBeforeLF rest
termination_by s => s.length
decreasing_by all_goals simp_wf <;> omega

/-- `s` is `<spaces>--…`: length of the space run if so -/
def spacesThenDashes (s : Bytes) : Option Nat :=
  let n := spanLen (· == 32) s
  if [45, 45].isPrefixOf (s.drop n) then some n else none

/-- `s` is `<spaces>--…` or `<spaces>//…` (the alternation `(--|//)`): length of the space run and the marker matched -/
def spacesThenComment (s : Bytes) : Option (Nat × Bytes) :=
  let n := spanLen (· == 32) s
  if [45, 45].isPrefixOf (s.drop n) then some (n, [45, 45])
  else if [47, 47].isPrefixOf (s.drop n) then some (n, [47, 47])
  else none

/-- `re.sub(br'^ *--', repl)` (at the very start only; `--` comments only) -/
def subStartComment (repl : Bytes) (s : Bytes) : Bytes :=
  match spacesThenDashes s with
  | some n => repl ++ s.drop (n + 2)
  | none => s

/-- `re.sub(br'^ *(--|//)', br'\1')` (at the very start only): the spaces before a leading comment are dropped -/
def subStartAnyComment (s : Bytes) : Bytes :=
  match spacesThenComment s with
  | some (n, _) => s.drop n
  | none => s

/-- `re.sub(br'\n *(--|//)', b'\n' + ind + br'\1')` (every occurrence, left to right, non-overlapping) -/
def subLineComment (ind : Bytes) : Bytes → Bytes
  | [] => []
  | b :: rest =>
    if b = 10 then
      match spacesThenComment rest with
      | some (n, m) => [10] ++ ind ++ m ++ subLineComment ind (rest.drop (n + 2))
      | none => b :: subLineComment ind rest
    else b :: subLineComment ind rest
termination_by s => s.length
decreasing_by all_goals simp_wf <;> omega

/-- `re.sub(br'\n *\Z', b'\n' + ind)`: a final line feed followed only by spaces -/
def subFinalIndent (ind : Bytes) (s : Bytes) : Bytes :=
  let trail := spanLen (· == 32) s.reverse
  let body := s.take (s.length - trail)
  if body.getLast? = some 10 then body ++ ind else s

/-- `re.sub(br'^ *\Z', b'')`: a string of spaces only becomes empty -/
def subAllSpaces (s : Bytes) : Bytes := if s.all (· == 32) then [] else s

/-- `re.sub(br'\n\n+', b'\n\n')` -/
def collapseLF : Bytes → Bytes
  | 10 :: 10 :: 10 :: rest => collapseLF (10 :: 10 :: rest)
  | b :: rest => b :: collapseLF rest
  | [] => []
termination_by s => s.length
decreasing_by all_goals simp_wf

/-- `re.sub(br'[ \n]+$', lambda m: b'\n' if b'\n' in m.group(0) else b'')`: the trailing run of spaces and line
feeds becomes one line feed if it contains one, else nothing -/
def subTrailing (s : Bytes) : Bytes :=
  let trail := spanLen (fun b => b == 32 || b == 10) s.reverse
  if trail = 0 then s
  else s.take (s.length - trail) ++ (if (s.drop (s.length - trail)).contains 10 then [10] else [])

/-- `LuaFormatterWriter._get_code_for_spaces` on the text of a run: `width * indent` spaces of indentation,
`atStart` = the run starts the token stream (`start_pos == 0`), `atEnd` = it ends the token stream -/
def normRun (width indent : Nat) (atStart atEnd : Bool) (run : Bytes) : Bytes :=
  let ind := List.replicate (width * indent) (32 : UInt8)
  let s := subCR (subLFCR (subCRLF (subTab run)))
  let s := dropSpacesBeforeLF s
  let s := if !atStart then subStartComment [32, 32, 45, 45] s else s
  let s := subLineComment ind s
  let s := if atStart then subStartAnyComment s else s
  let s := subFinalIndent ind s
  let s := if atStart then subAllSpaces s else s
  let s := collapseLF s
  if atEnd then subTrailing s else s

/-- `LuaMinifyWriter._get_code_for_spaces` on the text of a run *without its comments* (lua.py:1380-1396) -/
def minRun (atStart atEnd : Bool) (run : Bytes) : Bytes :=
  if atStart || atEnd then [] else
  let s := subTab run
  let s := stripAfterLF s
  let s := dropSpacesBeforeLF s
  let s := collapseSpaces s
  collapseLF1 s
where
  /-- `\n +` → `\n` -/
  stripAfterLF : Bytes → Bytes
    | 10 :: 32 :: rest => stripAfterLF (10 :: rest)
    | b :: rest => b :: stripAfterLF rest
    | [] => []
  termination_by s => s.length
  decreasing_by all_goals simp_wf
  /-- two or more spaces → one space -/
  collapseSpaces : Bytes → Bytes
    | 32 :: 32 :: rest => collapseSpaces (32 :: rest)
    | b :: rest => b :: collapseSpaces rest
    | [] => []
  termination_by s => s.length
  decreasing_by all_goals simp_wf
  /-- `\n\n+` → `\n` -/
  collapseLF1 : Bytes → Bytes
    | 10 :: 10 :: rest => collapseLF1 (10 :: rest)
    | b :: rest => b :: collapseLF1 rest
    | [] => []
  termination_by s => s.length
  decreasing_by all_goals simp_wf

/-! ### indent level in force when the run in front of each token is consumed -/

def leafIs (toks : Array Tok) (t : Tree) (d : Bytes) : Bool :=
  match t with
  | .leaf i => (toks[i]?.map fun tk => tk.kind == .symbol && tk.data == d).getD false
  | _ => false

def isLeaf : Tree → Bool | .leaf _ => true | _ => false

/-- between an opening and a closing bracket leaf the handler walks one level deeper (`self._indent += 1 ... -= 1`):
brackets themselves at `d`, everything between the first `open` leaf and the last `close` leaf at `d + 1` -/
def bracketed (toks : Array Tok) (op cl : Bytes) (cs : List Tree) (d : Nat) : List (Tree × Nat) :=
  let rec go : List Tree → Bool → List (Tree × Nat)
    | [], _ => []
    | c :: rest, inside =>
      if !inside && leafIs toks c op then (c, d) :: go rest true
      else if inside && leafIs toks c cl && !(rest.any fun r => leafIs toks r cl) then (c, d) :: go rest false
      else (c, if inside then d + 1 else d) :: go rest inside
  go cs false

/-- children of a node of kind `k` with the indent in force when each is walked (transcribed from the `_walk_X`
handlers of LuaASTEchoWriter; `d` = indent on entry) -/
def childIndents (toks : Array Tok) (k : Nat) (cs : List Tree) (d : Nat) : List (Tree × Nat) :=
  let chunkDeeper : List (Tree × Nat) := cs.map fun c => match c with
    | .node kc _ _ _ => (c, if kc = kChunk then d + 1 else d)
    | .leaf _ => (c, d)
  if k = kStatDo ∨ k = kStatWhile ∨ k = kStatRepeat ∨ k = kStatForStep ∨ k = kStatForIn ∨ k = kStatIf then chunkDeeper
  else if k = kStatIfShort then
    -- `if` cond body [`else` body]: the body at the same level, the else body one deeper
    let rec go : List Tree → Nat → List (Tree × Nat)
      | [], _ => []
      | c :: rest, nChunk =>
        match c with
        | .node kc _ _ _ => if kc = kChunk then (c, if nChunk = 0 then d else d + 1) :: go rest (nChunk + 1) else (c, d) :: go rest nChunk
        | .leaf _ => (c, d) :: go rest nChunk
    go cs 0
  else if k = kFunctionBody then
    -- `(` params `)` at d / d+1 / d, then the block one deeper, `end` at d
    (bracketed toks [40] [41] cs d).map fun (c, dd) => match c with
      | .node kc _ _ _ => (c, if kc = kChunk then d + 1 else dd)
      | .leaf _ => (c, dd)
  else if k = kFunctionArgs then bracketed toks [40] [41] cs d
  else if k = kVarIndex ∨ k = kFieldExpKey then bracketed toks [91] [93] cs d
  else if k = kExpValue then
    if (cs.head?.map fun c => leafIs toks c [40]).getD false then bracketed toks [40] [41] cs d else cs.map fun c => (c, d)
  else if k = kTableConstructor then
    -- fields and separators one deeper; a trailing separator (directly before `}`) and the braces at d
    let n := cs.length
    cs.zipIdx.map fun (c, i) =>
      if i = 0 ∨ i + 1 = n then (c, d)
      else if i + 2 = n ∧ isLeaf c then (c, d)
      else (c, d + 1)
  else cs.map fun c => (c, d)

mutual
/-- (token index, indent in force when the run in front of it is consumed), in stream order -/
def walkInd (toks : Array Tok) : Tree → Nat → List (Nat × Nat)
  | .leaf i, d => [(i, d)]
  | .node k _ _ cs, d => walkIndL toks cs ((childIndents toks k cs d).map (·.2))
/-- children paired positionally with their indents (a missing indent defaults to 0; `childIndents` returns one per child) -/
def walkIndL (toks : Array Tok) : List Tree → List Nat → List (Nat × Nat)
  | [], _ => []
  | t :: rest, ds => walkInd toks t (ds.headD 0) ++ walkIndL toks rest ds.tail
end

/-! ### assembling the output -/

/-- text of the tokens `[a, b)` as the echo of their codes -/
def runText (toks : Array Tok) (a b : Nat) : Bytes := ((toks.extract a b).toList.flatMap Tok.code)

def allTrivia (toks : Array Tok) (a b : Nat) : Bool := (toks.extract a b).all Tok.trivia

/-- how a writer renders the run of space/newline/comment tokens in front of a token:
arguments: indent in force, `start_pos == 0`, `pos == len(tokens)` afterwards, the run's text -/
abbrev RunFmt := Nat → Bool → Bool → Bytes → Bytes

/-- emit every walked token preceded by its rendered run; then the trailing run; `.error .parse` when the walk does
not reach the end of the token stream (the completeness check of `to_lines`), `.error .assert_` when a walked token
is not the next significant token (the handlers' assertions) -/
def assemble (fmt : RunFmt) (toks : Array Tok) : List (Nat × Nat) → Nat → Bytes → Except Err Bytes
  | [], pos, out =>
    let j := skipTrivia toks pos
    if j < toks.size then .error .parse
    else .ok (out ++ fmt 0 (pos == 0) true (runText toks pos toks.size))
  | (i, d) :: rest, pos, out =>
    if i < pos ∨ i ≥ toks.size ∨ !allTrivia toks pos i then .error .assert_
    else assemble fmt toks rest (i + 1)
           (out ++ fmt d (pos == 0) false (runText toks pos i) ++ (toks.getD i default).code)

/-- a tree-driven writer on a token list: parse, walk, assemble -/
def astWrite (fmt : RunFmt) (toks : List Tok) : Except Err Bytes :=
  let arr := toks.toArray
  match Peg.run Gram.gram arr (50 * arr.size + 200) (.nt Gram.nChunk) { pos := 0, maxPos := none } with
  | .error e => .error e
  | .ok none => .error .parse
  | .ok (some (ts, _)) =>
    assemble fmt arr (ts.flatMap fun t => walkInd arr t 0) 0 []

/-- `LuaASTEchoWriter` -/
def astEcho (toks : List Tok) : Except Err Bytes := astWrite (fun _ _ _ r => r) toks

/-- `LuaFormatterWriter` with `indentwidth = width` (what `p8tool luafmt` runs) -/
def luafmt (width : Nat) (toks : List Tok) : Except Err Bytes :=
  astWrite (fun d atStart atEnd r => normRun width d atStart atEnd r) toks

end Pico.Ast
