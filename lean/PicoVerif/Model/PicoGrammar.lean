import PicoVerif.Model.Peg
import PicoVerif.Gen.Parser
/-! picotool's parser (pico8/lua/parser.py:363-1059) transcribed as grammar data for `Peg.run`: one nonterminal per
`_method`. Operator tables come from the regenerated `Gen.binopPats` / `Gen.unopPats`. -/
namespace Pico.Gram
open Pico.Peg Pico.Lex

def b (s : String) : List UInt8 := s.toUTF8.toList
def kw (s : String) : G := .tok (.exact .keyword (b s))
def sym (s : String) : G := .tok (.exact .symbol (b s))
def tk (k : Kind) : G := .tok (.kind k)
def seqs : List G → G
  | [] => .eps
  | [g] => g
  | g :: gs => .seq g (seqs gs)
def alts : List G → G
  | [] => .notAhead .eps      -- always fails softly
  | [g] => g
  | g :: gs => .alt g (alts gs)
def opt (g : G) : G := .alt g .eps
def hard (g : G) : G := .hard g

-- node kinds
def kChunk := 0
def kStatAssignment := 1
def kStatFunctionCall := 2
def kStatDo := 3
def kStatWhile := 4
def kStatRepeat := 5
def kStatIf := 6
def kStatIfShort := 7
def kStatForStep := 8
def kStatForIn := 9
def kStatFunction := 10
def kStatLocalFunction := 11
def kStatLocalAssignment := 12
def kStatGoto := 13
def kStatLabel := 14
def kStatBreak := 15
def kStatReturn := 16
def kFunctionName := 17
def kFunctionArgs := 18
def kVarList := 19
def kVarName := 20
def kVarIndex := 21
def kVarAttribute := 22
def kNameList := 23
def kExpList := 24
def kExpValue := 25
def kVarargDots := 26
def kExpBinOp := 27
def kExpUnOp := 28
def kFunctionCall := 29
def kFunctionCallMethod := 30
def kFunction := 31
def kFunctionBody := 32
def kTableConstructor := 33
def kFieldExpKey := 34
def kFieldNamedKey := 35
def kFieldExp := 36

def kindNames : List String := ["Chunk","StatAssignment","StatFunctionCall","StatDo","StatWhile","StatRepeat","StatIf","StatIfShort",
 "StatForStep","StatForIn","StatFunction","StatLocalFunction","StatLocalAssignment","StatGoto","StatLabel","StatBreak","StatReturn",
 "FunctionName","FunctionArgs","VarList","VarName","VarIndex","VarAttribute","NameList","ExpList","ExpValue","VarargDots","ExpBinOp","ExpUnOp",
 "FunctionCall","FunctionCallMethod","Function","FunctionBody","TableConstructor","FieldExpKey","FieldNamedKey","FieldExp"]

-- nonterminals
def nChunk := 0
def nStat := 1
def nLastStat := 2
def nFuncName := 3
def nVarList := 4
def nVar := 5
def nNameList := 6
def nExpList := 7
def nExp := 8
def nExpTerm := 9
def nPrefixExp := 10
def nFunctionCall := 11
def nArgs := 12
def nFunction := 13
def nFuncBody := 14
def nTableCons := 15
def nField := 16

/-- a token pattern from a regenerated `(class, data)` entry of `parser.BINOP_PATS` / `UNOP_PATS` -/
def patOf (e : String × List UInt8) : G :=
  .tok (.exact (if e.1 = "keyword" then .keyword else .symbol) e.2)
def binopPats : List G := Gen.binopPats.map patOf
def unopPats : List G := Gen.unopPats.map patOf
def assignops : List String := ["=","+=","-=","*=","/=","%=","..="]

def semi := sym ";"
def chunk := G.nt nChunk
def exp := G.nt nExp
def name := tk .name

def prefixSuffix : G := alts [
  .node kVarIndex (seqs [sym "[", hard exp, hard (sym "]")]),
  .node kVarAttribute (seqs [sym ".", hard name]),
  .node kFunctionCall (.nt nArgs),
  .node kFunctionCallMethod (seqs [sym ":", hard name, hard (.nt nArgs)])]

def gram (n : Nat) : G :=
  if n == nChunk then
    .node kChunk (seqs [.star (seqs [.star semi, .nt nStat]), .star semi, opt (.nt nLastStat), .star semi])
  else if n == nStat then alts [
    .node kStatAssignment (seqs [.nt nVarList, alts (assignops.map sym), hard (.nt nExpList)]),
    .node kStatFunctionCall (.nt nFunctionCall),
    .node kStatDo (seqs [kw "do", chunk, hard (kw "end")]),
    .node kStatWhile (seqs [kw "while", hard exp, hard (kw "do"), chunk, hard (kw "end")]),
    .node kStatRepeat (seqs [kw "repeat", chunk, hard (kw "until"), hard exp]),
    -- (the implementation reads `exp.value` of the condition: only an `ExpValue` — a parenthesised expression or a call — gets
    -- through; for `if #f(x) y=1` or `if (a)+f(b) y=1` it raises AttributeError: no short-if, and the long form then demands `then`)
    .node kStatIfShort (seqs [kw "if", opt (.filterTop [kExpValue] exp), .notAhead (kw "then"), .notAhead (kw "do"), .prevTokIs (.exact .symbol (b ")")),
        .fence (seqs [chunk, opt (seqs [kw "else", chunk])])]),
    .node kStatIf (seqs [kw "if", opt exp, alts [kw "do", hard (kw "then")], chunk,
        .star (seqs [kw "elseif", opt exp, hard (kw "then"), chunk]),
        opt (seqs [kw "else", chunk]), hard (kw "end")]),
    .node kStatForStep (seqs [kw "for", opt name, sym "=", hard exp, hard (sym ","), hard exp, opt (seqs [sym ",", hard exp]),
        hard (kw "do"), chunk, hard (kw "end")]),
    .node kStatForIn (seqs [kw "for", hard (.nt nNameList), hard (kw "in"), hard (.nt nExpList), hard (kw "do"), chunk, hard (kw "end")]),
    .node kStatFunction (seqs [kw "function", hard (.nt nFuncName), hard (.nt nFuncBody)]),
    .node kStatLocalFunction (seqs [kw "local", kw "function", hard name, hard (.nt nFuncBody)]),
    .node kStatLocalAssignment (seqs [kw "local", hard (.nt nNameList), opt (seqs [sym "=", hard (.nt nExpList)])]),
    .node kStatGoto (seqs [kw "goto", hard name]),
    .node kStatLabel (tk .label)]
  else if n == nLastStat then alts [
    .node kStatBreak (kw "break"),
    .node kStatReturn (seqs [kw "return", opt (.nt nExpList)])]
  else if n == nFuncName then
    .node kFunctionName (seqs [name, .star (seqs [sym ".", hard name]), opt (seqs [sym ":", hard name])])
  else if n == nVarList then
    .node kVarList (seqs [.nt nVar, .star (seqs [sym ",", hard (.nt nVar)])])
  else if n == nVar then .filterTop [kVarName, kVarIndex, kVarAttribute] (.nt nPrefixExp)
  else if n == nNameList then .node kNameList (seqs [name, .star (seqs [sym ",", name])])
  else if n == nExpList then .node kExpList (seqs [exp, .star (seqs [sym ",", hard exp])])
  else if n == nExp then .chain (.nt nExpTerm) (.node kExpBinOp (seqs [alts binopPats, hard (.nt nExpTerm)]))
  else if n == nExpTerm then alts [
    .node kExpValue (kw "nil"), .node kExpValue (kw "false"), .node kExpValue (kw "true"),
    .node kExpValue (tk .number), .node kExpValue (tk .string),
    .node kVarargDots (sym "..."),
    .node kExpValue (.nt nFunction),
    .node kExpValue (.nt nPrefixExp),
    .node kExpValue (.nt nTableCons),
    .node kExpUnOp (seqs [alts unopPats, hard exp])]
  else if n == nPrefixExp then alts [
    .chain (.node kVarName name) prefixSuffix,
    -- `( exp )`; the implementation also lets `exp` be absent (then the node is `None`: `x=()` ends in a ParserError
    -- unless a table constructor or a call suffix follows) — modelled as a parse error (documented exactness gap)
    .chain (seqs [sym "(", hard exp, hard (sym ")")]) prefixSuffix]
  else if n == nFunctionCall then .filterTop [kFunctionCall, kFunctionCallMethod] (.nt nPrefixExp)
  else if n == nArgs then alts [
    .node kFunctionArgs (seqs [sym "(", opt (.nt nExpList), hard (sym ")")]),
    .nt nTableCons,
    tk .string]
  else if n == nFunction then .node kFunction (seqs [kw "function", hard (.nt nFuncBody)])
  else if n == nFuncBody then
    .node kFunctionBody (seqs [sym "(",
      alts [seqs [.nt nNameList, opt (seqs [sym ",", hard (.node kVarargDots (sym "..."))])],
            opt (.node kVarargDots (sym "..."))],
      hard (sym ")"), chunk, hard (kw "end")])
  else if n == nTableCons then
    .node kTableConstructor (seqs [sym "{", opt (.nt nField), .star (seqs [alts [sym ",", sym ";"], .nt nField]),
      opt (alts [sym ",", sym ";"]), hard (sym "}")])
  else if n == nField then alts [
    .node kFieldExpKey (seqs [sym "[", hard exp, hard (sym "]"), hard (sym "="), hard exp]),
    .node kFieldNamedKey (seqs [name, sym "=", hard exp]),
    .node kFieldExp exp]
  else .notAhead .eps

end Pico.Gram
