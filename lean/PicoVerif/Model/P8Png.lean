import PicoVerif.Model.Compress
import PicoVerif.Model.P8File
/-! Model of pico8/game/formatter/p8png.py: code area encoding, picodata layout, 2-bit-per-channel
steganography. The PNG container (pypng + zlib) is a parameter: an image is its list of pixel rows
(flat RGBA bytes per row), exactly what `png.Reader.read()` yields and `png.Writer.write()` takes. -/
namespace Pico.P8Png
open Pico.Compress Pico.P8File

def codeAreaLen : Nat := 0x8000 - 0x4300

/-- the uncompressed form can represent the code: NUL-terminated text that must not read as the compressed header -/
def rawOk (code : Bytes) : Bool := !code.contains 0 && code != [0x3a, 0x63, 0x3a]

/-- the storage form `get_bytes_from_code` chooses: a version 0 cart is never compressed (its readers take the code area for
text); otherwise compressed when that is smaller counting the 8-byte header (repo fix 762f112) or when the uncompressed
form cannot represent the code (repo fix 14495cd) -/
def useCompressed (code : Bytes) (version : Nat) : Bool :=
  version != 0 && (decide ((compress code).length + 8 < code.length) || !rawOk code)

/-- `get_bytes_from_code(code, version)` (p8png.py:141-185) -/
def getBytesFromCode (code : Bytes) (version : Nat) : Except Err Bytes :=
  if version = 0 ∧ code.contains 0 then .error .value else           -- version 0 text cannot hold a NUL: refused (repo fix 91993e3)
  if useCompressed code version then
    if code.length / 256 > 255 then .error .value else       -- bytes([len >> 8, ...])
    let cb := header code ++ compress code
    if cb.length > codeAreaLen then .error .tooLarge
    else .ok (cb ++ List.replicate (codeAreaLen - cb.length) 0)
  else
    if code.length > codeAreaLen then .error .tooLarge
    else .ok (code ++ List.replicate (codeAreaLen - code.length) 0)

def replaceCR (code : Bytes) : Bytes := code.map fun b => if b = 13 then 32 else b

/-- `get_code_from_bytes(codedata, version)` -> `(code_length, code, compressed_size)` (p8png.py:109-138) -/
def getCodeFromBytes (codedata : Bytes) (version : Nat) : Except Err (Nat × Bytes × Option Nat) :=
  if version = 0 ∨ codedata.take 4 ≠ [0x3a, 0x63, 0x3a, 0x00] then
    let n := match codedata.idxOf? 0 with | some i => i | none => codeAreaLen
    .ok (n, replaceCR (codedata.take n ++ [10]), none)
  else
    match decompress codedata with
    | .error e => .error e
    | .ok (n, code, sz) => .ok (n, replaceCR code, some sz)

/-- the 0x8001 bytes hidden in the image (p8png.py:277-283), in `Gen.pngJoinOrder` order -/
def picodata (c : Cart) (codeBytes : Bytes) : Bytes :=
  c.gfx ++ c.map ++ c.gff ++ c.music ++ c.sfx ++ codeBytes ++ [c.version.toUInt8]

/-- one RGBA pixel carrying one byte (p8png.py:85-97): B<-bits 0-1, G<-2-3, R<-4-5, A<-6-7 -/
def encPixel (r g b a : UInt8) (v : UInt8) : List UInt8 :=
  [(r &&& 0xfc) ||| ((v >>> (4 : UInt8)) &&& 3), (g &&& 0xfc) ||| ((v >>> (2 : UInt8)) &&& 3),
   (b &&& 0xfc) ||| (v &&& 3), (a &&& 0xfc) ||| ((v >>> (6 : UInt8)) &&& 3)]

/-- p8png.py:53-61 -/
def decPixel (r g b a : UInt8) : UInt8 :=
  ((b &&& 3) <<< (0 : UInt8)) ||| ((g &&& 3) <<< (2 : UInt8)) ||| ((r &&& 3) <<< (4 : UInt8)) ||| ((a &&& 3) <<< (6 : UInt8))

/-- rewrite the pixels of one row: pixel `i` of the row carries `pico[base + i]` if that index exists -/
def encRow : List UInt8 → List UInt8 → List UInt8
  | r :: g :: b :: a :: rest, v :: vs => encPixel r g b a v ++ encRow rest vs
  | row, _ => row

/-- `get_pngdata_from_picodata` for 4-plane rows of equal width -/
def encRows : List (List UInt8) → Bytes → List (List UInt8)
  | [], _ => []
  | row :: rest, pico => encRow row pico :: encRows rest (pico.drop (row.length / 4))

def decRow : List UInt8 → List UInt8
  | r :: g :: b :: a :: rest => decPixel r g b a :: decRow rest
  | _ => []

/-- `get_picodata_from_pngdata` for 4-plane rows -/
def decRows (rows : List (List UInt8)) : Bytes := rows.flatMap decRow

/-- `P8PNGFormatter.to_file` down to the pixel rows handed to `png.Writer` -/
def toPixels (label : List (List UInt8)) (c : Cart) : Except Err (List (List UInt8)) := do
  let cb ← getBytesFromCode c.code c.version
  if c.version > 255 then .error .value else
  pure (encRows label (picodata c cb))

/-- `P8PNGFormatter.from_file` from the pixel rows `png.Reader` yields (Lua layer opaque) -/
def fromPixels (rows : List (List UInt8)) : Except Err Cart := do
  let pico := decRows rows
  if pico.length < 0x8001 then .error .index else
  let version := (pico.getD 0x8000 0).toNat
  let (_, code, _) ← getCodeFromBytes (pySlice pico 0x4300 0x8000) version
  pure { version := version, code := code,
         gfx := pySlice pico 0 0x2000, map := pySlice pico 0x2000 0x3000,
         gff := pySlice pico 0x3000 0x3100, music := pySlice pico 0x3100 0x3200,
         sfx := pySlice pico 0x3200 0x4300, label := none }

end Pico.P8Png
