import PicoVerif.Model.PicoGrammar
/-! Adjacency analysis of a grammar for `Peg.run`: which token patterns can start / end what a grammar expression
accepts, and which ordered pairs of patterns can stand next to each other in it (FIRST / LAST / FOLLOW in the usual
sense, computed over the grammar *data*, look-ahead and fence predicates ignored — an over-approximation).
Sets of patterns are `Nat` bit masks over the positions of a pattern table `cls`; a pair `(i, j)` is bit `i * w + j`
of the adjacency mask (`w = cls.length + 1`; position `cls.length` stands for "a pattern that is not in the table").
Everything here is executable; `Lemmas/PegAdj.lean` proves it sound for every grammar, `Props/C01.lean` reads it at
picotool's grammar. -/
namespace Pico.Adj
open Pico.Peg Pico.Lex

def patEq : Pat → Pat → Bool
  | .kind k, .kind k' => k == k'
  | .exact k d, .exact k' d' => k == k' && d == d'
  | _, _ => false

/-- position of a pattern in the table (`cls.length` if absent) -/
def idx (cls : List Pat) (p : Pat) : Nat :=
  match cls with
  | [] => 0
  | q :: rest => if patEq q p then 0 else idx rest p + 1

structure Sm where
  nullable : Bool
  first : Nat
  last : Nat
  adj : Nat
deriving DecidableEq, Repr

def Sm.eps : Sm := ⟨true, 0, 0, 0⟩
def Sm.bot : Sm := ⟨false, 0, 0, 0⟩

/-- all pairs (i, j) with i ∈ a, j ∈ b, i < w -/
def pairs (w : Nat) (a b : Nat) : Nat :=
  (List.range w).foldl (fun acc i => if a.testBit i then acc ||| (b <<< (i * w)) else acc) 0

def Sm.seq (w : Nat) (a b : Sm) : Sm :=
  ⟨a.nullable && b.nullable, a.first ||| (if a.nullable then b.first else 0),
   b.last ||| (if b.nullable then a.last else 0), a.adj ||| b.adj ||| pairs w a.last b.first⟩
def Sm.alt (a b : Sm) : Sm := ⟨a.nullable || b.nullable, a.first ||| b.first, a.last ||| b.last, a.adj ||| b.adj⟩
def Sm.star (w : Nat) (a : Sm) : Sm := ⟨true, a.first, a.last, a.adj ||| pairs w a.last a.first⟩

/-- summary of a grammar expression, given summaries `σ` of the nonterminals -/
def summ (cls : List Pat) (σ : Nat → Sm) : G → Sm
  | .eps => .eps
  | .tok p => ⟨false, 1 <<< idx cls p, 1 <<< idx cls p, 0⟩
  | .seq a b => (summ cls σ a).seq (cls.length + 1) (summ cls σ b)
  | .alt a b => (summ cls σ a).alt (summ cls σ b)
  | .star g => (summ cls σ g).star (cls.length + 1)
  | .nt n => σ n
  | .hard g => summ cls σ g
  | .node _ g => summ cls σ g
  | .chain f s => (summ cls σ f).seq (cls.length + 1) ((summ cls σ s).star (cls.length + 1))
  | .fence g => summ cls σ g
  | .prevTokIs _ => .eps
  | .notAhead _ => .eps
  | .filterTop _ g => summ cls σ g

def sub (a b : Nat) : Bool := a &&& b == a
def Sm.le (a b : Sm) : Bool := (!a.nullable || b.nullable) && sub a.first b.first && sub a.last b.last && sub a.adj b.adj

/-- `tbl` (summaries of nonterminals `0 .. tbl.length-1`, `Sm.eps`-like default beyond) is closed under the grammar -/
def tblOf (tbl : List Sm) (n : Nat) : Sm := tbl.getD n .eps
def closed (cls : List Pat) (gram : Nat → G) (tbl : List Sm) : Bool :=
  (List.range tbl.length).all fun n => (summ cls (tblOf tbl) (gram n)).le (tblOf tbl n)

def stepTbl (cls : List Pat) (gram : Nat → G) (tbl : List Sm) : List Sm :=
  (List.range tbl.length).map fun n => summ cls (tblOf tbl) (gram n)
def iterTbl (cls : List Pat) (gram : Nat → G) : Nat → List Sm → List Sm
  | 0, t => t
  | k+1, t => iterTbl cls gram k (stepTbl cls gram t)

/-- the patterns occurring in a grammar expression -/
def patsOf : G → List Pat
  | .eps => [] | .tok p => [p]
  | .seq a b => patsOf a ++ patsOf b | .alt a b => patsOf a ++ patsOf b
  | .star g => patsOf g | .nt _ => [] | .hard g => patsOf g | .node _ g => patsOf g
  | .chain f s => patsOf f ++ patsOf s | .fence g => patsOf g
  | .prevTokIs _ => [] | .notAhead _ => [] | .filterTop _ g => patsOf g

def dedup : List Pat → List Pat → List Pat
  | acc, [] => acc.reverse
  | acc, p :: ps => if acc.any (patEq p) then dedup acc ps else dedup (p :: acc) ps

/-! ### picotool's grammar -/

def nNT : Nat := 17
def picoCls : List Pat := dedup [] ((List.range nNT).flatMap fun n => patsOf (Gram.gram n))
def picoTbl : List Sm := iterTbl picoCls Gram.gram 16 (List.replicate nNT .bot)
def picoW : Nat := picoCls.length + 1

/-- the adjacent pattern pairs of a whole program, decoded -/
def adjPairs (cls : List Pat) (adj : Nat) : List (Nat × Nat) :=
  (List.range (cls.length + 1)).flatMap fun i => ((List.range (cls.length + 1)).filter fun j => adj.testBit (i * (cls.length + 1) + j)).map fun j => (i, j)

end Pico.Adj
