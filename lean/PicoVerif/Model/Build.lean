import PicoVerif.Base.Py
/-! Model of the section selection of `p8tool build` (`do_build`, build.py:241-307): for each of the six sections
in order, take it from the named source cart, from the empty cart, or keep what the output cart had.
Carts are abstract here: a cart is a function from section to its content. -/
namespace Pico.Build

/-- the six sections `build` can take from sources, and the label, which it never touches -/
inductive Sec | lua | gfx | gff | map | sfx | music | label
  deriving DecidableEq, Repr

def secs : List Sec := [.lua, .gfx, .gff, .map, .sfx, .music]

abbrev Cart := Sec → Bytes

/-- what the command line says about one section: `--X FILE` and/or `--empty-X` -/
structure SecArg where
  file : Option Nat := none      -- index of the named source file
  empty : Bool := false

/-- facts about a named source file -/
structure FileInfo where
  exists_ : Bool                 -- os.path.exists
  cartExt : Bool                 -- ends with .p8 or .p8.png
  luaExt : Bool                  -- ends with .lua
  content : Cart                 -- the cart it loads to (for a .lua file: `lua` = the built code incl. require() packages)

/-- one iteration of `for section in (...)` (build.py:258-290); an error makes `do_build` return 1 before anything is written -/
def step (args : Sec → SecArg) (files : Nat → FileInfo) (emptyCart : Cart) (result : Cart) (s : Sec) : Except Err Cart :=
  match (args s).file with
  | some f =>
    if (args s).empty then .error .value                       -- both --X and --empty-X
    else if !(files f).exists_ then .error .notFound            -- source file missing
    else if !((files f).cartExt || (s == .lua && (files f).luaExt)) then .error .type_   -- unsupported file type
    else .ok (fun t => if t = s then (files f).content s else result t)
  | none =>
    if (args s).empty then .ok (fun t => if t = s then emptyCart s else result t)
    else .ok result

/-- `do_build`: `out` = the existing output cart (None if the file does not exist); `outExtOk` = OUT ends with .p8/.p8.png -/
def doBuild (outExtOk : Bool) (args : Sec → SecArg) (files : Nat → FileInfo) (emptyCart : Cart) (out : Option Cart) : Except Err Cart :=
  if !outExtOk then .error .type_ else
  secs.foldlM (step args files emptyCart) (out.getD emptyCart)

/-- the section the arguments name -/
def choice (args : Sec → SecArg) (files : Nat → FileInfo) (emptyCart : Cart) (out : Option Cart) (s : Sec) : Bytes :=
  match (args s).file with
  | some f => (files f).content s
  | none => if (args s).empty then emptyCart s else (out.getD emptyCart) s

/-- an argument error for section `s` -/
def badArg (args : Sec → SecArg) (files : Nat → FileInfo) (s : Sec) : Bool :=
  match (args s).file with
  | some f => (args s).empty || !(files f).exists_ || !((files f).cartExt || (s == .lua && (files f).luaExt))
  | none => false

end Pico.Build
