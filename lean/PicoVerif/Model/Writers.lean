import PicoVerif.Model.Lexer
import PicoVerif.Gen.Lua
/-! Models of the token-stream writers of pico8/lua/lua.py: `LuaEchoWriter` (561-581), `MinifyNameFactory`
(1259-1332), `LuaMinifyTokenWriter` (1506-1620), and the counters `get_token_count` / title / byline. -/
namespace Pico.Wr
open Pico.Lex

/-- `LuaEchoWriter.to_lines` joined: every token's `code`, in order -/
def echo (toks : List Tok) : Bytes := toks.flatMap Tok.code

/-- the chunks `LuaEchoWriter.to_lines` yields: split after each newline *token* -/
def echoLines : List Tok → Bytes → List Bytes
  | [], cur => if cur.isEmpty then [] else [cur]
  | t :: rest, cur =>
    if t.kind = .newline then (cur ++ t.code) :: echoLines rest [] else echoLines rest (cur ++ t.code)

/-! ### name factory -/

/-- `_name_for_id` (lua.py:1284): bijective-looking base-26 spelling (`int(id / 26)` is exact below 2^53) -/
def nameForId (id : Nat) : Bytes :=
  let n := Gen.nameChars.length
  if h : id ≥ n ∧ n ≥ 2 then nameForId (id / n) ++ [Gen.nameChars.getD (id % n) 0]
  else [Gen.nameChars.getD (id % n) 0]
termination_by id
decreasing_by
  have := h.1; have := h.2
  exact Nat.div_lt_self (by omega) (by omega)

structure NameCfg where
  keepAll : Bool := false
  keep : Option (List Bytes) := none      -- `_names_to_keep`

structure NameSt where
  map : List (Bytes × Bytes) := []        -- `_name_map`, insertion order
  next : Nat := 0                         -- `_next_name_id`

def reserved (cfg : NameCfg) (n : Bytes) : Bool :=
  Gen.preservedNames.contains n || (match cfg.keep with | some k => k.contains n | none => false)

/-- the `while True` allocation loop; fuel = number of reserved names + 1 (enough by pigeonhole) -/
def alloc (cfg : NameCfg) : Nat → Nat → Option (Bytes × Nat)
  | 0, _ => none
  | fuel + 1, id =>
    let nm := nameForId id
    if reserved cfg nm then alloc cfg fuel (id + 1) else some (nm, id + 1)

def allocFuel (cfg : NameCfg) : Nat := Gen.preservedNames.length + (cfg.keep.getD []).length + 1

/-- `get_short_name(name)` -/
def getShortName (cfg : NameCfg) (st : NameSt) (name : Bytes) : NameSt × Bytes :=
  if cfg.keepAll then (st, name)
  else if reserved cfg name then (st, name)
  else match st.map.find? (·.1 == name) with
    | some e => (st, e.2)
    | none =>
      match alloc cfg (allocFuel cfg) st.next with
      | some (nm, nxt) => ({ map := st.map ++ [(name, nm)], next := nxt }, nm)
      | none => (st, name)   -- unreachable (see C02.alloc_total)

/-- `read_names_file` on the file's bytes: strip each line, skip empty lines and `#` comments -/
def readNamesFile (content : Bytes) : List Bytes :=
  ((splitLines content).map strip).filter fun l => !l.isEmpty && l.head? != some 35

/-! ### LuaMinifyTokenWriter -/

structure MinSt where
  names : NameSt := {}
  lastNKN : Bool := false     -- `_last_was_name_keyword_number`
  lastNL : Bool := true       -- `_last_was_newline`
  hdr : Nat := 0              -- `seen_header_comments`
  seenCode : Bool := false    -- `seen_non_comment_token`

/-- chunks yielded for one token by `_to_chunks` -/
def minStep (cfg : NameCfg) (st : MinSt) (t : Tok) : MinSt × List Bytes :=
  let st := if !st.seenCode && !t.trivia then { st with seenCode := true } else st
  if !st.seenCode && st.hdr < 2 && t.kind == .comment then
    ({ st with hdr := st.hdr + 1 }, [t.code, [10]])
  else if t.kind == .comment || t.kind == .space then (st, [])
  else if t.kind == .newline then
    ({ st with lastNKN := false, lastNL := true }, if st.lastNL then [] else [[10]])
  else if t.kind == .name then
    let (ns, nm) := getShortName cfg st.names t.data
    ({ st with names := ns, lastNKN := true, lastNL := false }, (if st.lastNKN then [[32]] else []) ++ [nm])
  else if t.kind == .label then
    let (ns, nm) := getShortName cfg st.names ((t.data.drop 2).take (t.data.length - 4))
    ({ st with names := ns, lastNKN := false, lastNL := false }, [[58, 58] ++ nm ++ [58, 58]])
  else if t.kind == .keyword || t.kind == .number then
    ({ st with lastNKN := true, lastNL := false }, (if st.lastNKN then [[32]] else []) ++ [t.code])
  else
    -- `token.code in b'])}'` is a *substring* test
    ({ st with lastNKN := Compress_isInfix t.code [93, 41, 125], lastNL := false }, [t.code])
where
  Compress_isInfix (pat s : Bytes) : Bool :=
    match s with
    | [] => pat.isEmpty
    | _ :: tl => pat.isPrefixOf s || Compress_isInfix pat tl

def minChunks (cfg : NameCfg) : MinSt → List Tok → List Bytes
  | _, [] => []
  | st, t :: rest => let (st', cs) := minStep cfg st t; cs ++ minChunks cfg st' rest

/-- `_needs_space(prev_code, code)` -/
def needsSpace (prev cur : Bytes) : Bool :=
  match prev.getLast?, cur.head? with
  | some last, some first =>
    let prevIsNumber := (prev.head?.map isDigit).getD false ||
      (prev.head? == some 46 && ((prev.drop 1).head?.map isDigit).getD false)
    (last == 45 && first == 45) || (last == 91 && first == 91) || (last == 46 && first == 46) ||
      (prevIsNumber && first == 46)
  | _, _ => false

/-- `to_lines`: insert a space between chunks that would fuse -/
def joinChunks : Bytes → List Bytes → Bytes
  | _, [] => []
  | prev, c :: rest => (if needsSpace prev c then [32] else []) ++ c ++ joinChunks c rest

/-- the whole output of `LuaMinifyTokenWriter` -/
def minify (cfg : NameCfg) (toks : List Tok) : Bytes := joinChunks [] (minChunks cfg {} toks)

/-! ### stats -/

/-- `Lua.get_token_count` (lua.py:345-365) -/
def tokenCount (toks : List Tok) : Nat :=
  toks.foldl (fun c t =>
    if (t.kind == .symbol && (t.data == [58] || t.data == [46] || t.data == [41] || t.data == [93] || t.data == [125]))
       || (t.kind == .keyword && (t.data == "local".toUTF8.toList || t.data == "end".toUTF8.toList)) then c
    else if t.kind == .number && t.data.contains 101 then c + 2
    else if !t.trivia then c + 1 else c) 0

end Pico.Wr
