import PicoVerif.Model.Sections
import PicoVerif.Model.P8scii
/-! Model of the `.p8` text format writer/reader: `P8Formatter.to_file` (p8.py:281-343),
`_get_raw_data_from_p8_file` (p8.py:69-101) and `P8Formatter.from_file` (p8.py:211-279).

The file is a list of Unicode code points (UTF-8 itself is trusted; a UTF-8 multi-byte sequence never
contains 0x0A, so `readline()` on the bytes is `splitLinesU` on the code points). The Lua layer is
opaque here: `code` is the concatenation of the lines the Lua writer yields / the lines handed to
`Lua.from_lines` (C06/C07 are about that layer). -/
namespace Pico.P8File
open Pico.Sections Pico.P8scii

structure Cart where
  version : Nat
  code : Bytes
  gfx : Bytes
  gff : Bytes
  map : Bytes
  sfx : Bytes
  music : Bytes
  label : Option Bytes
  deriving DecidableEq, Repr

def asciiU (bs : Bytes) : List Nat := bs.map (·.toNat)
def str (s : String) : List Nat := s.toList.map (·.toNat)

def emptyCart (version : Nat) : Cart :=
  { version := version, code := [],
    gfx := List.replicate Gen.emptyGfxLen 0, gff := List.replicate Gen.emptyGffLen 0,
    map := List.replicate Gen.emptyMapLen 0, sfx := Gen.emptySfx, music := Gen.emptyMusic,
    label := none }

/-- the text of the `__lua__` section body (p8.py:312-318): a missing final newline is supplied -/
def luaText (tbl : Table) (code : Bytes) : List Nat :=
  toUnicode tbl code ++ (if code.getLast? = some 10 then [] else [10])

/-- `P8Formatter.to_file`; `none` = a section encoder raised (region of the wrong size) -/
def writeP8 (tbl : Table) (c : Cart) : Option (List Nat) := do
  let sfxL ← sfxToLines c.sfx
  let musL ← musicToLines c.music
  let flat (ls : List Bytes) : List Nat := asciiU ls.flatten
  pure (asciiU Gen.headerTitle ++ str "version " ++ asciiU (natToDec c.version) ++ [10]
    ++ str "__lua__\n" ++ luaText tbl c.code
    ++ str "__gfx__\n" ++ flat (gfxToLines c.gfx)
    ++ (match c.label with
        | some l => str "__label__\n" ++ flat (gfxToLines l)
        | none => [])
    ++ [10]
    ++ str "__gff__\n" ++ flat (hexToLines Gen.hexLineLenGff c.gff)
    ++ str "__map__\n" ++ flat (hexToLines Gen.hexLineLenMap c.map)
    ++ str "__sfx__\n" ++ flat sfxL
    ++ str "__music__\n" ++ flat musL
    ++ [10])

def isWordChar (c : Nat) : Bool :=
  (48 ≤ c && c ≤ 57) || (65 ≤ c && c ≤ 90) || (97 ≤ c && c ≤ 122) || c == 95

/-- `SECTION_DELIM_RE.match(line)` for one `readline()` line: `__(\w+)__\n` -/
def sectionName (line : List Nat) : Option (List Nat) :=
  if line.length ≥ 6 ∧ line.take 2 = [95, 95] ∧ (line.drop (line.length - 3)) = [95, 95, 10] then
    let x := (line.drop 2).take (line.length - 5)
    if x.all isWordChar then some x else none
  else none

/-- `HEADER_VERSION_RE.match(line)`: `version (\d+)\n` -/
def versionOf (line : List Nat) : Option Nat :=
  if line.take 8 = str "version " then
    let rest := line.drop 8
    let ds := rest.takeWhile (fun c => 48 ≤ c && c ≤ 57)
    if ds ≠ [] ∧ (rest.drop ds.length).head? = some 10 then
      some (ds.foldl (fun acc c => acc * 10 + (c - 48)) 0)
    else none
  else none

abbrev Secs := List (List Nat × List (List Nat))   -- insertion-ordered dict: name -> decoded P8SCII lines

def secsReset (secs : Secs) (name : List Nat) : Secs :=
  if secs.any (·.1 == name) then secs.map (fun e => if e.1 == name then (e.1, []) else e)
  else secs ++ [(name, [])]

def secsAppend (secs : Secs) (name : List Nat) (line : List Nat) : Secs :=
  secs.map (fun e => if e.1 == name then (e.1, e.2 ++ [line]) else e)

/-- the `while True: readline` loop of `_get_raw_data_from_p8_file` -/
def scanLines (tbl : Table) : List (List Nat) → Option (List Nat) → Secs → Except Err Secs
  | [], _, secs => .ok secs
  | line :: rest, cur, secs =>
    match sectionName line with
    | some name => scanLines tbl rest (some name) (secsReset secs name)
    | none =>
      match cur with
      | none => scanLines tbl rest cur secs
      | some name =>
        match toP8 tbl line with
        | none => .error .key
        | some p => scanLines tbl rest cur (secsAppend secs name p)

def natsToBytes (l : List Nat) : Bytes := l.map (·.toUInt8)

/-- `P8Formatter.from_file` after the raw scan: apply the sections in dict order -/
def applySecs : Secs → Cart → Except Err Cart
  | [], c => .ok c
  | (name, ls) :: rest, c =>
    let lines := ls.map natsToBytes
    if name = str "lua" then applySecs rest { c with code := lines.flatten }
    else if name = str "gfx" then do
      let d ← gfxFromLines lines; applySecs rest { c with gfx := d }
    else if name = str "gff" then do
      let d ← hexFromLines lines; applySecs rest { c with gff := d }
    else if name = str "map" then do
      let d ← hexFromLines lines; applySecs rest { c with map := d }
    else if name = str "sfx" then do
      let d ← sfxFromLines lines; applySecs rest { c with sfx := d }
    else if name = str "music" then do
      let d ← musicFromLines lines; applySecs rest { c with music := d }
    else if name = str "label" then do
      let d ← gfxFromLines lines; applySecs rest { c with label := some d }
    else .error .section

/-- reading a `.p8` file (without `#include` processing and without the Lua layer) -/
def readP8 (tbl : Table) (file : List Nat) : Except Err Cart :=
  match splitLinesU file with
  | l0 :: l1 :: rest =>
    if l0 ≠ asciiU Gen.headerTitle then .error .header else
    match versionOf l1 with
    | none => .error .header
    | some v => do
      let secs ← scanLines tbl rest none []
      applySecs secs (emptyCart v)
  | _ => .error .header

/-- what a write/read cycle keeps: final newline supplied, bit 7 of every 4th music byte cleared -/
def normCart (c : Cart) : Cart :=
  { c with code := c.code ++ (if c.code.getLast? = some 10 then [] else [10]),
           music := musicNorm c.music }

end Pico.P8File
