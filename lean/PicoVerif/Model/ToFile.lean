import PicoVerif.Base.Py
/-! Model of `pico8.game.file.to_file` (file.py:72-93) as a trace machine over an abstract store:
the destination path holds `dest : Option Bytes`; the encoder writes into an anonymous temporary stream.
The encoder is abstract: the list of chunks it writes and whether it then returns or raises. -/
namespace Pico.ToFile

/-- what the formatter's `to_file` does with the stream it is handed -/
inductive Enc
  | returns (writes : List Bytes)          -- all writes done, returns normally
  | raises (writes : List Bytes)           -- raises after these writes (possibly none)

inductive Op
  | destExists                -- os.path.exists(filename) (label lookup)
  | destRead                  -- the formatter reads the existing destination as label source
  | tempWrite (b : Bytes)
  | tempSeek0
  | destOpenTruncate          -- open(filename, 'wb+'): creates or truncates
  | destWrite (b : Bytes)
  deriving DecidableEq, Repr

structure Result where
  dest : Option Bytes
  ok : Bool
  trace : List Op

/-- `to_file(game, filename)`; `readsLabel` = the formatter opens the existing destination for its label -/
def toFile (enc : Enc) (readsLabel : Bool) (dest : Option Bytes) : Result :=
  let pre := [Op.destExists] ++ (if readsLabel ∧ dest.isSome then [Op.destRead] else [])
  match enc with
  | .raises ws => { dest := dest, ok := false, trace := pre ++ ws.map Op.tempWrite }
  | .returns ws =>
    let content := ws.flatten
    { dest := some content, ok := true,
      trace := pre ++ ws.map Op.tempWrite ++ [Op.tempSeek0, Op.destOpenTruncate, Op.destWrite content] }

def Op.touchesDest : Op → Bool
  | .destOpenTruncate => true
  | .destWrite _ => true
  | _ => false

end Pico.ToFile
