import PicoVerif.Base.Py
/-! Model of `pico8.game.file.to_file` (file.py:72-93) as a trace machine over an abstract store:
the destination path holds `dest : Option Bytes`; the encoder writes into an anonymous temporary stream.
The encoder is abstract: the list of chunks it writes and whether it then returns or raises. -/
namespace Pico.ToFile

/-- what the formatter's `to_file` does with the stream it is handed -/
inductive Enc
  | returns (writes : List Bytes)          -- all writes done, returns normally
  | raises (writes : List Bytes)           -- raises after these writes (possibly none)

inductive Op
  | destExists                -- os.path.exists(filename) (label lookup)
  | destRead                  -- the formatter reads the existing destination as label source
  | tempWrite (b : Bytes)
  | tempSeek0
  | destOpenTruncate          -- open(filename, 'wb+'): creates or truncates
  | destWrite (b : Bytes)
  deriving DecidableEq, Repr

structure Result where
  dest : Option Bytes
  ok : Bool
  trace : List Op

/-- `to_file(game, filename)`; `readsLabel` = the formatter opens the existing destination for its label -/
def toFile (enc : Enc) (readsLabel : Bool) (dest : Option Bytes) : Result :=
  let pre := [Op.destExists] ++ (if readsLabel ∧ dest.isSome then [Op.destRead] else [])
  match enc with
  | .raises ws => { dest := dest, ok := false, trace := pre ++ ws.map Op.tempWrite }
  | .returns ws =>
    let content := ws.flatten
    { dest := some content, ok := true,
      trace := pre ++ ws.map Op.tempWrite ++ [Op.tempSeek0, Op.destOpenTruncate, Op.destWrite content] }

def Op.touchesDest : Op → Bool
  | .destOpenTruncate => true
  | .destWrite _ => true
  | _ => false

end Pico.ToFile

/-! ### `tool.process_game_files`: several carts on one command line (luamin / luafmt / writep8) -/
namespace Pico.ToFile

/-- the file store the command works on: path ↦ content -/
abbrev Store := List (String × Bytes)

def Store.get (s : Store) (p : String) : Option Bytes := (s.find? (·.1 == p)).map (·.2)
def Store.set (s : Store) (p : String) (c : Bytes) : Store := (p, c) :: s.filter (·.1 != p)

/-- one cart named on the command line -/
structure CartArg where
  name : String                -- as given
  loads : Bool                 -- `_games_for_filenames` could load it (otherwise an error is reported and the cart is skipped)
  enc : Enc                    -- what writing its processed form does (returns the new file's chunks / raises)

/-- the name ends with `.p8.png` -/
def CartArg.png (c : CartArg) : Bool := c.name.endsWith ".p8.png"

/-- the name is a cart name at all (`.p8` or `.p8.png`); any other argument is reported and passed over -/
def CartArg.cart (c : CartArg) : Bool := c.png || c.name.endsWith ".p8"

def stem (c : CartArg) : String := (c.name.dropEnd (if c.png then 7 else 3)).toString

/-- the output name: the input itself with `--overwrite` for a .p8 cart, else `<stem>_fmt.<ext>` -/
def outName (overwrite : Bool) (c : CartArg) : String :=
  if overwrite && !c.png then c.name else stem c ++ (if c.png then "_fmt.p8.png" else "_fmt.p8")

inductive Outcome | done (hasErrors : Bool) | raised
  deriving DecidableEq, Repr

/-- the loop: an argument that is not a cart name is passed over (a message, no flag, nothing written); an unloadable cart is skipped (flagged); a cart whose write raises ends the command there (the exception
propagates), leaving the later carts unprocessed -/
def processGameFiles (overwrite : Bool) : List CartArg → Store → Bool → Store × Outcome
  | [], s, err => (s, .done err)
  | c :: rest, s, err =>
    if !c.cart then processGameFiles overwrite rest s err else
    if !c.loads then processGameFiles overwrite rest s true else
    let out := outName overwrite c
    let r := toFile c.enc c.png (s.get out)
    if r.ok then processGameFiles overwrite rest (match r.dest with | some d => s.set out d | none => s) err
    else (s, .raised)

end Pico.ToFile
