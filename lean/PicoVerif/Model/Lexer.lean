import PicoVerif.Base.Py
import PicoVerif.Gen.Lexer
/-! Model of pico8/lua/lexer.py: tokens, `TokString.code`, the one-line matchers (driven by the regenerated
ordered table `Gen.matcherShape`), `Lexer._process_token`, `_process_line`, `process_lines`. -/
namespace Pico.Lex

inductive Kind | space | newline | comment | string | number | name | label | keyword | symbol
  deriving DecidableEq, Repr, Inhabited

def Kind.str : Kind → String
  | .space => "space" | .newline => "newline" | .comment => "comment" | .string => "string"
  | .number => "number" | .name => "name" | .label => "label" | .keyword => "keyword" | .symbol => "symbol"

structure Tok where
  kind : Kind
  data : Bytes
  /-- quoted string: the quote byte; `none` for long-bracket strings and non-strings -/
  quote : Option UInt8 := none
  /-- long-bracket string: the `=` run of its delimiter -/
  mlq : Option Bytes := none
  line : Nat := 0
  col : Nat := 0
  deriving DecidableEq, Repr, Inhabited

def Tok.trivia (t : Tok) : Bool := t.kind == .space || t.kind == .newline || t.kind == .comment

/-- `Token.__eq__`: same class, same data (keywords case-insensitively; the lexer only makes lower-case ones) -/
def Tok.same (a b : Tok) : Bool := a.kind == b.kind && a.data == b.data

def lookup (tbl : List (Bytes × Bytes)) (k : Bytes) : Option Bytes := (tbl.find? (·.1 == k)).map (·.2)

/-- `TokString.code` for a quoted string (lexer.py:160-176): re-escape each byte -/
def escapeBody (q : UInt8) : Bytes → Bytes
  | [] => []
  | c :: rest =>
    (match lookup Gen.stringReverseEscapes [c] with
     | some esc =>
       let esc' := if esc.all isDigit && !esc.isEmpty && (match rest with | d :: _ => isDigit d | [] => false)
                   then List.replicate (3 - esc.length) 48 ++ esc else esc
       92 :: esc'
     | none => if c = q then [92, c] else [c]) ++ escapeBody q rest

/-- `Token.code` / `TokString.code` -/
def Tok.code (t : Tok) : Bytes :=
  if t.kind = .string then
    match t.mlq with
    | some d => [91] ++ d ++ [91] ++ t.data ++ [93] ++ d ++ [93]
    | none => let q := t.quote.getD 34; q :: escapeBody q t.data ++ [q]
  else t.data

/-! ### character classes and the hand-written matchers of the structured patterns -/

def isIdentStart (b : UInt8) : Bool := (97 ≤ b && b ≤ 122) || (65 ≤ b && b ≤ 90) || b == 95 || b ≥ 128
def isIdentChar (b : UInt8) : Bool := isIdentStart b || isDigit b
def isHexDigit (b : UInt8) : Bool := isDigit b || (97 ≤ b && b ≤ 102) || (65 ≤ b && b ≤ 70)
def isBinDigit (b : UInt8) : Bool := b == 48 || b == 49

def spanLen (p : UInt8 → Bool) (s : Bytes) : Nat := (s.takeWhile p).length

/-- `--.*` / `//.*`: `.` is any byte but LF -/
def mLineComment (c : UInt8) (s : Bytes) : Option Nat :=
  match s with
  | a :: b :: rest => if a = c ∧ b = c then some (2 + spanLen (· != 10) rest) else none
  | _ => none

/-- `[ \t]+` -/
def mSpace (s : Bytes) : Option Nat :=
  let n := spanLen (fun b => b == 32 || b == 9) s
  if n = 0 then none else some n

/-- `<digits>+(\.<digits>+)?` after a two-character prefix `0x`/`0b` (either case) -/
def mRadix (p1 p2 : UInt8) (dig : UInt8 → Bool) (s : Bytes) : Option Nat :=
  match s with
  | z :: x :: rest =>
    if z = 48 ∧ (x = p1 ∨ x = p2) then
      let n := spanLen dig rest
      if n = 0 then none else
      let rest2 := rest.drop n
      match rest2 with
      | d :: rest3 =>
        let m := spanLen dig rest3
        if d = 46 ∧ m > 0 then some (2 + n + 1 + m) else some (2 + n)
      | [] => some (2 + n)
    else none
  | _ => none

/-- `0[xX]\.<digits>+` -/
def mRadixFrac (p1 p2 : UInt8) (dig : UInt8 → Bool) (s : Bytes) : Option Nat :=
  match s with
  | z :: x :: d :: rest =>
    if z = 48 ∧ (x = p1 ∨ x = p2) ∧ d = 46 then
      let m := spanLen dig rest
      if m = 0 then none else some (3 + m)
    else none
  | _ => none

/-- `([eE]-?[0-9]+)?` : length of the optional exponent at the start of `s` -/
def expLen (s : Bytes) : Nat :=
  match s with
  | e :: rest =>
    if e = 101 ∨ e = 69 then
      let (sign, rest') := match rest with
        | m :: r => if m = 45 then (1, r) else (0, rest)
        | [] => (0, rest)
      let n := spanLen isDigit rest'
      if n = 0 then 0 else 1 + sign + n
    else 0
  | [] => 0

/-- `[0-9]+(\.(?!\.)[0-9]*)?([eE]-?[0-9]+)?` -/
def mDecimal (s : Bytes) : Option Nat :=
  let n := spanLen isDigit s
  if n = 0 then none else
  let rest := s.drop n
  let fracLen := match rest with
    | d :: r => if d = 46 ∧ r.head? ≠ some 46 then 1 + spanLen isDigit r else 0
    | [] => 0
  some (n + fracLen + expLen (rest.drop fracLen))

/-- `\.[0-9]+([eE]-?[0-9]+)?` -/
def mDotDecimal (s : Bytes) : Option Nat :=
  match s with
  | d :: rest =>
    if d = 46 then
      let n := spanLen isDigit rest
      if n = 0 then none else some (1 + n + expLen (rest.drop n))
    else none
  | [] => none

/-- `::<identstart><identchar>*::` -/
def mLabel (s : Bytes) : Option Nat :=
  match s with
  | a :: b :: c :: rest =>
    if a = 58 ∧ b = 58 ∧ isIdentStart c then
      let n := spanLen isIdentChar rest
      match rest.drop n with
      | x :: y :: _ => if x = 58 ∧ y = 58 then some (3 + n + 2) else none
      | _ => none
    else none
  | _ => none

/-- `<identstart><identchar>*` -/
def mName (s : Bytes) : Option Nat :=
  match s with
  | c :: rest => if isIdentStart c then some (1 + spanLen isIdentChar rest) else none
  | [] => none

def mLit (lit s : Bytes) : Option Nat := if lit.isPrefixOf s ∧ !lit.isEmpty then some lit.length else none

/-- a keyword followed by a non-identifier byte (or the end): `kw(?![a-zA-Z0-9_\x80-\xff])` -/
def mKeywordLA (kws : List Bytes) (s : Bytes) : Option Nat :=
  (kws.find? fun kw => kw.isPrefixOf s && !((s.drop kw.length).head?.map isIdentChar).getD false).map (·.length)

/-- `\bkw\b` on a string whose first byte starts the match: ASCII word boundary after the keyword -/
def isAsciiWord (b : UInt8) : Bool := (97 ≤ b && b ≤ 122) || (65 ≤ b && b ≤ 90) || b == 95 || isDigit b
def mKeywordB (kws : List Bytes) (s : Bytes) : Option Nat :=
  (kws.find? fun kw => kw.isPrefixOf s && !((s.drop kw.length).head?.map isAsciiWord).getD false).map (·.length)

/-- the matcher for a regenerated pattern *source*; `none` = unknown source (makes `shape_known` fail) -/
def reMatcher (src : String) : Option (Bytes → Option Nat) :=
  if src = "--.*" then some (mLineComment 45)
  else if src = "//.*" then some (mLineComment 47)
  else if src = "[ \\t]+" then some mSpace
  else if src = "0[xX][0-9a-fA-F]+(\\.[0-9a-fA-F]+)?" then some (mRadix 120 88 isHexDigit)
  else if src = "0[xX]\\.[0-9a-fA-F]+" then some (mRadixFrac 120 88 isHexDigit)
  else if src = "0[bB][01]+(\\.[01]+)?" then some (mRadix 98 66 isBinDigit)
  else if src = "0[bB]\\.[01]+" then some (mRadixFrac 98 66 isBinDigit)
  else if src = "[0-9]+(\\.(?!\\.)[0-9]*)?([eE]-?[0-9]+)?" then some mDecimal
  else if src = "\\.[0-9]+([eE]-?[0-9]+)?" then some mDotDecimal
  else if src = "::[a-zA-Z_\\x80-\\xff][a-zA-Z0-9_\\x80-\\xff]*::" then some mLabel
  else if src = "[a-zA-Z_\\x80-\\xff][a-zA-Z0-9_\\x80-\\xff]*" then some mName
  else if src = "\\?" then some (mLit [63])
  else none

def kindOfClass (cls : String) : Option Kind :=
  if cls = "TokComment" then some .comment else if cls = "TokSpace" then some .space
  else if cls = "TokNewline" then some .newline else if cls = "TokNumber" then some .number
  else if cls = "TokLabel" then some .label else if cls = "TokKeyword" then some .keyword
  else if cls = "TokSymbol" then some .symbol else if cls = "TokName" then some .name
  else if cls = "TokString" then some .string else none

abbrev Entry := String × String × Bytes × String

def entryMatch (e : Entry) (s : Bytes) : Option Nat :=
  if e.1 = "lit" then mLit e.2.2.1 s
  else if e.1 = "kwla" then mKeywordLA Gen.matcherKeywords s
  else if e.1 = "kw" then mKeywordB Gen.matcherKeywords s
  else match reMatcher e.2.1 with
    | some m => m s
    | none => none

def entryKnown (e : Entry) : Bool :=
  (e.1 = "lit" || e.1 = "kwla" || e.1 = "kw" || (e.1 = "re" && (reMatcher e.2.1).isSome)) && (kindOfClass e.2.2.2).isSome

/-- first matching one-line pattern (lexer.py:455-464): (kind, length) -/
def matchOne (shape : List Entry) (s : Bytes) : Option (Kind × Nat) :=
  match shape with
  | [] => none
  | e :: rest =>
    match entryMatch e s with
    | some n => some ((kindOfClass e.2.2.2).getD .symbol, n)
    | none => matchOne rest s

/-! ### lexer state machine -/

inductive Mode
  | normal
  | inStr (delim : UInt8) (line col : Nat) (acc : Bytes)
  | inComment (line col : Nat) (acc : Bytes)
  | inLong (delim : Bytes) (line col : Nat) (acc : Bytes)
  deriving DecidableEq, Repr

structure LexSt where
  toks : Array Tok := #[]
  line : Nat := 0
  col : Nat := 0
  mode : Mode := .normal
  deriving Repr

/-- position update `for c in s[:i]` (lexer.py:466-472) -/
def advance (st : LexSt) (consumed : Bytes) : LexSt :=
  consumed.foldl (fun st c => if c = 10 then { st with line := st.line + 1, col := 0 } else { st with col := st.col + 1 }) st

/-- one step inside a quoted string: returns (bytes to append, consumed) for the escape at `s = '\\' :: rest`;
`none` = ValueError (decimal escape above 255) -/
def escapeAt (rest : Bytes) : Option (Bytes × Nat) :=
  let nd := min 3 (spanLen isDigit rest)
  if nd > 0 then
    let v := decToNat (rest.take nd)
    if v > 255 then none else some ([v.toUInt8], 1 + nd)
  else
    match rest with
    | x :: h1 :: h2 :: _ =>
      if x = 120 ∧ isHexDigit h1 ∧ isHexDigit h2 then
        some ([(((unhexDigit h1).getD 0) * 16 + (unhexDigit h2).getD 0).toUInt8], 4)
      else match lookup Gen.stringEscapes [x] with
        | some v => some (v, 2)
        | none => some ([92], 1)
    | x :: _ =>
      (match lookup Gen.stringEscapes [x] with
        | some v => some (v, 2)
        | none => some ([92], 1))
    | [] => some ([92], 1)

/-- the `while i < len(s)` loop of the in-string branch (lexer.py:360-392): (closed?, acc, consumed) -/
def strLoop (delim : UInt8) : Nat → Bytes → Bytes → Nat → Except Err (Bool × Bytes × Nat)
  | 0, _, acc, i => .ok (false, acc, i)
  | fuel + 1, s, acc, i =>
    match s with
    | [] => .ok (false, acc, i)
    | c :: rest =>
      if c = delim then .ok (true, acc, i + 1)
      else if c = 92 then
        match escapeAt rest with
        | none => .error .value
        | some (bs, n) => strLoop delim fuel (s.drop n) (acc ++ bs) (i + n)
      else strLoop delim fuel rest (acc ++ [c]) (i + 1)

/-- index of the first occurrence of `pat` in `s` -/
def findSub (pat : Bytes) : Bytes → Nat → Option Nat
  | [], i => if pat.isEmpty then some i else none
  | c :: rest, i => if pat.isPrefixOf (c :: rest) then some i else findSub pat rest (i + 1)

/-- `Lexer._process_token(s)` (lexer.py:344-473): new state and number of bytes consumed -/
def processToken (shape : List Entry) (st : LexSt) (s : Bytes) : Except Err (LexSt × Nat) :=
  let fin (st' : LexSt) (i : Nat) : Except Err (LexSt × Nat) := .ok (advance st' (s.take i), i)
  match st.mode with
  | .inStr delim l c acc =>
    match strLoop delim (s.length + 1) s acc 0 with
    | .error e => .error e
    | .ok (closed, acc', i) =>
      if closed then
        fin { st with toks := st.toks.push { kind := .string, data := acc', quote := some delim, line := l, col := c },
                      mode := .normal } i
      else fin { st with mode := .inStr delim l c acc' } i
  | .inComment l c acc =>
    match findSub [93, 93] s 0 with
    | some k =>
      fin { st with toks := st.toks.push { kind := .comment, data := acc ++ s.take (k + 2), line := l, col := c },
                    mode := .normal } (k + 2)
    | none => fin { st with mode := .inComment l c (acc ++ s) } s.length
  | .inLong delim l c acc =>
    match findSub ([93] ++ delim ++ [93]) s 0 with
    | some k =>
      fin { st with toks := st.toks.push { kind := .string, data := acc ++ s.take k, mlq := some delim, line := l, col := c },
                    mode := .normal } (k + delim.length + 2)
    | none => fin { st with mode := .inLong delim l c (acc ++ s) } s.length
  | .normal =>
    if [45, 45, 91, 91].isPrefixOf s then
      fin { st with mode := .inComment st.line st.col [45, 45, 91, 91] } 4
    else
      let eqs := match s with | b :: r => if b = 91 then some (spanLen (· == 61) r) else none | [] => none
      match eqs with
      | some n =>
        if (s.drop (1 + n)).head? = some 91 then
          fin { st with mode := .inLong (List.replicate n 61) st.line st.col [] } (n + 2)
        else normalMatch st s fin
      | none => normalMatch st s fin
where
  normalMatch (st : LexSt) (s : Bytes) (fin : LexSt → Nat → Except Err (LexSt × Nat)) : Except Err (LexSt × Nat) :=
    match s with
    | q :: _ =>
      if q = 39 ∨ q = 34 then fin { st with mode := .inStr q st.line st.col [] } 1
      else
        match matchOne shape s with
        | some (k, n) => fin { st with toks := st.toks.push { kind := k, data := s.take n, line := st.line, col := st.col } } n
        | none => .ok (st, 0)
    | [] => .ok (st, 0)

/-- `Lexer._process_line(line)`: `.error .lex` when text remains that no pattern accepts -/
def processLine (shape : List Entry) : Nat → LexSt → Bytes → Except Err LexSt
  | 0, _, _ => .error .fuel
  | fuel + 1, st, s =>
    match processToken shape st s with
    | .error e => .error e
    | .ok (st', i) =>
      if i = 0 then (if s.isEmpty then .ok st' else .error .lex)
      else processLine shape fuel st' (s.drop i)

/-- `Lexer.process_lines(lines)` from a fresh lexer -/
def processLinesFrom (shape : List Entry) (st : LexSt) : List Bytes → Except Err LexSt
  | [] => .ok st
  | l :: rest =>
    match processLine shape (l.length + 2) st l with
    | .error e => .error e
    | .ok st' => processLinesFrom shape st' rest

def processLines (shape : List Entry) (lines : List Bytes) : Except Err (List Tok) :=
  match processLinesFrom shape {} lines with
  | .error e => .error e
  | .ok st =>
    match st.mode with
    | .normal => .ok st.toks.toList
    | _ => .error .lex

/-- the lexer with picotool's regenerated matcher table -/
def lex (lines : List Bytes) : Except Err (List Tok) := processLines Gen.matcherShape lines

end Pico.Lex
