import PicoVerif.Model.Include
import PicoVerif.Lemmas.C12
/-! C12 — require() and #include never read files outside the permitted directories.
"Located under" is lexical (normalised paths); symbolic links and the real file system are outside the model. -/
namespace Pico.C12
open Pico.Inc Pico.Path

def accessPath : Access → P
  | .isfile p => p
  | .open_ p => p

/-- **C12.within_is_componentwise**: the containment test accepts a path only if the root's components are a
prefix of the path's components — being *under* the root, not merely sharing a string prefix with it. -/
theorem within_is_componentwise (path root : P) (h : isWithin path root = true) : comps root <+: comps path := by
  exact within_comps path root h

/-- a sibling directory whose name merely starts with the root's name is outside -/
example : isWithin "/carts/foobar/x.lua".toList "/carts/foo".toList = false := by decide
example : isWithin "/carts/foo.lua".toList "/carts/foo".toList = false := by decide
example : isWithin "/carts/foo/lib/x.lua".toList "/carts/foo".toList = true := by decide

/-- **C12.include_rejects**: an include whose normalised target is not under the root is rejected with an error
before any file-system access. -/
theorem include_rejects (fs : FS) (root dir : P) (line : Bytes) (m : IncMatch) (hm : matchInclude line = some m)
    (hout : isWithin (normpath (join dir (bytesToPath (m.path ++ m.ext)))) root = false) :
    includeLine fs root dir line = (.error .outsideRoot, []) := by
  simp [includeLine, hm, hout]

/-- **C12.include_accesses**: every file-system access made while processing the include lines of a cart — probes
and opens alike, on success or failure — names a path under the include root. -/
theorem include_accesses (fs : FS) (root dir : P) (lines : List Bytes) :
    ∀ a ∈ (processIncludes fs root dir lines).2, isWithin (accessPath a) root = true := by
  intro a ha
  obtain ⟨p, hp, hw⟩ := processIncludes_accesses fs root dir lines a ha
  rcases hp with rfl | rfl <;> exact hw

/-- **C12.dotdot_escapes_normalised**: the target is normalised before the test, so `..` cannot smuggle a path past it -/
example : isWithin (normpath (join "/carts/foo".toList "../foobar/x.lua".toList)) "/carts/foo".toList = false := by decide
example : isWithin (normpath (join "/carts/foo".toList "lib/../x.lua".toList)) "/carts/foo".toList = true := by decide

/-- **C12.require_filter**: a require() string that passes the filter is relative and has no `.` or `..` component. -/
theorem require_filter (p : Bytes) (h : requireRejected p = false) :
    p.head? ≠ some 47 ∧ ∀ part ∈ splitByte 47 p, part ≠ [46] ∧ part ≠ [46, 46] := by
  exact requireRejected_false p h

/-- **C12.clean_suffix_stays_under**: appending components none of which is `..` to a path cannot leave it:
normalising `pre/c1/.../cn` yields the normalisation of `pre` followed by the `ci` that are neither empty nor `.`. -/
theorem clean_suffix_stays_under (absolute : Bool) (pre cs : List P) (h : ∀ c ∈ cs, c ≠ ['.', '.']) :
    normComps absolute (pre ++ cs) [] = normComps absolute pre [] ++ cs.filter (fun c => c ≠ [] ∧ c ≠ ['.']) := by
  rw [normComps_append, normComps_clean absolute cs h, List.reverse_reverse]

/-- **C12.require_probes_are_candidates**: `_locate_require_file` probes exactly the candidate paths built from the
load-path templates, in order, stopping at the first that is a file; it opens nothing else. -/
theorem require_probes_are_candidates (isFile : P → Bool) (p dir luaPath : P) :
    ∃ k, (locateRequire isFile p dir luaPath).2 = ((requireCandidates p dir luaPath).take k).map Access.isfile := by
  obtain ⟨k, hk⟩ := locateRequire_go_probes isFile (requireCandidates p dir luaPath) []
  exact ⟨k, by simpa [locateRequire] using hk⟩

example : requireRejected "..".toUTF8.toList = true := by decide +kernel
example : requireRejected "lib/../../x".toUTF8.toList = true := by decide +kernel
example : requireRejected "lib/util".toUTF8.toList = false := by decide +kernel

end Pico.C12
