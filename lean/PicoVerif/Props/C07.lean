import PicoVerif.Spec.LuaLex
import PicoVerif.Props.C06
import PicoVerif.Lemmas.C07
/-! C07 — the lexer agrees with the PICO-8/Lua lexical grammar on kinds, extents, values, positions. -/
namespace Pico.C07
open Pico.Lex

/-- the literal (symbol / newline) entries of the regenerated ordered table, in table order -/
def litBlock : List Bytes := Gen.matcherShape.filterMap fun e => if e.1 = "lit" then some e.2.2.1 else none

/-- no earlier literal is a proper prefix of a later one (so `>>` cannot shadow `>>>`) -/
def prefixOrdered : List Bytes → Bool
  | [] => true
  | l :: rest => rest.all (fun l' => !(l.isPrefixOf l' && l.length < l'.length)) && prefixOrdered rest

/-- side condition on the concrete table, re-checked against the regenerated order on every run -/
theorem literals_prefix_ordered : prefixOrdered litBlock = true := by decide +kernel

/-- general lemma: in a prefix-ordered literal table the first matching literal is the longest one -/
theorem ordered_first_is_longest (lits : List Bytes) (s l : Bytes) (h : prefixOrdered lits = true)
    (hf : lits.find? (fun x => x.isPrefixOf s) = some l) : ∀ l' ∈ lits, l'.isPrefixOf s = true → l'.length ≤ l.length := by
  induction lits with
  | nil => simp at hf
  | cons a rest ih =>
    simp only [prefixOrdered, Bool.and_eq_true, List.all_eq_true] at h
    intro l' hl' hp
    rw [List.find?_cons] at hf
    split at hf
    · next ha =>
      cases hf
      rcases List.mem_cons.mp hl' with rfl | hm
      · exact Nat.le_refl _
      · have h1 := h.1 l' hm
        refine Nat.le_of_not_lt fun hlt => ?_
        have hpre : l <+: l' :=
          List.prefix_of_prefix_length_le (List.isPrefixOf_iff_prefix.mp ha) (List.isPrefixOf_iff_prefix.mp hp) (by omega)
        simp [List.isPrefixOf_iff_prefix.mpr hpre] at h1
        omega
    · next ha =>
      rcases List.mem_cons.mp hl' with rfl | hm
      · simp [ha] at hp
      · exact ih h.2 hf l' hm hp

/-- a sub-table of a prefix-ordered table is prefix-ordered -/
theorem prefixOrdered_sublist {l₁ l₂ : List Bytes} (hs : l₁.Sublist l₂) (h : prefixOrdered l₂ = true) :
    prefixOrdered l₁ = true := by
  induction hs with
  | slnil => rfl
  | cons a _ ih =>
    simp only [prefixOrdered, Bool.and_eq_true] at h
    exact ih h.2
  | cons_cons a hs ih =>
    simp only [prefixOrdered, Bool.and_eq_true, List.all_eq_true] at h ⊢
    exact ⟨fun l' hl' => h.1 l' (hs.subset hl'), ih h.2⟩

/-- the symbols of the grammar are a sub-table of the literal block, so their first match is their longest -/
theorem symbols_first_longest : C07L.FirstLongest Spec.Lex.symbolSet := fun s l hf =>
  ordered_first_is_longest _ s l
    (prefixOrdered_sublist (by decide +kernel : Spec.Lex.symbolSet.Sublist litBlock) literals_prefix_ordered) hf

/-- `s` starts a long bracket `[=*[` -/
def longOpen (s : Bytes) : Bool :=
  match s with
  | 91 :: r => (r.drop (spanLen (· == 61) r)).head? == some 91
  | _ => false

/-- the source does not start one of the multi-line constructs handled before the pattern table -/
def PlainStart (s : Bytes) : Prop :=
  [45, 45, 91, 91].isPrefixOf s = false ∧ s.head? ≠ some 34 ∧ s.head? ≠ some 39 ∧ longOpen s = false

/-- **C07.first_is_longest**: walking picotool's *ordered* pattern table (first match wins) yields the
*longest* match among the token classes of the grammar, with the same kind and extent. -/
theorem first_is_longest (s : Bytes) (h : PlainStart s) :
    (matchOne Gen.matcherShape s).map (fun kn => (kn.1, kn.2)) =
      (Spec.Lex.lexOne s).map (fun tn => (tn.1.kind, tn.2)) := by
  obtain ⟨h0, hq1, hq2, hlo⟩ := h
  match s with
  | [] => decide +kernel
  | c :: r =>
    refine C07L.core symbols_first_longest c r (by simpa using hq1) (by simpa using hq2) h0 ?_
    rintro rfl
    simpa [longOpen] using hlo

/-- **C07.lex_agrees_spec**: whenever the reference grammar accepts a source, the lexer returns exactly the
grammar's token list: same boundaries (longest match), kinds, decoded string bytes, and line/column. -/
theorem lex_agrees_spec (src : Bytes) (ts : List Tok) (h : Spec.Lex.lexSource src = some ts) :
    lex [src] = .ok ts :=
  C07L.lex_agrees symbols_first_longest (fun q s v n fuel fuel' => C06.decode_agrees q s v n fuel fuel') src ts h

/-- **C07.chunk_independent**: tokenisation does not depend on whether the text arrives as one chunk
(.p8.png path) or split at line ends (.p8 path). -/
theorem chunk_independent (src : Bytes) : lex (splitLines src) = lex [src] :=
  C07L.chunk_indep src

end Pico.C07
