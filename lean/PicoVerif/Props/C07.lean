import PicoVerif.Spec.LuaLex
import PicoVerif.Props.C06
/-! C07 — the lexer agrees with the PICO-8/Lua lexical grammar on kinds, extents, values, positions. -/
namespace Pico.C07
open Pico.Lex

/-- the literal (symbol / newline) entries of the regenerated ordered table, in table order -/
def litBlock : List Bytes := Gen.matcherShape.filterMap fun e => if e.1 = "lit" then some e.2.2.1 else none

/-- no earlier literal is a proper prefix of a later one (so `>>` cannot shadow `>>>`) -/
def prefixOrdered : List Bytes → Bool
  | [] => true
  | l :: rest => rest.all (fun l' => !(l.isPrefixOf l' && l.length < l'.length)) && prefixOrdered rest

/-- side condition on the concrete table, re-checked against the regenerated order on every run -/
theorem literals_prefix_ordered : prefixOrdered litBlock = true := by decide +kernel

/-- general lemma: in a prefix-ordered literal table the first matching literal is the longest one -/
theorem ordered_first_is_longest (lits : List Bytes) (s l : Bytes) (h : prefixOrdered lits = true)
    (hf : lits.find? (fun x => x.isPrefixOf s) = some l) : ∀ l' ∈ lits, l'.isPrefixOf s = true → l'.length ≤ l.length := by
  sorry

/-- `s` starts a long bracket `[=*[` -/
def longOpen (s : Bytes) : Bool :=
  match s with
  | 91 :: r => (r.drop (spanLen (· == 61) r)).head? == some 91
  | _ => false

/-- the source does not start one of the multi-line constructs handled before the pattern table -/
def PlainStart (s : Bytes) : Prop :=
  [45, 45, 91, 91].isPrefixOf s = false ∧ s.head? ≠ some 34 ∧ s.head? ≠ some 39 ∧ longOpen s = false

/-- **C07.first_is_longest**: walking picotool's *ordered* pattern table (first match wins) yields the
*longest* match among the token classes of the grammar, with the same kind and extent. -/
theorem first_is_longest (s : Bytes) (h : PlainStart s) :
    (matchOne Gen.matcherShape s).map (fun kn => (kn.1, kn.2)) =
      (Spec.Lex.lexOne s).map (fun tn => (tn.1.kind, tn.2)) := by
  sorry

/-- **C07.lex_agrees_spec**: whenever the reference grammar accepts a source, the lexer returns exactly the
grammar's token list: same boundaries (longest match), kinds, decoded string bytes, and line/column. -/
theorem lex_agrees_spec (src : Bytes) (ts : List Tok) (h : Spec.Lex.lexSource src = some ts) :
    lex [src] = .ok ts := by
  sorry

/-- **C07.chunk_independent**: tokenisation does not depend on whether the text arrives as one chunk
(.p8.png path) or split at line ends (.p8 path). -/
theorem chunk_independent (src : Bytes) : lex (splitLines src) = lex [src] := by
  sorry

end Pico.C07
