import PicoVerif.Model.P8File
import PicoVerif.Lemmas.C03
/-! C03 — `.p8` write/read round trip preserves the whole cart. -/
namespace Pico.C03
open Pico.Sections Pico.P8File Pico.P8scii

def tbl : Table := Gen.p8scii

/-- the `readline()` lines of the `__lua__` section body, as written -/
def luaLines (code : Bytes) : List (List Nat) := splitLinesU (luaText tbl code)

/-- a cart the `.p8` format can hold: region sizes of the PICO-8 memory map, and no code line that itself
reads as a `__section__` header (outside the format; stated as in the property) -/
structure WFCart (c : Cart) : Prop where
  gfx : c.gfx.length = 0x2000
  gff : c.gff.length = 0x100
  map : c.map.length = 0x1000
  sfx : c.sfx.length = 0x1100
  music : c.music.length = 0x100
  label : ∀ l, c.label = some l → l.length = 0x2000
  nosec : ∀ line ∈ luaLines c.code, sectionName line = none

/-- facts about the regenerated tables the proof rests on -/
theorem tables_ok :
    Gen.hexLineLenGfx = 64 ∧ Gen.hexLineLenGff = 128 ∧ Gen.hexLineLenMap = 128 ∧
    Gen.emptyGfxLen = 0x2000 ∧ Gen.emptyGffLen = 0x100 ∧ Gen.emptyMapLen = 0x1000 ∧
    Gen.emptySfx.length = 0x1100 ∧ Gen.emptyMusic.length = 0x100 ∧
    Gen.headerTitle = "pico-8 cartridge // http://www.pico-8.com\n".toUTF8.toList := by
  decide +kernel

/-- ASCII text (hex digits, space, LF, letters, `_`, `/`, `.`, `:`, `-`) is spelled by itself in the
P8SCII table, and LF is spelled only by byte 10 — so hex sections pass through the Unicode layer unchanged
and line boundaries of the Lua text are exactly the LF bytes of the code. -/
def asciiIdentityB : Bool :=
  (([10] ++ (List.range 95).map (· + 32)).all fun c => P8scii.spelling tbl c == [c]) &&
  ((List.range 256).all fun i => i == 10 || !(P8scii.spelling tbl i).contains 10)
theorem ascii_identity : asciiIdentityB = true := by decide +kernel

/-- **C03.sections_roundtrip**: each section's text decodes to the section's bytes. -/
theorem gfx_rt (m : Bytes) (h : m.length = 0x2000) : gfxFromLines (gfxToLines m) = .ok m := by
  have := gfx_rt_tail m h [] rfl
  simpa using this
theorem hexrows_rt (m : Bytes) : hexFromLines (hexToLines 128 m) = .ok m := by
  exact C03L.hexFromLines_hexToLines 128 (by decide) m
theorem sfx_rt (m : Bytes) (h : m.length = 0x1100) :
    ∃ ls, sfxToLines m = some ls ∧ sfxFromLines ls = .ok m := by
  exact sfx_rt' m h
theorem music_rt (m : Bytes) (h : m.length % 4 = 0) :
    ∃ ls, musicToLines m = some ls ∧ musicFromLines ls = .ok (musicNorm m) := by
  have := music_rt_tail [] rfl m h
  simpa using this

/-- **C03.readline_concat**: splitting at line ends and re-joining is the identity. -/
theorem readline_concat (s : List Nat) : (splitLinesU s).flatten = s := by
  have := splitLinesAux_flatten (· == 10) s []
  simpa [splitLinesU] using this

/-- **C03.roundtrip**: writing any well-formed cart and reading the file back yields the same cart
(final newline supplied, the one unrepresentable music bit cleared). -/
theorem roundtrip (c : Cart) (h : WFCart c) :
    ∃ f, writeP8 tbl c = some f ∧ readP8 tbl f = .ok (normCart c) := by
  exact C03L.roundtrip_core c h.gfx h.sfx (by rw [h.music]) h.label h.nosec

/-- **C03.rewrite_identical**: re-writing the re-read cart produces an identical file. -/
theorem rewrite_identical (c : Cart) (h : WFCart c) : writeP8 tbl (normCart c) = writeP8 tbl c := by
  exact (fun _ => C03L.write_norm c) h

/-- the normalised cart is again well-formed (so the cycle can be repeated) -/
theorem norm_wf (c : Cart) (h : WFCart c) : WFCart (normCart c) := by
  refine ⟨h.gfx, h.gff, h.map, h.sfx, ?_, h.label, ?_⟩
  · show (musicNorm c.music).length = 0x100
    rw [C03L.musicNorm_length]; exact h.music
  · intro line hl
    apply h.nosec
    have : luaLines (normCart c).code = luaLines c.code := congrArg splitLinesU (C03L.luaText_norm c.code)
    rw [← this]; exact hl

end Pico.C03
