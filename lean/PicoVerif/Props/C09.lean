import PicoVerif.Model.AstWriters
namespace Pico.C09
theorem placeholder : True := trivial
end Pico.C09
