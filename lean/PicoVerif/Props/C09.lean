import PicoVerif.Model.AstWriters
import PicoVerif.Props.C08
import PicoVerif.Lemmas.C09
import PicoVerif.Lemmas.C09b
/-! C09 — luafmt changes only whitespace and never drops code.
The theorems say what a tree-driven writer writes when it succeeds (`whole_output`, `output_shape`), that it fails rather
than write a shortened program (`no_silent_loss`), and that it succeeds exactly when picotool's parser consumed the
program to its last significant token (`writer_succeeds_iff`).
PARTIAL: "the parser accepts every program of the dialect" (C08) is correspondence-tested, not proved. -/
namespace Pico.C09
open Pico.Ast Pico.Lex Pico.Peg

def isWs (b : UInt8) : Bool := b == 32 || b == 9 || b == 13 || b == 10
def stripWs (s : Bytes) : Bytes := s.filter (fun b => !isWs b)

/-- **C09.only_whitespace**: the formatter's rendering of a run of space/newline/comment tokens differs from the
run's text only in whitespace characters (comments are kept, up to whitespace inside them). -/
theorem only_whitespace (w d : Nat) (s e : Bool) (r : Bytes) : stripWs (normRun w d s e r) = stripWs r :=
  strip_normRun w d s e r

/-- **C09.line_breaks_kept**: a rendered run contains a line break iff the run did — so a short-if body stays on the
`if` line, what followed it stays on a later line, and an end-of-line comment cannot swallow code. -/
theorem line_breaks_kept (w d : Nat) (s e : Bool) (r : Bytes) :
    (normRun w d s e r).contains 10 = (r.contains 10 || r.contains 13) := by
  rw [Bool.eq_iff_iff]
  simp only [Bool.or_eq_true, List.contains_iff_mem]
  exact lf_normRun w d s e r

/-- the output of a successful `assemble`: rendered runs interleaved with the codes of the walked tokens -/
def Interleaved (fmt : RunFmt) (toks : Array Tok) : List (Nat × Nat) → Nat → Bytes → Prop
  | [], pos, out => out = fmt 0 (pos == 0) true (runText toks pos toks.size)
  | (i, d) :: rest, pos, out =>
    ∃ tail, out = fmt d (pos == 0) false (runText toks pos i) ++ (toks.getD i default).code ++ tail ∧
      Interleaved fmt toks rest (i + 1) tail

/-- **C09.interleaved**: the interleaving part of `output_shape` (holds for every successful `assemble`) -/
theorem assemble_interleaved (fmt : RunFmt) (toks : Array Tok) (walk : List (Nat × Nat)) (pos : Nat) (acc out : Bytes)
    (h : assemble fmt toks walk pos acc = .ok out) :
    ∃ tail, out = acc ++ tail ∧ Interleaved fmt toks walk pos tail := by
  induction walk generalizing pos acc with
  | nil =>
    simp only [assemble] at h
    split at h
    · simp at h
    · injection h with h
      exact ⟨_, h.symm, rfl⟩
  | cons x rest ih =>
    obtain ⟨i, d⟩ := x
    simp only [assemble] at h
    split at h
    · simp at h
    · obtain ⟨tail, ht, hI⟩ := ih _ _ h
      exact ⟨fmt d (pos == 0) false (runText toks pos i) ++ (toks.getD i default).code ++ tail,
        by rw [ht]; simp only [List.append_assoc], tail, rfl, hI⟩

/-- **C09.output_shape**: whatever run renderer is used, a successful write is, token for token, the walked tokens'
codes in stream order, each preceded by the rendering of exactly the trivia tokens in front of it, with nothing else in
between; the walked tokens are consecutive significant tokens and none is left at the end.  (Hypothesis `hsig`: every
walked token is significant — `assemble` does not check that; for the walk of a parser tree it follows from
`walk_is_leaves` and C08.cover. An earlier version of this statement without it was refuted by the prover.) -/
theorem output_shape (fmt : RunFmt) (toks : Array Tok) (walk : List (Nat × Nat)) (pos : Nat) (acc out : Bytes)
    (hsig : ∀ i ∈ walk.map (·.1), (toks.getD i default).trivia = false)
    (h : assemble fmt toks walk pos acc = .ok out) :
    ∃ tail, out = acc ++ tail ∧ Interleaved fmt toks walk pos tail ∧
      (walk.map (·.1)) = sigIdx toks pos ((walk.map (·.1)).getLast?.map (· + 1) |>.getD pos) ∧
      skipTrivia toks ((walk.map (·.1)).getLast?.map (· + 1) |>.getD pos) ≥ toks.size := by
  obtain ⟨tail, h1, h2⟩ := assemble_interleaved fmt toks walk pos acc out h
  obtain ⟨_, h3, h4⟩ := assemble_sig fmt toks walk pos acc out hsig h
  exact ⟨tail, h1, h2, h3, h4⟩

/-- why `output_shape` needs that hypothesis: a walk that names a trivia token is assembled without complaint -/
example : (match assemble (fun _ _ _ r => r) #[{ kind := .space, data := [32] }] [(0, 0)] 0 [] with
    | .ok _ => true | .error _ => false) = true ∧
    [(0, 0)].map (·.1) ≠ sigIdx #[({ kind := .space, data := [32] } : Tok)] 0 1 := by decide +kernel

/-- **C09.no_silent_loss**: if the tokens the writer walks stop before the last significant token of the stream —
picotool could not parse the code to its end — the writer fails instead of writing a shortened program. -/
theorem no_silent_loss (fmt : RunFmt) (toks : Array Tok) (walk : List (Nat × Nat)) (pos : Nat) (acc : Bytes) (j : Nat)
    (hj : j < toks.size) (hsig : (toks.getD j default).trivia = false)
    (hafter : ∀ i ∈ walk.map (·.1), i < j) (hpos : pos ≤ j) :
    ∃ e, assemble fmt toks walk pos acc = .error e :=
  assemble_error_of_later_sig fmt toks walk pos acc j hj hsig hafter hpos

/-- **C09.walk_is_leaves**: the indent walk visits exactly the leaves of the tree, in order (so with C08.cover: exactly
the significant tokens the parser consumed). -/
theorem walk_is_leaves (toks : Array Tok) (t : Tree) (d : Nat) : (walkInd toks t d).map (·.1) = t.leaves :=
  walkInd_fst toks t d

/-- what a successful `astWrite` is made of: the parser's result, the walk of its trees over the significant tokens it
consumed, and the successful `assemble` of that walk -/
theorem astWrite_ok (fmt : RunFmt) (toks : List Tok) (out : Bytes) (h : astWrite fmt toks = .ok out) :
    ∃ ts st' walk,
      Peg.run Gram.gram toks.toArray (50 * toks.toArray.size + 200) (.nt Gram.nChunk) { pos := 0, maxPos := none } = .ok (some (ts, st')) ∧
      walk.map (·.1) = sigIdx toks.toArray 0 st'.pos ∧
      assemble fmt toks.toArray walk 0 [] = .ok out := by
  simp only [astWrite] at h
  split at h
  · simp at h
  · simp at h
  · rename_i ts st' hrun
    refine ⟨ts, st', _, hrun, ?_, h⟩
    rw [flatMap_walkInd_fst]
    exact (Pico.C08.cover Gram.gram _ _ _ _ _ _ hrun).2

/-- **C09.writer_succeeds_iff**: a tree-driven writer (ASTEcho, luafmt at any width — any run renderer) succeeds exactly
when picotool's parser accepts the token list and consumes it to its last significant token; so on every program the
parser accepts completely the formatter does produce output (`no_silent_loss` is the other half: it never produces
output for less). -/
theorem writer_succeeds_iff (fmt : RunFmt) (toks : List Tok) :
    (∃ out, astWrite fmt toks = .ok out) ↔
      ∃ ts st', Peg.run Gram.gram toks.toArray (50 * toks.toArray.size + 200) (.nt Gram.nChunk) { pos := 0, maxPos := none } = .ok (some (ts, st')) ∧
        skipTrivia toks.toArray st'.pos ≥ toks.toArray.size := by
  constructor
  · rintro ⟨out, h⟩
    obtain ⟨ts, st', walk, hrun, hw, ha⟩ := astWrite_ok fmt toks out h
    exact ⟨ts, st', hrun, skip_ge_of_assemble_ok fmt _ walk 0 st'.pos [] out (Nat.zero_le _) hw ha⟩
  · rintro ⟨ts, st', hrun, hend⟩
    simp only [astWrite, hrun]
    apply assemble_ok_of_sigIdx fmt _ _ 0 st'.pos [] (Nat.zero_le _) _ hend
    rw [flatMap_walkInd_fst]
    exact (Pico.C08.cover Gram.gram _ _ _ _ _ _ hrun).2

/-- **C09.whole_output**: the whole text a successful writer returns is the interleaving, in stream order, of every
significant token's code with the rendering of the trivia run in front of it, followed by the rendering of the final
run — for the walk of the parser's tree, without further hypotheses. -/
theorem whole_output (fmt : RunFmt) (toks : List Tok) (out : Bytes) (h : astWrite fmt toks = .ok out) :
    ∃ walk, walk.map (·.1) = sigIdx toks.toArray 0 toks.toArray.size ∧ Interleaved fmt toks.toArray walk 0 out := by
  obtain ⟨ts, st', walk, _, hw, ha⟩ := astWrite_ok fmt toks out h
  have hend := skip_ge_of_assemble_ok fmt _ walk 0 st'.pos [] out (Nat.zero_le _) hw ha
  obtain ⟨tail, ht, hI⟩ := assemble_interleaved fmt _ walk 0 [] out ha
  rw [List.nil_append] at ht
  subst ht
  exact ⟨walk, by rw [hw, sigIdx_to_size _ 0 st'.pos (Nat.zero_le _) hend], hI⟩

def okIs (r : Except Err Bytes) (b : Bytes) : Bool := match r with | .ok x => x == b | .error _ => false
def isParseErr (r : Except Err Bytes) : Bool := match r with | .error .parse => true | _ => false

/-- **C09.degenerate**: the empty program, a comment-only program and a program without a final newline are written. -/
example : okIs (luafmt 2 []) [] = true := by decide +kernel
example : okIs (luafmt 2 [{ kind := .comment, data := [45, 45, 99] }]) [45, 45, 99] = true := by decide +kernel
example : okIs (luafmt 2 [{ kind := .name, data := [97] }, { kind := .symbol, data := [61] }, { kind := .number, data := [49] }])
    [97, 61, 49] = true := by decide +kernel
/-- `a=b=c`: the parser stops after `a=b`; the writer reports a parse error instead of writing `a=b` -/
example : isParseErr (luafmt 2 [{ kind := .name, data := [97] }, { kind := .symbol, data := [61] }, { kind := .name, data := [98] },
    { kind := .symbol, data := [61] }, { kind := .name, data := [99] }]) = true := by decide +kernel

end Pico.C09
