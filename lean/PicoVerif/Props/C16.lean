import PicoVerif.Model.Sections
import PicoVerif.Model.P8Png
import PicoVerif.Spec.Formats
import PicoVerif.Lemmas.C16
/-! C16 — on-disk encodings match the PICO-8 formats (`Spec.Formats`), not merely each other. -/
namespace Pico.C16
open Pico.Sections Pico.P8Png Pico.P8File

/-- the regenerated row widths are the format's -/
theorem widths_ok : Gen.hexLineLenGfx = 64 ∧ Gen.hexLineLenGff = 128 ∧ Gen.hexLineLenMap = 128 := by decide

/-- **C16.gfx_lines**: the gfx/label text is 128 rows of 128 pixel digits in screen order. -/
theorem gfx_lines (m : Bytes) (h : m.length = 0x2000) : gfxToLines m = Spec.gfxRows m :=
  C16L.gfx_lines m h

/-- **C16.gfx_read**: reading that text gives the memory bytes back. -/
theorem gfx_read (m : Bytes) (h : m.length = 0x2000) : gfxFromLines (Spec.gfxRows m) = .ok m :=
  C16L.gfx_read m h

/-- **C16.hex_rows**: gff (2 rows) and map (32 rows) are plain hex rows of 128 bytes. -/
theorem hex_rows (m : Bytes) (rows : Nat) (h : m.length = 128 * rows) :
    hexToLines 128 m = Spec.hexRows 128 rows m :=
  C16L.hex_rows 128 (by omega) m rows h

theorem hex_read (m : Bytes) (rows : Nat) (h : m.length = 128 * rows) :
    hexFromLines (Spec.hexRows 128 rows m) = .ok m :=
  C16L.hex_read 128 (by omega) m rows h

/-- **C16.sfx_note**: the five digits of a note are the documented bit fields of its 16-bit word
(all 65,536 words, by kernel evaluation). -/
theorem sfx_note (lsb msb : UInt8) : noteText lsb msb = Spec.noteText (lsb.toNat + 256 * msb.toNat) :=
  C16L.sfx_note lsb msb

/-- **C16.sfx_lines** -/
theorem sfx_lines (m : Bytes) (h : m.length = 0x1100) : sfxToLines m = some (Spec.sfxRows m) :=
  C16L.sfx_lines m h

/-- **C16.sfx_read**: reading the documented text gives the memory bytes back. -/
theorem sfx_read (m : Bytes) (h : m.length = 0x1100) : sfxFromLines (Spec.sfxRows m) = .ok m :=
  C16L.sfx_read m h

/-- **C16.music_lines** -/
theorem music_lines (m : Bytes) (h : m.length % 4 = 0) : musicToLines m = some (Spec.musicRows m) :=
  C16L.music_lines m h

/-- **C16.music_read**: reading gives the bytes back except the bit the format has no place for. -/
theorem music_read (m : Bytes) (h : m.length % 4 = 0) :
    musicFromLines (Spec.musicRows m) = .ok (musicNorm m) :=
  C16L.music_read m h

/-- **C16.png_channels**: the byte read from a pixel is A2 R2 G2 B2. -/
theorem png_channels (r g b a : UInt8) :
    (decPixel r g b a).toNat = Spec.pixelByte r.toNat g.toNat b.toNat a.toNat :=
  C16L.png_channels r g b a

/-- **C16.png_pixel_rt**: a written pixel reads back as the byte, and keeps the upper six bits of every channel. -/
theorem png_pixel_rt (r g b a v : UInt8) :
    (match encPixel r g b a v with
     | [r', g', b', a'] => decPixel r' g' b' a' = v ∧
         r' >>> (2 : UInt8) = r >>> (2 : UInt8) ∧ g' >>> (2 : UInt8) = g >>> (2 : UInt8) ∧
         b' >>> (2 : UInt8) = b >>> (2 : UInt8) ∧ a' >>> (2 : UInt8) = a >>> (2 : UInt8)
     | _ => False) :=
  C16L.png_pixel_rt r g b a v

/-- the regenerated slices and join order are the documented layout -/
theorem png_layout_tables :
    Gen.pngSlices = [("gfx", 0, 0x2000), ("p8map", 0x2000, 0x3000), ("gfx_props", 0x3000, 0x3100),
      ("song", 0x3100, 0x3200), ("sfx", 0x3200, 0x4300), ("codedata", 0x4300, 0x8000), ("version", 0x8000, 0x8001)] ∧
    Gen.pngJoinOrder = ["game.gfx.to_bytes()", "game.map.to_bytes()", "game.gff.to_bytes()",
      "game.music.to_bytes()", "game.sfx.to_bytes()", "code_bytes", "bytes((game.version,))"] := by decide

/-- **C16.png_layout**: in the hidden data each region sits at its documented address. -/
theorem png_layout (c : Cart) (cb : Bytes)
    (hg : c.gfx.length = 0x2000) (hm : c.map.length = 0x1000) (hf : c.gff.length = 0x100)
    (hmu : c.music.length = 0x100) (hs : c.sfx.length = 0x1100) (hc : cb.length = 0x3d00) (hv : c.version < 256) :
    let p := picodata c cb
    pySlice p 0 0x2000 = c.gfx ∧ pySlice p 0x2000 0x3000 = c.map ∧ pySlice p 0x3000 0x3100 = c.gff ∧
    pySlice p 0x3100 0x3200 = c.music ∧ pySlice p 0x3200 0x4300 = c.sfx ∧ pySlice p 0x4300 0x8000 = cb ∧
    p.length = 0x8001 ∧ (p.getD 0x8000 0).toNat = c.version :=
  C16L.png_layout c cb hg hm hf hmu hs hc hv

end Pico.C16
