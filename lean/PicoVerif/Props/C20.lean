import PicoVerif.Model.Include
import PicoVerif.Lemmas.C20
/-! C20 — #include splices exactly the named file or cart tab at the include line.
File reading and cart loading are parameters of the model (`FS`); the recogniser, tab selection and splice are proved. -/
namespace Pico.C20
open Pico.Inc Pico.Path

/-- the code lines split into editor tabs at the `-->8` lines (which belong to no tab) -/
def splitTabs : List Bytes → List Bytes → List (List Bytes)
  | [], cur => [cur.reverse]
  | l :: rest, cur => if isTabLine l then cur.reverse :: splitTabs rest [] else splitTabs rest (l :: cur)

/-- **C20.plain_lines_unchanged**: a line that is not an include line is yielded unchanged, with no file access. -/
theorem plain_lines_unchanged (fs : FS) (root dir : P) (line : Bytes) (h : matchInclude line = none) :
    includeLine fs root dir line = (.ok [line], []) := by
  simp [includeLine, h]

/-- **C20.splice**: the loaded code is the cart's lines with each include line replaced, in place, by what that
line alone yields; every other line is unchanged and in place. -/
theorem splice (fs : FS) (root dir : P) (lines out : List Bytes)
    (h : (processIncludes fs root dir lines).1 = .ok out) :
    ∃ parts : List (List Bytes), parts.length = lines.length ∧ out = parts.flatten ∧
      ∀ i (hi : i < lines.length), (includeLine fs root dir lines[i]).1 = .ok (parts.getD i []) := by
  exact splice_aux fs root dir lines out h

/-- **C20.tab_none**: without a selector every line of the included cart is kept, the `-->8` lines included. -/
theorem tab_none (ls : List Bytes) (cur : Nat) : linesForTab none ls cur = ls := by
  exact linesForTab_none ls cur

/-- **C20.tab_some**: with selector `n` exactly the lines of the n-th editor tab are kept (none if there is no such tab). -/
theorem tab_some (ls : List Bytes) (n : Nat) : linesForTab (some n) ls 0 = (splitTabs ls []).getD n [] := by
  have hs : ∀ ls acc, splitTabs ls acc = splitTabs' ls acc := by
    intro ls
    induction ls with
    | nil => intro acc; rfl
    | cons l rest ih => intro acc; simp only [splitTabs, splitTabs', ih]
  have := linesForTab_some_aux n ls 0 [] (Nat.zero_le _)
  rw [hs]
  by_cases hn : n = 0 <;> simpa [hn] using this

/-- **C20.lines_stay_lines**: every line spliced in for an include line ends with a line feed, so the line of the
including cart that follows stays a line of its own. -/
theorem lines_stay_lines (fs : FS) (root dir : P) (line : Bytes) (m : IncMatch) (ls : List Bytes)
    (hm : matchInclude line = some m) (h : (includeLine fs root dir line).1 = .ok ls) :
    ∀ l ∈ ls, l.getLast? = some 10 := by
  intro l hl
  simp only [includeLine, hm] at h
  split at h
  · simp at h
  · split at h
    · simp at h
    · split at h
      · simp only [Except.ok.injEq] at h
        subst h
        obtain ⟨x, _, rfl⟩ := List.mem_map.1 hl
        exact withNewline_last x
      · split at h
        · simp at h
        · simp only [Except.ok.injEq] at h
          subst h
          obtain ⟨x, _, rfl⟩ := List.mem_map.1 hl
          exact withNewline_last x

/-- **C20.missing_fails**: an include line whose target is not a file fails the load. -/
theorem missing_fails (fs : FS) (root dir : P) (line : Bytes) (m : IncMatch) (hm : matchInclude line = some m)
    (hf : fs.isFile (normpath (join dir (bytesToPath (m.path ++ m.ext)))) = false) :
    ∃ e, (includeLine fs root dir line).1 = .error e := by
  simp only [includeLine, hm]
  split
  · exact ⟨_, rfl⟩
  · exact ⟨.notFound, by simp [hf]⟩

/-- **C20.error_propagates**: if any line fails, loading fails (nothing is silently skipped). -/
theorem error_propagates (fs : FS) (root dir : P) (pre post : List Bytes) (line : Bytes) (e : Err)
    (hpre : ∃ o, (processIncludes fs root dir pre).1 = .ok o)
    (h : (includeLine fs root dir line).1 = .error e) :
    (processIncludes fs root dir (pre ++ line :: post)).1 = .error e := by
  obtain ⟨o, ho⟩ := hpre
  exact error_propagates_aux fs root dir pre post line e h o ho

/-- **C20.no_nested**: what is spliced for a cart target is the cart's own code lines selected by tab — include lines
inside it are not expanded (they are ordinary lines of `cartCode`). -/
theorem no_nested (fs : FS) (root dir : P) (line : Bytes) (m : IncMatch) (code : List Bytes)
    (hm : matchInclude line = some m) (hext : m.ext ≠ ".lua".toUTF8.toList)
    (hin : isWithin (normpath (join dir (bytesToPath (m.path ++ m.ext)))) root = true)
    (hf : fs.isFile (normpath (join dir (bytesToPath (m.path ++ m.ext)))) = true)
    (hc : fs.cartCode (normpath (join dir (bytesToPath (m.path ++ m.ext)))) = .ok code) :
    (includeLine fs root dir line).1 = .ok ((linesForTab m.tab code 0).map withNewline) := by
  simp only [includeLine, hm, hin, hf, Bool.not_true, Bool.false_eq_true, if_false, if_neg hext, hc]

example : matchInclude "  #include lib/a.p8.png:2 -- x\n".toUTF8.toList =
    some { path := "lib/a".toUTF8.toList, ext := ".p8.png".toUTF8.toList, tab := some 2 } := by decide +kernel
example : matchInclude "#includefoo.lua\n".toUTF8.toList = none := by decide +kernel

end Pico.C20
