import PicoVerif.Model.P8Png
import PicoVerif.Props.C05
import PicoVerif.Lemmas.C04
/-! C04 — `.p8.png` write/read round trip preserves cart and label picture. -/
namespace Pico.C04
open Pico.P8Png Pico.P8File Pico.Compress

/-- a label image: `h` rows of `w` RGBA pixels, enough pixels for the 0x8001 hidden bytes -/
structure WFLabel (lbl : List (List UInt8)) (w : Nat) : Prop where
  rows : ∀ r ∈ lbl, r.length = 4 * w
  room : 0x8001 ≤ w * lbl.length
  wpos : 0 < w

structure WFRegions (c : Cart) : Prop where
  gfx : c.gfx.length = 0x2000
  gff : c.gff.length = 0x100
  map : c.map.length = 0x1000
  sfx : c.sfx.length = 0x1100
  music : c.music.length = 0x100
  version : c.version < 256

/-- the code is stored compressed: only when that is smaller counting the 8-byte header (p8png.py:151) -/
def storedCompressed (code : Bytes) : Prop := (compress code).length + 8 < code.length

/-- the cart's code fits the 0x3d00-byte code area in the form picotool chooses -/
def codeFits (code : Bytes) : Prop :=
  if (compress code).length + 8 < code.length then code.length < 65536 ∧ 8 + (compress code).length ≤ codeAreaLen
  else code.length ≤ codeAreaLen

/-- **C04.raw_fit_never_refused**: code that fits the code area as plain text always fits in the form picotool
chooses — choosing the compressed form never turns a cart that fits into one that is refused (defect 31: with the
choice `compressed < raw` that ignored the header, text of up to 0x3d00 bytes whose stream was 1–7 bytes shorter was
refused). -/
theorem raw_fit_never_refused (code : Bytes) (h : code.length ≤ codeAreaLen) : codeFits code := by
  unfold codeFits
  have : codeAreaLen = 0x3d00 := rfl
  split <;> omega

/-- **C04.codeFits_iff**: "fits in the form picotool chooses" is the same as "fits in *some* form": as plain text, or
compressed behind the 8-byte header (whose length field has 16 bits). The right-hand side does not mention the choice. -/
theorem codeFits_iff (code : Bytes) :
    codeFits code ↔ code.length ≤ codeAreaLen ∨ (code.length < 65536 ∧ 8 + (compress code).length ≤ codeAreaLen) := by
  unfold codeFits
  have : codeAreaLen = 0x3d00 := rfl
  split <;> omega

/-- so such a cart is written (with `refuses`: the writer fails exactly when `codeFits` does not hold). -/
theorem raw_fit_written (lbl : List (List UInt8)) (c : Cart) (h : c.code.length ≤ codeAreaLen) (hv : c.version < 256) :
    ∃ rows, toPixels lbl c = .ok rows := by
  have hf := raw_fit_never_refused c.code h
  unfold codeFits at hf
  have hcb : ∃ cb, getBytesFromCode c.code = .ok cb := by
    by_cases hc : (compress c.code).length + 8 < c.code.length
    · rw [if_pos hc] at hf
      exact ⟨_, getBytes_compressed c.code hc hf.1 hf.2⟩
    · rw [if_neg hc] at hf
      exact ⟨_, getBytes_raw c.code hc hf⟩
  obtain ⟨cb, hcb⟩ := hcb
  exact ⟨encRows lbl (picodata c cb), by
    simp [toPixels, hcb, bind, Except.bind, Nat.not_lt.mpr (Nat.le_of_lt_succ hv), pure, Except.pure]⟩

/-- **C04.refuses**: a cart whose code does not fit is refused with an error, never written. -/
theorem refuses (lbl : List (List UInt8)) (c : Cart) (h : ¬ codeFits c.code) :
    ∃ e, toPixels lbl c = .error e := by
  obtain ⟨e, he⟩ := getBytes_error c.code h
  exact ⟨e, by simp [toPixels, he, bind, Except.bind]⟩

/-- **C04.code_area_compressed**: code stored compressed reads back exactly (CR -> space), for every
version ≥ 1, under C05's guard. -/
theorem code_area_compressed (code : Bytes) (v : Nat) (hv : v ≠ 0) (hc : storedCompressed code)
    (hfit : codeFits code) (hg : C05.Guard code) :
    ∃ area sz, getBytesFromCode code = .ok area ∧ area.length = codeAreaLen ∧
      getCodeFromBytes area v = .ok (code.length, replaceCR code, some sz) := by
  have hc' : (compress code).length + 8 < code.length := hc
  have ⟨h1, h2⟩ : code.length < 65536 ∧ 8 + (compress code).length ≤ codeAreaLen := by
    simpa [codeFits, hc'] using hfit
  obtain ⟨sz, hsz⟩ := getCode_compressed code
    (List.replicate (codeAreaLen - (8 + (compress code).length)) 0) v hv hg
  refine ⟨_, sz, getBytes_compressed code hc' h1 h2, ?_, hsz⟩
  simp only [List.length_append, header_length, List.length_replicate]
  omega

/-- **C04.code_area_raw**: code stored raw reads back with a newline appended (CR -> space), provided
it contains no NUL byte (the raw form is NUL-terminated) and is not exactly the three bytes `:c:` (which, followed
by the zero padding, reads as a compressed-code header). -/
theorem code_area_raw (code : Bytes) (v : Nat) (hc : ¬ storedCompressed code) (hfit : codeFits code)
    (hnul : (0 : UInt8) ∉ code) (hnc : code ≠ [0x3a, 0x63, 0x3a]) :
    ∃ area, getBytesFromCode code = .ok area ∧ area.length = codeAreaLen ∧
      getCodeFromBytes area v = .ok (code.length, replaceCR (code ++ [10]), none) := by
  have hc' : ¬ (compress code).length + 8 < code.length := hc
  have h1 : code.length ≤ codeAreaLen := by simpa [codeFits, hc'] using hfit
  refine ⟨_, getBytes_raw code hc' h1, ?_, getCode_raw code _ v (by omega) hnul hnc⟩
  simp only [List.length_append, List.length_replicate]
  omega

/-- **C04.stego_roundtrip**: the hidden bytes read back from the written rows. -/
theorem stego_roundtrip (lbl : List (List UInt8)) (w : Nat) (pico : Bytes) (h : WFLabel lbl w)
    (hp : pico.length ≤ w * lbl.length) :
    (decRows (encRows lbl pico)).take pico.length = pico := by
  exact (List.prefix_iff_eq_take.mp (stego_prefix lbl w pico h.rows hp)).symm

/-- **C04.label_bits**: the written image has the label's shape and equals it in the upper six bits of
every channel of every pixel. -/
theorem label_bits (lbl : List (List UInt8)) (w : Nat) (pico : Bytes) (h : WFLabel lbl w) :
    (encRows lbl pico).length = lbl.length ∧
    ∀ i, i < lbl.length → ∀ j, j < 4 * w →
      ((encRows lbl pico).getD i []).length = 4 * w ∧
      ((encRows lbl pico).getD i []).getD j 0 >>> (2 : UInt8) = (lbl.getD i []).getD j 0 >>> (2 : UInt8) := by
  refine ⟨encRows_length lbl pico, fun i hi j _ => ?_⟩
  obtain ⟨vs, hvs⟩ := encRows_getD lbl pico i hi
  have hmem : lbl.getD i [] ∈ lbl := by
    rw [List.getD_eq_getElem?_getD, List.getElem?_eq_getElem hi]; exact List.getElem_mem hi
  rw [hvs]
  exact ⟨by rw [encRow_length, h.rows _ hmem], encRow_shr _ vs j⟩

/-- the cart as the reader returns it -/
def normPng (c : Cart) : Cart :=
  { c with code := if (compress c.code).length + 8 < c.code.length then replaceCR c.code else replaceCR (c.code ++ [10]),
           label := none }

/-- **C04.fits_roundtrip**: writing any cart whose code fits and reading the pixels back yields identical
data regions, version and code (trailing newline / CR normalisation), compressed or raw. -/
theorem fits_roundtrip (lbl : List (List UInt8)) (w : Nat) (c : Cart) (hl : WFLabel lbl w) (hr : WFRegions c)
    (hfit : codeFits c.code)
    (hcomp : storedCompressed c.code → c.version ≠ 0 ∧ C05.Guard c.code)
    (hraw : ¬ storedCompressed c.code → (0 : UInt8) ∉ c.code ∧ c.code ≠ [0x3a, 0x63, 0x3a]) :
    ∃ rows, toPixels lbl c = .ok rows ∧ fromPixels rows = .ok (normPng c) := by
  have hfrom := fun area hb ha n code sz => pixels_roundtrip lbl w c area hl.rows hl.room
    hr.gfx hr.gff hr.map hr.sfx hr.music hr.version hb ha n code sz
  by_cases hc : storedCompressed c.code
  · obtain ⟨hv, hg⟩ := hcomp hc
    obtain ⟨area, sz, hb, ha, hcode⟩ := code_area_compressed c.code c.version hv hc hfit hg
    have hc' : (compress c.code).length + 8 < c.code.length := hc
    simpa [normPng, hc'] using hfrom area hb ha _ _ _ hcode
  · obtain ⟨hnul, hnc⟩ := hraw hc
    obtain ⟨area, hb, ha, hcode⟩ := code_area_raw c.code c.version hc hfit hnul hnc
    have hc' : ¬ (compress c.code).length + 8 < c.code.length := hc
    simpa [normPng, hc'] using hfrom area hb ha _ _ _ hcode

end Pico.C04
