import PicoVerif.Model.P8Png
import PicoVerif.Props.C05
import PicoVerif.Lemmas.C04
/-! C04 — `.p8.png` write/read round trip preserves cart and label picture. -/
namespace Pico.C04
open Pico.P8Png Pico.P8File Pico.Compress

/-- a label image: `h` rows of `w` RGBA pixels, enough pixels for the 0x8001 hidden bytes -/
structure WFLabel (lbl : List (List UInt8)) (w : Nat) : Prop where
  rows : ∀ r ∈ lbl, r.length = 4 * w
  room : 0x8001 ≤ w * lbl.length
  wpos : 0 < w

structure WFRegions (c : Cart) : Prop where
  gfx : c.gfx.length = 0x2000
  gff : c.gff.length = 0x100
  map : c.map.length = 0x1000
  sfx : c.sfx.length = 0x1100
  music : c.music.length = 0x100
  version : c.version < 256

/-- the code is stored compressed (p8png.py:151-170): never in a version 0 cart; otherwise when that is smaller counting the
8-byte header, or when the uncompressed form cannot represent the code -/
def storedCompressed (code : Bytes) (v : Nat) : Prop := useCompressed code v = true

/-- the uncompressed form can hold the code: NUL-terminated text of at most 0x3d00 bytes that does not read as the compressed
header (which only readers of version ≥ 1 carts look for) -/
def rawHolds (code : Bytes) (v : Nat) : Prop :=
  (0 : UInt8) ∉ code ∧ (v = 0 ∨ code ≠ [0x3a, 0x63, 0x3a]) ∧ code.length ≤ codeAreaLen

/-- the compressed form can hold the code: version ≥ 1, 16-bit text length, header + stream within the code area -/
def compHolds (code : Bytes) (v : Nat) : Prop :=
  v ≠ 0 ∧ code.length < 65536 ∧ 8 + (compress code).length ≤ codeAreaLen

/-- the cart's code fits the 0x3d00-byte code area in the form picotool chooses -/
def codeFits (code : Bytes) (v : Nat) : Prop :=
  if useCompressed code v = true then code.length < 65536 ∧ 8 + (compress code).length ≤ codeAreaLen
  else ¬ (v = 0 ∧ (0 : UInt8) ∈ code) ∧ code.length ≤ codeAreaLen

/-- **C04.codeFits_iff**: "fits in the form picotool chooses" is the same as "some form of the format can hold it". The
right-hand side does not mention the choice. -/
theorem codeFits_iff (code : Bytes) (v : Nat) : codeFits code v ↔ rawHolds code v ∨ compHolds code v := by
  have hA : codeAreaLen = 0x3d00 := rfl
  unfold codeFits rawHolds compHolds
  by_cases hv : v = 0
  · subst hv
    rw [if_neg (by rw [useCompressed_zero]; simp)]
    simp
  · by_cases hc : useCompressed code v = true
    · rw [if_pos hc]
      obtain ⟨_, hor⟩ := (useCompressed_iff code v).mp hc
      constructor
      · intro h; exact Or.inr ⟨hv, h⟩
      · rintro (⟨hnul, hnc, hlen⟩ | ⟨_, h⟩)
        · rcases hor with hlt | hraw
          · omega
          · have : rawOk code = true := (rawOk_iff code).mpr ⟨hnul, hnc.resolve_left hv⟩
            rw [hraw] at this; cases this
        · exact h
    · rw [if_neg hc]
      have hf : useCompressed code v = false := by simpa using hc
      obtain ⟨hnul, hnc⟩ := rawOk_of_not_useCompressed code v hv hf
      have hnlt : ¬ (compress code).length + 8 < code.length := fun hlt =>
        hc ((useCompressed_iff code v).mpr ⟨hv, Or.inl hlt⟩)
      constructor
      · rintro ⟨_, hlen⟩; exact Or.inl ⟨hnul, Or.inr hnc, hlen⟩
      · rintro (⟨_, _, hlen⟩ | ⟨_, _, h⟩)
        · exact ⟨fun h => hv h.1, hlen⟩
        · exact ⟨fun h => hv h.1, by omega⟩

/-- **C04.raw_fit_never_refused**: code that the uncompressed form can hold always fits in the form picotool chooses — choosing
the compressed form never turns a cart that fits into one that is refused (defect 31). -/
theorem raw_fit_never_refused (code : Bytes) (v : Nat) (h : rawHolds code v) : codeFits code v :=
  (codeFits_iff code v).mpr (Or.inl h)

/-- so such a cart is written (with `refuses`: the writer fails exactly when `codeFits` does not hold). -/
theorem raw_fit_written (lbl : List (List UInt8)) (c : Cart) (h : rawHolds c.code c.version) (hv : c.version < 256) :
    ∃ rows, toPixels lbl c = .ok rows := by
  have hf := raw_fit_never_refused c.code c.version h
  unfold codeFits at hf
  have hcb : ∃ cb, getBytesFromCode c.code c.version = .ok cb := by
    by_cases hc : useCompressed c.code c.version = true
    · rw [if_pos hc] at hf
      exact ⟨_, getBytes_compressed c.code c.version hc hf.1 hf.2⟩
    · rw [if_neg hc] at hf
      exact ⟨_, getBytes_raw c.code c.version hc hf.1 hf.2⟩
  obtain ⟨cb, hcb⟩ := hcb
  exact ⟨encRows lbl (picodata c cb), by
    simp [toPixels, hcb, bind, Except.bind, Nat.not_lt.mpr (Nat.le_of_lt_succ hv), pure, Except.pure]⟩

/-- **C04.refuses**: a cart whose code does not fit is refused with an error, never written. -/
theorem refuses (lbl : List (List UInt8)) (c : Cart) (h : ¬ codeFits c.code c.version) :
    ∃ e, toPixels lbl c = .error e := by
  obtain ⟨e, he⟩ := getBytes_error c.code c.version h
  exact ⟨e, by simp [toPixels, he, bind, Except.bind]⟩

/-- **C04.written_iff**: the writer produces an image exactly when the code fits (in the sense of `codeFits_iff`: some form of
the format can hold it) and the version is a byte — it neither refuses a cart that fits nor writes one that does not. -/
theorem written_iff (lbl : List (List UInt8)) (c : Cart) :
    (∃ rows, toPixels lbl c = .ok rows) ↔ codeFits c.code c.version ∧ c.version < 256 := by
  constructor
  · rintro ⟨rows, h⟩
    have hfit : codeFits c.code c.version := by
      false_or_by_contra
      rename_i hn
      obtain ⟨e, he⟩ := refuses lbl c hn
      rw [he] at h; cases h
    refine ⟨hfit, ?_⟩
    false_or_by_contra
    rename_i hv
    unfold codeFits at hfit
    have hcb : ∃ cb, getBytesFromCode c.code c.version = .ok cb := by
      by_cases hc : useCompressed c.code c.version = true
      · rw [if_pos hc] at hfit
        exact ⟨_, getBytes_compressed c.code c.version hc hfit.1 hfit.2⟩
      · rw [if_neg hc] at hfit
        exact ⟨_, getBytes_raw c.code c.version hc hfit.1 hfit.2⟩
    obtain ⟨cb, hcb⟩ := hcb
    have hgt : c.version > 255 := by omega
    simp [toPixels, hcb, bind, Except.bind, hgt] at h
  · rintro ⟨hfit, hv⟩
    unfold codeFits at hfit
    have hcb : ∃ cb, getBytesFromCode c.code c.version = .ok cb := by
      by_cases hc : useCompressed c.code c.version = true
      · rw [if_pos hc] at hfit
        exact ⟨_, getBytes_compressed c.code c.version hc hfit.1 hfit.2⟩
      · rw [if_neg hc] at hfit
        exact ⟨_, getBytes_raw c.code c.version hc hfit.1 hfit.2⟩
    obtain ⟨cb, hcb⟩ := hcb
    exact ⟨encRows lbl (picodata c cb), by
      simp [toPixels, hcb, bind, Except.bind, Nat.not_lt.mpr (Nat.le_of_lt_succ hv), pure, Except.pure]⟩

/-- **C04.code_area_compressed**: code stored compressed reads back exactly (CR -> space), under C05's guard (the version is
≥ 1 because the form was chosen). -/
theorem code_area_compressed (code : Bytes) (v : Nat) (hc : storedCompressed code v)
    (hfit : codeFits code v) (hg : C05.Guard code) :
    ∃ area sz, getBytesFromCode code v = .ok area ∧ area.length = codeAreaLen ∧
      getCodeFromBytes area v = .ok (code.length, replaceCR code, some sz) := by
  have hc' : useCompressed code v = true := hc
  have hv : v ≠ 0 := useCompressed_ne_zero code v hc'
  have ⟨h1, h2⟩ : code.length < 65536 ∧ 8 + (compress code).length ≤ codeAreaLen := by
    simpa [codeFits, hc'] using hfit
  obtain ⟨sz, hsz⟩ := getCode_compressed code
    (List.replicate (codeAreaLen - (8 + (compress code).length)) 0) v hv hg
  refine ⟨_, sz, getBytes_compressed code v hc' h1 h2, ?_, hsz⟩
  simp only [List.length_append, header_length, List.length_replicate]
  omega

/-- **C04.code_area_raw**: code stored raw reads back with a newline appended (CR -> space) — with no side condition: code
with a NUL byte or the bare magic `:c:` is never stored raw in a cart whose reader would misread it (defects 32, 33). -/
theorem code_area_raw (code : Bytes) (v : Nat) (hc : ¬ storedCompressed code v) (hfit : codeFits code v) :
    ∃ area, getBytesFromCode code v = .ok area ∧ area.length = codeAreaLen ∧
      getCodeFromBytes area v = .ok (code.length, replaceCR (code ++ [10]), none) := by
  have hc' : ¬ useCompressed code v = true := hc
  have ⟨h0, h1⟩ : ¬ (v = 0 ∧ (0 : UInt8) ∈ code) ∧ code.length ≤ codeAreaLen := by
    unfold codeFits at hfit; rwa [if_neg hc'] at hfit
  have hraw : (0 : UInt8) ∉ code ∧ (v = 0 ∨ code ≠ [0x3a, 0x63, 0x3a]) := by
    by_cases hv : v = 0
    · exact ⟨fun hm => h0 ⟨hv, hm⟩, Or.inl hv⟩
    · have := rawOk_of_not_useCompressed code v hv (by simpa using hc')
      exact ⟨this.1, Or.inr this.2⟩
  refine ⟨_, getBytes_raw code v hc' h0 h1, ?_, getCode_raw code _ v (by omega) hraw.1 hraw.2⟩
  simp only [List.length_append, List.length_replicate]
  omega

/-- **C04.stego_roundtrip**: the hidden bytes read back from the written rows. -/
theorem stego_roundtrip (lbl : List (List UInt8)) (w : Nat) (pico : Bytes) (h : WFLabel lbl w)
    (hp : pico.length ≤ w * lbl.length) :
    (decRows (encRows lbl pico)).take pico.length = pico := by
  exact (List.prefix_iff_eq_take.mp (stego_prefix lbl w pico h.rows hp)).symm

/-- **C04.label_bits**: the written image has the label's shape and equals it in the upper six bits of
every channel of every pixel. -/
theorem label_bits (lbl : List (List UInt8)) (w : Nat) (pico : Bytes) (h : WFLabel lbl w) :
    (encRows lbl pico).length = lbl.length ∧
    ∀ i, i < lbl.length → ∀ j, j < 4 * w →
      ((encRows lbl pico).getD i []).length = 4 * w ∧
      ((encRows lbl pico).getD i []).getD j 0 >>> (2 : UInt8) = (lbl.getD i []).getD j 0 >>> (2 : UInt8) := by
  refine ⟨encRows_length lbl pico, fun i hi j _ => ?_⟩
  obtain ⟨vs, hvs⟩ := encRows_getD lbl pico i hi
  have hmem : lbl.getD i [] ∈ lbl := by
    rw [List.getD_eq_getElem?_getD, List.getElem?_eq_getElem hi]; exact List.getElem_mem hi
  rw [hvs]
  exact ⟨by rw [encRow_length, h.rows _ hmem], encRow_shr _ vs j⟩

/-- the cart as the reader returns it -/
def normPng (c : Cart) : Cart :=
  { c with code := if useCompressed c.code c.version = true then replaceCR c.code else replaceCR (c.code ++ [10]),
           label := none }

/-- **C04.fits_roundtrip**: writing any cart whose code fits and reading the pixels back yields identical data regions,
version and code (trailing newline / CR normalisation), compressed or raw, at every version; the only side condition is
C05's guard for code stored compressed (the text does not itself end with PICO-8's compatibility suffix). -/
theorem fits_roundtrip (lbl : List (List UInt8)) (w : Nat) (c : Cart) (hl : WFLabel lbl w) (hr : WFRegions c)
    (hfit : codeFits c.code c.version)
    (hcomp : storedCompressed c.code c.version → C05.Guard c.code) :
    ∃ rows, toPixels lbl c = .ok rows ∧ fromPixels rows = .ok (normPng c) := by
  have hfrom := fun area hb ha n code sz => pixels_roundtrip lbl w c area hl.rows hl.room
    hr.gfx hr.gff hr.map hr.sfx hr.music hr.version hb ha n code sz
  by_cases hc : storedCompressed c.code c.version
  · have hg := hcomp hc
    obtain ⟨area, sz, hb, ha, hcode⟩ := code_area_compressed c.code c.version hc hfit hg
    have hc' : useCompressed c.code c.version = true := hc
    simpa [normPng, hc'] using hfrom area hb ha _ _ _ hcode
  · obtain ⟨area, hb, ha, hcode⟩ := code_area_raw c.code c.version hc hfit
    have hc' : useCompressed c.code c.version = false := by
      simpa [storedCompressed] using hc
    simpa [normPng, hc'] using hfrom area hb ha _ _ _ hcode

/-- non-vacuity: code with a NUL byte fits a version 8 cart (stored compressed) and is refused by a version 0 cart -/
example : useCompressed [45, 45, 0, 10] 8 = true ∧ useCompressed [45, 45, 0, 10] 0 = false ∧
    useCompressed [0x3a, 0x63, 0x3a] 8 = true ∧ useCompressed [0x3a, 0x63, 0x3a] 0 = false := by decide +kernel

end Pico.C04
