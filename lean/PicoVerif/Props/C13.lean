import PicoVerif.Model.Build
import PicoVerif.Spec.EmptyCart
/-! C13 — build takes each cart section from exactly the source the arguments name.
The wiring argparse -> `do_build` and the cart readers/writers are tied by the correspondence (all 4^6 assignments in
the thorough tier), not proved. -/
namespace Pico.C13
open Pico.Build

/-- one step either fails (exactly when the section's arguments are bad) or updates exactly that section -/
theorem step_spec (args : Sec → SecArg) (files : Nat → FileInfo) (e init : Cart) (x : Sec) :
    (badArg args files x = true ∧ ∃ err, step args files e init x = .error err) ∨
    (badArg args files x = false ∧ step args files e init x = .ok (fun t => if t = x then
        (match (args x).file with
         | some f => (files f).content x
         | none => if (args x).empty then e x else init x) else init t)) := by
  unfold step badArg
  cases hf : (args x).file with
  | some f =>
    simp only []
    by_cases h1 : (args x).empty = true
    · left; simp [h1]
    · by_cases h2 : (files f).exists_ = true
      · by_cases h3 : ((files f).cartExt || (x == .lua && (files f).luaExt)) = true
        · right; simp [h1, h2, h3]
        · left; simp [h1, h2, h3]
      · left; simp [h1, h2]
  | none =>
    simp only []
    right
    by_cases h1 : (args x).empty = true
    · simp [h1]
    · have h1' : (args x).empty = false := by simpa using h1
      simp only [h1']
      refine ⟨trivial, ?_⟩
      simp only [Bool.false_eq_true, if_false]
      congr 1
      funext t
      by_cases ht : t = x
      · subst ht; simp
      · simp [ht]

theorem foldl_step (args : Sec → SecArg) (files : Nat → FileInfo) (e : Cart) :
    ∀ (l : List Sec) (init r : Cart), l.Nodup → l.foldlM (step args files e) init = .ok r →
      (∀ s ∈ l, badArg args files s = false) ∧
      ∀ s, r s = if s ∈ l then
          (match (args s).file with
           | some f => (files f).content s
           | none => if (args s).empty then e s else init s)
        else init s := by
  intro l
  induction l with
  | nil =>
    intro init r _ h
    simp only [List.foldlM_nil, pure, Except.pure] at h
    cases h
    simp
  | cons x xs ih =>
    intro init r hnd h
    simp only [List.foldlM_cons, bind, Except.bind] at h
    have hx : x ∉ xs := (List.nodup_cons.mp hnd).1
    rcases step_spec args files e init x with ⟨_, err, herr⟩ | ⟨hok, hstep⟩
    · rw [herr] at h; cases h
    · rw [hstep] at h
      obtain ⟨hbad, hr⟩ := ih _ r (List.nodup_cons.mp hnd).2 h
      refine ⟨?_, ?_⟩
      · intro s hs
        rcases List.mem_cons.mp hs with rfl | hm
        · exact hok
        · exact hbad s hm
      · intro s
        rw [hr s]
        by_cases hsx : s = x
        · subst hsx; simp [hx]
        · by_cases hm : s ∈ xs
          · simp [hm, hsx]
          · simp [hm, hsx]

/-- **C13.section_choice**: after a successful build every section of OUT is the named source cart's section if a
source was given, the empty default if `--empty-X` was given, otherwise OUT's previous section (or the empty default
if OUT did not exist). -/
theorem section_choice (outExtOk : Bool) (args : Sec → SecArg) (files : Nat → FileInfo) (e : Cart) (out : Option Cart) (r : Cart)
    (h : doBuild outExtOk args files e out = .ok r) : ∀ s, s ≠ .label → r s = choice args files e out s := by
  unfold doBuild at h
  split at h
  · cases h
  · intro s hne
    have := (foldl_step args files e secs (out.getD e) r (by decide) h).2 s
    rw [this]
    have hs : s ∈ secs := by cases s <;> first | decide | exact absurd rfl hne
    simp only [hs, if_true, choice]
    cases (args s).file <;> rfl

/-- **C13.label_kept**: whatever the arguments say, a successful build leaves the label as it was: the label of the existing OUT
(a `.p8` OUT keeps its `__label__` section, a `.p8.png` OUT its picture), the empty default when OUT did not exist. -/
theorem label_kept (outExtOk : Bool) (args : Sec → SecArg) (files : Nat → FileInfo) (e : Cart) (out : Option Cart) (r : Cart)
    (h : doBuild outExtOk args files e out = .ok r) : r .label = (out.getD e) .label := by
  unfold doBuild at h
  split at h
  · cases h
  · have := (foldl_step args files e secs (out.getD e) r (by decide) h).2 .label
    rw [this]
    have hs : Sec.label ∉ secs := by decide
    simp [hs]

/-- **C13.conflict_fails**: `--X` together with `--empty-X`, a missing source file or a wrong extension — for any
section — make the command fail (and nothing is written: `do_build` returns before `to_file`). -/
theorem conflict_fails (outExtOk : Bool) (args : Sec → SecArg) (files : Nat → FileInfo) (e : Cart) (out : Option Cart)
    (s : Sec) (hnl : s ≠ .label) (hbad : badArg args files s = true) : ∃ err, doBuild outExtOk args files e out = .error err := by
  unfold doBuild
  split
  · exact ⟨_, rfl⟩
  · cases h : secs.foldlM (step args files e) (out.getD e) with
    | error err => exact ⟨err, rfl⟩
    | ok r =>
      by_cases hl : s = .label
      · subst hl
        -- the label has no arguments in the real tool; in the model `badArg` can only be true for it if its (ignored) slot says so
        exact absurd hbad (by simpa using hnl)
      · have := (foldl_step args files e secs (out.getD e) r (by decide) h).1 s (by cases s <;> first | decide | exact absurd rfl hl)
        rw [this] at hbad; cases hbad

/-- **C13.bad_output_name_fails**: an output name that is neither .p8 nor .p8.png fails. -/
theorem bad_output_name_fails (args : Sec → SecArg) (files : Nat → FileInfo) (e : Cart) (out : Option Cart) :
    doBuild false args files e out = .error .type_ := by simp [doBuild]

/-- **C13.no_args_keeps_out**: with no section arguments an existing OUT is reproduced unchanged. -/
theorem no_args_keeps_out (files : Nat → FileInfo) (e c : Cart) : doBuild true (fun _ => {}) files e (some c) = .ok c := by
  simp [doBuild, secs, List.foldlM, step, bind, Except.bind, pure, Except.pure]

/-! ### the empty default, concretely -/

/-- the empty cart of the specification as a `Cart` (no label) -/
def specEmpty : Cart
  | .lua => Spec.Empty.lua | .gfx => Spec.Empty.gfx | .gff => Spec.Empty.gff | .map => Spec.Empty.map
  | .sfx => Spec.Empty.sfx | .music => Spec.Empty.music | .label => []

/-- the regions of the empty default have the sizes of the cart's memory regions -/
theorem empty_sizes : Spec.Empty.gfx.length = 0x2000 ∧ Spec.Empty.map.length = 0x1000 ∧ Spec.Empty.gff.length = 0x100 ∧
    Spec.Empty.music.length = 0x100 ∧ Spec.Empty.sfx.length = 0x1100 := by
  refine ⟨List.length_replicate .., List.length_replicate .., List.length_replicate .., by decide +kernel, by decide +kernel⟩

theorem empty_sfx_records_table :
    (List.range 64).all (fun i => (Spec.Empty.sfx.drop (68 * i)).take 68 == Spec.Empty.sfxPattern i) = true := by
  decide +kernel

/-- the empty sound-effect region, record by record: 64 zero note bytes, editor mode 0, speed 1 for sound effect 0 and 16 for
the other 63, no loop -/
theorem empty_sfx_records (i : Nat) (h : i < 64) :
    (Spec.Empty.sfx.drop (68 * i)).take 68 = List.replicate 64 0 ++ [0, if i = 0 then 1 else 16, 0, 0] := by
  have := List.all_eq_true.mp empty_sfx_records_table i (List.mem_range.mpr h)
  simpa [Spec.Empty.sfxPattern] using this

theorem empty_music_records_table :
    (List.range 64).all (fun i => (Spec.Empty.music.drop (4 * i)).take 4 == [0x41, 0x42, 0x43, 0x44]) = true := by
  decide +kernel

/-- the empty music region: the four channels of every pattern are silent (bit 6 set) -/
theorem empty_music_records (i : Nat) (h : i < 64) : (Spec.Empty.music.drop (4 * i)).take 4 = [0x41, 0x42, 0x43, 0x44] := by
  have := List.all_eq_true.mp empty_music_records_table i (List.mem_range.mpr h)
  simpa using this

/-- **C13.new_out_gets_pico8_defaults**: a build into an OUT that did not exist gives every section the arguments do not name
the content of a new PICO-8 cart, and `--empty-X` gives section X that content whatever OUT held. -/
theorem new_out_gets_pico8_defaults (outExtOk : Bool) (args : Sec → SecArg) (files : Nat → FileInfo) (out : Option Cart) (r : Cart)
    (h : doBuild outExtOk args files specEmpty out = .ok r) (s : Sec) (hs : s ≠ .label) (hf : (args s).file = none) :
    ((args s).empty = true → r s = specEmpty s) ∧ ((args s).empty = false → out = none → r s = specEmpty s) := by
  have := section_choice outExtOk args files specEmpty out r h s hs
  rw [this]
  unfold choice
  rw [hf]
  constructor
  · intro he; simp [he]
  · intro he ho; simp [he, ho]

example : (specEmpty .sfx).getD 65 0 = 1 ∧ (specEmpty .sfx).getD 133 0 = 16 := by decide +kernel

end Pico.C13
