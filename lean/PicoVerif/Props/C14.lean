import PicoVerif.Model.Require
import PicoVerif.Lemmas.C14
/-! C14 — build embeds each require()d package once and leaves all code intact.
The extraction of `require(...)` calls from a file's tree, the file lookup and the re-lexing of a stripped package are
parameters of the model, tied to the code by the correspondence (real builds of random package graphs, compared token
for token). -/
namespace Pico.C14
open Pico.Req Pico.Inc

def names (pkgs : List Pkg) : List Bytes := pkgs.map (·.name)

/-- **C14.once**: however packages require each other (shared packages, cycles, self-requires), every name is
registered at most once, and packages already registered keep their place and content. -/
theorem once (w : World) (fuel : Nat) (calls : List Call) (cur : Nat) (pkgs pkgs' : List Pkg)
    (h : evalCalls w fuel calls cur pkgs = .ok pkgs') (hn : (names pkgs).Nodup) :
    (names pkgs').Nodup ∧ pkgs <+: pkgs' := by
  exact ⟨evalCalls_nodup w fuel calls cur pkgs pkgs' h hn, evalCalls_prefix w fuel calls cur pkgs pkgs' h⟩

/-- **C14.all_registered**: after a successful evaluation every required name is in the package table. -/
theorem all_registered (w : World) (fuel : Nat) (calls : List Call) (cur : Nat) (pkgs pkgs' : List Pkg)
    (h : evalCalls w fuel calls cur pkgs = .ok pkgs') :
    ∀ p ugl, (.ok (p, ugl) : Call) ∈ calls → p ∈ names pkgs' := by
  exact evalCalls_all_registered w fuel calls cur pkgs pkgs' h

/-- **C14.registered_from_lookup**: every package added was found by the lookup for the file that required it and
its own require() calls were evaluated with the game-loop choice of the first require that named it. -/
theorem registered_from_lookup (w : World) (fuel : Nat) (calls : List Call) (cur : Nat) (pkgs pkgs' : List Pkg)
    (h : evalCalls w fuel calls cur pkgs = .ok pkgs') :
    ∀ q ∈ pkgs', q ∈ pkgs ∨ ∃ from_, w.locate q.name from_ = some q.file := by
  exact evalCalls_from_lookup w fuel calls cur pkgs pkgs' h

/-- **C14.arg_error_fails**: a require() with unusable arguments fails the build once it is reached. -/
theorem arg_error_fails (w : World) (fuel : Nat) (pre post : List Call) (e : Err) (cur : Nat) (pkgs mid : List Pkg)
    (hpre : evalCalls w fuel pre cur pkgs = .ok mid) (hf : fuel ≠ 0) :
    ∃ e', evalCalls w fuel (pre ++ (.error e : Call) :: post) cur pkgs = .error e' := by
  exact evalCalls_arg_error w post e cur mid pre fuel pkgs hpre

/-- **C14.missing_file_fails**: a require() of a new name whose file cannot be found fails the build. -/
theorem missing_file_fails (w : World) (fuel : Nat) (p : Bytes) (ugl : Bool) (rest : List Call) (cur : Nat) (pkgs : List Pkg)
    (hnew : p ∉ names pkgs) (hloc : w.locate p cur = none) :
    ∃ e, evalCalls w fuel ((.ok (p, ugl) : Call) :: rest) cur pkgs = .error e := by
  exact evalCalls_missing_file w fuel p ugl rest cur pkgs hnew hloc

/-- **C14.fuel_irrelevant**: the result does not depend on the fuel once it suffices (the real recursion terminates
because a package is registered before its own require() calls are evaluated). -/
theorem fuel_irrelevant (w : World) (fuel : Nat) (calls : List Call) (cur : Nat) (pkgs pkgs' : List Pkg)
    (h : evalCalls w fuel calls cur pkgs = .ok pkgs') (k : Nat) :
    evalCalls w (fuel + k) calls cur pkgs = .ok pkgs' := by
  exact evalCalls_fuel_mono w k fuel calls cur pkgs pkgs' h

/-- **C14.main_unchanged**: the built code ends with the main program's code, unchanged; without packages it *is* it. -/
theorem main_unchanged (pkgs : List (Bytes × Bytes)) (main : Bytes) :
    (∃ pre, assembleCode pkgs main = pre ++ main) ∧ (pkgs = [] → assembleCode pkgs main = main) := by
  constructor
  · unfold assembleCode
    split
    · exact ⟨[], rfl⟩
    · exact ⟨_, rfl⟩
  · intro h
    subst h
    rfl

/-- **C14.assembly**: with packages the built code is the package-table preamble, one block per package in
registration order, the loader, then the main code. -/
theorem assembly (pkgs : List (Bytes × Bytes)) (main : Bytes) (h : pkgs ≠ []) :
    assembleCode pkgs main =
      Gen.requirePreamblePackage.flatten ++ pkgs.flatMap (fun p => pkgBlock p.1 p.2) ++ Gen.requirePreambleRequire.flatten ++ main := by
  unfold assembleCode
  rw [if_neg]
  cases pkgs with
  | nil => exact absurd rfl h
  | cons a t => simp

/-- **C14.block_separated**: a package's code sits between its header line and a closing `end` line, and is always
separated from that `end` by a line feed (a package without a final newline cannot fuse with it). -/
theorem block_separated (name body : Bytes) :
    ∃ b', pkgBlock name body = "package._c[\"".toUTF8.toList ++ quote name ++ "\"]=function()\n".toUTF8.toList ++ b' ++ "end\n".toUTF8.toList ∧
      (b' = [] ∨ b'.getLast? = some 10) ∧ (body <+: b') := by
  unfold pkgBlock
  refine ⟨_, rfl, ?_, ?_⟩
  · split
    · rename_i hc
      rcases hc with hc | hc
      · left
        exact List.isEmpty_iff.1 hc
      · right
        exact hc
    · right
      simp
  · split
    · exact List.prefix_refl _
    · exact List.prefix_append _ _

/-- **C14.strip_keeps_the_rest**: removing the token ranges of the stripped statements keeps every other token, once,
in order. -/
theorem strip_keeps_the_rest {α : Type} (toks : List α) (s e : Nat) (rest : List (Nat × Nat)) (pos : Nat)
    (h1 : pos ≤ s) (h2 : s ≤ e) :
    dropRanges toks ((s, e) :: rest) pos = (toks.take s).drop pos ++ dropRanges toks rest e ∧
    dropRanges toks [] pos = toks.drop pos := by
  exact ⟨rfl, rfl⟩

/-- **C14.strip_decision**: a top-level function statement of a package is stripped exactly when it is a plain
`function NAME(...)` (single-name path, no method) and NAME is `_init`, `_update`, `_update60` or `_draw` — names that
merely begin with or contain one of these are kept.  (The names are written out as bytes: the statement does not
depend on the regenerated table, so a change of `GAME_LOOP_FUNCTION_NAMES` breaks this theorem.) -/
theorem strip_decision (np : List Bytes) (m : Option Bytes) :
    stripsStat np m = true ↔
      m = none ∧ ∃ n, np = [n] ∧
        (n = [95, 105, 110, 105, 116] ∨ n = [95, 117, 112, 100, 97, 116, 101] ∨
         n = [95, 117, 112, 100, 97, 116, 101, 54, 48] ∨ n = [95, 100, 114, 97, 119]) := by
  unfold stripsStat
  constructor
  · intro h
    split at h
    · rename_i n
      refine ⟨rfl, n, rfl, ?_⟩
      simpa [Gen.gameLoopNames, List.contains_iff_mem] using h
    · cases h
  · rintro ⟨rfl, n, rfl, h⟩
    simpa [Gen.gameLoopNames, List.contains_iff_mem] using h

example : stripsStat ["_update60".toUTF8.toList] none = true ∧ stripsStat ["_update_hud".toUTF8.toList] none = false ∧
    stripsStat ["m".toUTF8.toList, "_init".toUTF8.toList] none = false ∧
    stripsStat ["_draw".toUTF8.toList] (some "x".toUTF8.toList) = false := by decide +kernel

example : (match evalCalls { locate := fun p _ => if p == [97] then some 1 else if p == [98] then some 2 else none,
                             callsOf := fun f _ => if f == 0 then [.ok ([97], false), .ok ([98], false), .ok ([97], true)]
                                                   else if f == 1 then [.ok ([98], false)] else [.ok ([97], false)] }
                           20 [.ok ([97], false), .ok ([98], false), .ok ([97], true)] 0 [] with
    | .ok pk => pk.map (·.name) == [[97], [98]] | .error _ => false) = true := by decide +kernel

end Pico.C14
