import PicoVerif.Model.Require
import PicoVerif.Model.ReqWalk
import PicoVerif.Lemmas.C14
import PicoVerif.Lemmas.C14b
/-! C14 — build embeds each require()d package once and leaves all code intact.
The extraction of `require(...)` calls from a file's tree, the file lookup and the re-lexing of a stripped package are
parameters of the model, tied to the code by the correspondence (real builds of random package graphs, compared token
for token). -/
namespace Pico.C14
open Pico.Req Pico.Inc

def names (pkgs : List Pkg) : List Bytes := pkgs.map (·.name)

/-- **C14.once**: however packages require each other (shared packages, cycles, self-requires), every name is
registered at most once, and packages already registered keep their place and content. -/
theorem once (w : World) (fuel : Nat) (calls : List Call) (cur : Nat) (pkgs pkgs' : List Pkg)
    (h : evalCalls w fuel calls cur pkgs = .ok pkgs') (hn : (names pkgs).Nodup) :
    (names pkgs').Nodup ∧ pkgs <+: pkgs' := by
  exact ⟨evalCalls_nodup w fuel calls cur pkgs pkgs' h hn, evalCalls_prefix w fuel calls cur pkgs pkgs' h⟩

/-- **C14.all_registered**: after a successful evaluation every required name is in the package table. -/
theorem all_registered (w : World) (fuel : Nat) (calls : List Call) (cur : Nat) (pkgs pkgs' : List Pkg)
    (h : evalCalls w fuel calls cur pkgs = .ok pkgs') :
    ∀ p ugl, (.ok (p, ugl) : Call) ∈ calls → p ∈ names pkgs' := by
  exact evalCalls_all_registered w fuel calls cur pkgs pkgs' h

/-- **C14.registered_from_lookup**: every package added was found by the lookup for the file that required it and
its own require() calls were evaluated with the game-loop choice of the first require that named it. -/
theorem registered_from_lookup (w : World) (fuel : Nat) (calls : List Call) (cur : Nat) (pkgs pkgs' : List Pkg)
    (h : evalCalls w fuel calls cur pkgs = .ok pkgs') :
    ∀ q ∈ pkgs', q ∈ pkgs ∨ ∃ from_, w.locate q.name from_ = some q.file := by
  exact evalCalls_from_lookup w fuel calls cur pkgs pkgs' h

/-- **C14.arg_error_fails**: a require() with unusable arguments fails the build once it is reached. -/
theorem arg_error_fails (w : World) (fuel : Nat) (pre post : List Call) (e : Err) (cur : Nat) (pkgs mid : List Pkg)
    (hpre : evalCalls w fuel pre cur pkgs = .ok mid) (hf : fuel ≠ 0) :
    ∃ e', evalCalls w fuel (pre ++ (.error e : Call) :: post) cur pkgs = .error e' := by
  exact evalCalls_arg_error w post e cur mid pre fuel pkgs hpre

/-- **C14.missing_file_fails**: a require() of a new name whose file cannot be found fails the build. -/
theorem missing_file_fails (w : World) (fuel : Nat) (p : Bytes) (ugl : Bool) (rest : List Call) (cur : Nat) (pkgs : List Pkg)
    (hnew : p ∉ names pkgs) (hloc : w.locate p cur = none) :
    ∃ e, evalCalls w fuel ((.ok (p, ugl) : Call) :: rest) cur pkgs = .error e := by
  exact evalCalls_missing_file w fuel p ugl rest cur pkgs hnew hloc

/-- **C14.fuel_irrelevant**: the result does not depend on the fuel once it suffices (the real recursion terminates
because a package is registered before its own require() calls are evaluated). -/
theorem fuel_irrelevant (w : World) (fuel : Nat) (calls : List Call) (cur : Nat) (pkgs pkgs' : List Pkg)
    (h : evalCalls w fuel calls cur pkgs = .ok pkgs') (k : Nat) :
    evalCalls w (fuel + k) calls cur pkgs = .ok pkgs' := by
  exact evalCalls_fuel_mono w k fuel calls cur pkgs pkgs' h

/-- **C14.main_unchanged**: the built code ends with the main program's code, unchanged; without packages it *is* it. -/
theorem main_unchanged (pkgs : List (Bytes × Bytes)) (main : Bytes) :
    (∃ pre, assembleCode pkgs main = pre ++ main) ∧ (pkgs = [] → assembleCode pkgs main = main) := by
  constructor
  · unfold assembleCode
    split
    · exact ⟨[], rfl⟩
    · exact ⟨_, rfl⟩
  · intro h
    subst h
    rfl

/-- **C14.assembly**: with packages the built code is the package-table preamble, one block per package in
registration order, the loader, then the main code. -/
theorem assembly (pkgs : List (Bytes × Bytes)) (main : Bytes) (h : pkgs ≠ []) :
    assembleCode pkgs main =
      Gen.requirePreamblePackage.flatten ++ pkgs.flatMap (fun p => pkgBlock p.1 p.2) ++ Gen.requirePreambleRequire.flatten ++ main := by
  unfold assembleCode
  rw [if_neg]
  cases pkgs with
  | nil => exact absurd rfl h
  | cons a t => simp

/-- **C14.block_separated**: a package's code sits between its header line and a closing `end` line, and is always
separated from that `end` by a line feed (a package without a final newline cannot fuse with it). -/
theorem block_separated (name body : Bytes) :
    ∃ b', pkgBlock name body = "package._c[\"".toUTF8.toList ++ quote name ++ "\"]=function()\n".toUTF8.toList ++ b' ++ "end\n".toUTF8.toList ∧
      (b' = [] ∨ b'.getLast? = some 10) ∧ (body <+: b') := by
  unfold pkgBlock
  refine ⟨_, rfl, ?_, ?_⟩
  · split
    · rename_i hc
      rcases hc with hc | hc
      · left
        exact List.isEmpty_iff.1 hc
      · right
        exact hc
    · right
      simp
  · split
    · exact List.prefix_refl _
    · exact List.prefix_append _ _

/-- **C14.strip_keeps_the_rest**: removing the token ranges of the stripped statements keeps every other token, once,
in order. -/
theorem strip_keeps_the_rest {α : Type} (toks : List α) (s e : Nat) (rest : List (Nat × Nat)) (pos : Nat)
    (h1 : pos ≤ s) (h2 : s ≤ e) :
    dropRanges toks ((s, e) :: rest) pos = (toks.take s).drop pos ++ dropRanges toks rest e ∧
    dropRanges toks [] pos = toks.drop pos := by
  exact ⟨rfl, rfl⟩

/-- **C14.strip_decision**: a top-level function statement of a package is stripped exactly when it is a plain
`function NAME(...)` (single-name path, no method) and NAME is `_init`, `_update`, `_update60` or `_draw` — names that
merely begin with or contain one of these are kept.  (The names are written out as bytes: the statement does not
depend on the regenerated table, so a change of `GAME_LOOP_FUNCTION_NAMES` breaks this theorem.) -/
theorem strip_decision (np : List Bytes) (m : Option Bytes) :
    stripsStat np m = true ↔
      m = none ∧ ∃ n, np = [n] ∧
        (n = [95, 105, 110, 105, 116] ∨ n = [95, 117, 112, 100, 97, 116, 101] ∨
         n = [95, 117, 112, 100, 97, 116, 101, 54, 48] ∨ n = [95, 100, 114, 97, 119]) := by
  unfold stripsStat
  constructor
  · intro h
    split at h
    · rename_i n
      refine ⟨rfl, n, rfl, ?_⟩
      simpa [Gen.gameLoopNames, List.contains_iff_mem] using h
    · cases h
  · rintro ⟨rfl, n, rfl, h⟩
    simpa [Gen.gameLoopNames, List.contains_iff_mem] using h

example : stripsStat ["_update60".toUTF8.toList] none = true ∧ stripsStat ["_update_hud".toUTF8.toList] none = false ∧
    stripsStat ["m".toUTF8.toList, "_init".toUTF8.toList] none = false ∧
    stripsStat ["_draw".toUTF8.toList] (some "x".toUTF8.toList) = false := by decide +kernel

example : (match evalCalls { locate := fun p _ => if p == [97] then some 1 else if p == [98] then some 2 else none,
                             callsOf := fun f _ => if f == 0 then [.ok ([97], false), .ok ([98], false), .ok ([97], true)]
                                                   else if f == 1 then [.ok ([98], false)] else [.ok ([97], false)] }
                           20 [.ok ([97], false), .ok ([98], false), .ok ([97], true)] 0 [] with
    | .ok pk => pk.map (·.name) == [[97], [98]] | .error _ => false) = true := by decide +kernel

/-! ### Second part — the parameters made concrete
Discovery of `require()` calls in a parsed file (`RequireWalker`), the stripping decision and token ranges, and the
composition with lexer, parser, lookup and assembly into the whole code transformation of `p8tool build --lua main.lua`
(`ReqWalk.buildLua`, compared byte for byte with real builds by the correspondence). -/
section concrete
open Pico.Lex Pico.Peg Pico.Gram Pico.ReqWalk

/-- **C14.walk_reports_all**: the walker reports the `require(...)` calls of a tree in source order — every outermost
one, validated — up to and including the first one with unusable arguments (where it raises). -/
theorem walk_reports_all (toks : Array Tok) (t : Tree) :
    walk toks t = throughFirstError ((reqNodes toks t).map (callOf toks)) := by
  exact walk_eq toks t

/-- **C14.call_accepted_iff**: a `require` call is accepted exactly when it has a parenthesised argument list of one
string literal, or of a string literal and the option table `{use_game_loop=<true|false>}`; then the reported path is
the literal's value and the reported option is the table's (default false). -/
theorem call_accepted_iff (toks : Array Tok) (args : List Tree) (p : Bytes) (b : Bool) :
    callOf toks args = .ok (p, b) ↔
      ∃ s e acs s2 e2 es, args = [.node kFunctionArgs s e acs] ∧ acs.filter isNode = [.node kExpList s2 e2 es] ∧
        ((∃ a, es.filter isNode = [a] ∧ stringOf toks a = some p ∧ b = false) ∨
         (∃ a o, es.filter isNode = [a, o] ∧ stringOf toks a = some p ∧ optionOf toks o = some b)) := by
  exact callOf_ok_iff toks args p b

/-- **C14.bad_call_is_error**: every other argument shape is an error entry (which `arg_error_fails` turns into a
failed build). -/
theorem bad_call_is_error (toks : Array Tok) (args : List Tree) :
    (∃ p b, callOf toks args = .ok (p, b)) ∨ callOf toks args = .error .build := by
  exact callOf_ok_or_build toks args

/-- **C14.strip_ranges**: the token ranges removed from a package are exactly the spans of its top-level
`function NAME(...)` statements for which `stripsStat` holds, in source order. -/
theorem strip_ranges (toks : Array Tok) (s0 e0 : Nat) (cs : List Tree) (s e : Nat) :
    (s, e) ∈ stripRanges toks [.node kChunk s0 e0 cs] ↔
      ∃ kwLeaf fn rest np m, Tree.node kStatFunction s e (.leaf kwLeaf :: fn :: rest) ∈ cs ∧
        funcNameParts toks fn = some (np, m) ∧ stripsStat np m = true := by
  exact mem_stripRanges_chunk toks s0 e0 cs s e

/-- **C14.kept_package_untouched**: with `{use_game_loop=true}` the package's tokens are those of its source. -/
theorem kept_package_untouched (src : List Bytes) : packageCode true src = Lex.lex src := by
  exact packageCode_true src

/-- **C14.nothing_to_strip**: a package without game-loop functions keeps its tokens. -/
theorem nothing_to_strip (src : List Bytes) (toks : List Tok) (ts : List Tree)
    (hl : Lex.lex src = .ok toks) (hp : parse toks = .ok ts) (hn : stripRanges toks.toArray ts = []) :
    packageCode false src = .ok toks := by
  exact packageCode_nothing src toks ts hl hp hn

/-- **C14.build_is_composition**: a successful build is: lex the main file, discover its calls, evaluate them against
the world made of the concrete files (so `once`, `all_registered`, `registered_from_lookup` apply to `pkgs`), take
each registered package's (stripped) code, assemble, re-lex; the result is the echo of those tokens. -/
theorem build_is_composition (fs : Files) (main : Nat) (lp : Path.P) (code : Bytes) (h : buildLua fs main lp = .ok code) :
    ∃ mpath src mainToks calls pkgs bodies toks,
      fs[main]? = some (mpath, src) ∧ Lex.lex src = .ok mainToks ∧ requireCalls mainToks = .ok calls ∧
      evalCalls (worldOf fs lp) (4 * fs.length + 4 * calls.length + 16) calls main [] = .ok pkgs ∧
      bodies.map (·.1) = pkgs.map (·.name) ∧
      (∀ q ∈ pkgs, ∃ path psrc ptoks, fs[q.file]? = some (path, psrc) ∧ packageCode q.keepLoop psrc = .ok ptoks ∧
          (q.name, Wr.echo ptoks) ∈ bodies) ∧
      Lex.lex [assembleCode bodies (Wr.echo mainToks)] = .ok toks ∧ code = Wr.echo toks := by
  exact buildLua_ok fs main lp code h

/-- **C14.build_registers_once**: in a successful build no package name is registered twice. -/
theorem build_registers_once (fs : Files) (main : Nat) (lp : Path.P) (calls : List Call) (pkgs : List Pkg) (fuel : Nat)
    (h : evalCalls (worldOf fs lp) fuel calls main [] = .ok pkgs) : (pkgs.map (·.name)).Nodup := by
  exact evalCalls_nodup _ fuel calls main [] pkgs h List.nodup_nil

/-- **C14.located_under_load_path**: every registered package's file is one of the load path's candidates for its
name, relative to the directory of a file that required it (C12's candidate list). -/
theorem located_under_load_path (fs : Files) (main : Nat) (lp : Path.P) (calls : List Call) (pkgs : List Pkg) (fuel : Nat)
    (h : evalCalls (worldOf fs lp) fuel calls main [] = .ok pkgs) :
    ∀ q ∈ pkgs, ∃ (from_ : Nat) (fromPath : Path.P) (fsrc : List Bytes) (c : Path.P), fs[from_]? = some (fromPath, fsrc) ∧
      c ∈ requireCandidates (bytesToPath q.name) (Path.dirname fromPath) lp ∧ fileIdx fs c = some q.file := by
  intro q hq
  rcases evalCalls_from_lookup _ fuel calls main [] pkgs h q hq with hq' | ⟨from_, hl⟩
  · cases hq'
  · obtain ⟨fromPath, fsrc, c, hf, hc, hi⟩ := worldOf_locate fs lp q.name from_ q.file hl
    exact ⟨from_, fromPath, fsrc, c, hf, hc, hi⟩

example : (match Lex.lex ["print(require(\"a\"))\nrequire(\"b\", {use_game_loop=true})\n".toUTF8.toList] with
    | .ok ts => (match requireCalls ts with
        | .ok cs => cs.length == 2 && (cs.all fun c => !isErr c)
        | .error _ => false)
    | .error _ => false) = true := by decide +kernel


end concrete

end Pico.C14
