import PicoVerif.Model.PicoGrammar
import PicoVerif.Lemmas.PegCover
import PicoVerif.Lemmas.PegFence
import PicoVerif.Lemmas.PegFuel
/-! C08 — the parser consumes its input token by token and builds the tree it denotes.

The recursive-descent parser is modelled as grammar *data* (`Gram.gram`, a transcription of parser.py checked by
the correspondence) run by one generic interpreter (`Peg.run`). The theorems below are proved once for EVERY
grammar and every token array, then read at picotool's grammar.  Not claimed as a theorem: that every program of
the dialect is accepted to its last token (parser completeness) — that part is correspondence-tested. -/
namespace Pico.C08
open Pico.Peg Pico.Lex

/-- the parse of a whole token array with picotool's grammar -/
def parse (toks : Array Tok) (fuel : Nat) : Res := run Gram.gram toks fuel (.nt Gram.nChunk) { pos := 0, maxPos := none }

/-- the regenerated operator tables are the ones the grammar transcription was written against -/
theorem operator_tables :
    Gen.binopPats.map (·.2) = ["&", "|", "^^", "<<", ">>", ">>>", "<<>", ">><", "\\", "<", ">", "<=", ">=", "~=", "!=", "==", "..",
      "+", "-", "*", "/", "%", "^", "and", "or"].map (·.toUTF8.toList) ∧
    Gen.unopPats.map (·.2) = ["-", "#", "~", "@", "%", "$", "not"].map (·.toUTF8.toList) := by decide +kernel

/-! ### the grammar transcription against the syntax tree of parser.py

`Gen.parserCensus` / `Gen.parserClassCensus` are regenerated on every run from the *syntax tree* of parser.py: for every parser
method the token literals (`lexer.TokSymbol(b'+=')`, …) and token classes (`lexer.TokName`, …) it mentions. The grammar data
`Gram.gram` is a hand transcription; the theorem below pins it to that census: per method (group), the set of literals and the set
of classes are exactly those of the corresponding nonterminal(s) of the transcription (operators come from the regenerated
`BINOP_PATS` / `UNOP_PATS` tables and are left out on the grammar side). An alternative added to, removed from or re-spelled in
a parser method breaks this obligation whether or not any generated program exercises it. -/

def kindName : Kind → String
  | .keyword => "keyword" | .symbol => "symbol" | .name => "name" | .number => "number" | .string => "string"
  | .label => "label" | .space => "space" | .newline => "newline" | .comment => "comment"

/-- every pattern a grammar expression mentions, look-behind and look-ahead included -/
def allPats : G → List Pat
  | .eps => [] | .tok p => [p]
  | .seq a b => allPats a ++ allPats b | .alt a b => allPats a ++ allPats b
  | .star g => allPats g | .nt _ => [] | .hard g => allPats g | .node _ g => allPats g
  | .chain f s => allPats f ++ allPats s | .fence g => allPats g
  | .prevTokIs p => [p] | .notAhead g => allPats g | .filterTop _ g => allPats g

def gramLits (ns : List Nat) : List (String × List UInt8) :=
  (ns.flatMap fun n => allPats (Gram.gram n)).filterMap fun p =>
    match p with
    | .exact k d => if (Gen.binopPats ++ Gen.unopPats).contains (kindName k, d) && (ns.contains Gram.nExp || ns.contains Gram.nExpTerm)
                    then none else some (kindName k, d)
    | .kind _ => none

def gramKinds (ns : List Nat) : List String :=
  (ns.flatMap fun n => allPats (Gram.gram n)).filterMap fun p =>
    match p with
    | .kind k => some (kindName k)
    | .exact _ _ => none

def srcLits (ms : List String) : List (String × List UInt8) :=
  ms.flatMap fun m => (Gen.parserCensus.filter (·.1 == m)).flatMap (·.2)

def srcKinds (ms : List String) : List String :=
  (ms.flatMap fun m => (Gen.parserClassCensus.filter (·.1 == m)).flatMap (·.2)).filter
    fun k => !(["space", "newline", "comment"].contains k)

def sameSet {α} [BEq α] (a b : List α) : Bool := a.all b.contains && b.all a.contains

/-- parser methods and the nonterminals of the transcription they correspond to -/
def methodMap : List (List String × List Nat) := [
  (["_chunk"], [Gram.nChunk]), (["_stat"], [Gram.nStat]), (["_laststat"], [Gram.nLastStat]), (["_funcname"], [Gram.nFuncName]),
  (["_varlist"], [Gram.nVarList]), (["_var"], [Gram.nVar]), (["_namelist"], [Gram.nNameList]), (["_explist"], [Gram.nExpList]),
  (["_exp", "_exp_binop"], [Gram.nExp]), (["_exp_term"], [Gram.nExpTerm]), (["_prefixexp", "_prefixexp_recur"], [Gram.nPrefixExp]),
  (["_functioncall"], [Gram.nFunctionCall]), (["_args"], [Gram.nArgs]), (["_function"], [Gram.nFunction]),
  (["_funcbody"], [Gram.nFuncBody]), (["_tableconstructor"], [Gram.nTableCons]), (["_field"], [Gram.nField])]

/-- **C08.census_matches_grammar**: per parser method, the token literals and token classes that parser.py's syntax tree mentions
are exactly those of the grammar transcription; and no method with token literals is left out of the map. -/
theorem census_matches_grammar :
    methodMap.all (fun (ms, ns) => sameSet (srcLits ms) (gramLits ns) && sameSet (srcKinds ms) (gramKinds ns)) = true ∧
    (Gen.parserCensus.all fun (m, ls) => ls.isEmpty || methodMap.any fun (ms, _) => ms.contains m) = true := by
  decide +kernel

/-- **C08.cover** (every grammar): a successful run returns trees whose leaves, read in order, are exactly the
significant tokens of the consumed range — no token skipped, none used twice, operands and operators in source order. -/
theorem cover (gram : Nat → G) (toks : Array Tok) (fuel : Nat) (g : G) (st st' : PSt) (ts : List Tree)
    (h : run gram toks fuel g st = .ok (some (ts, st'))) :
    st.pos ≤ st'.pos ∧ leavesL ts = sigIdx toks st.pos st'.pos :=
  (Peg.cover gram toks fuel).1 g st ts st' h

/-- **C08.pico_cover**: the tree picotool's parser builds contains every significant token up to where it
stopped, exactly once and in order. -/
theorem pico_cover (toks : Array Tok) (fuel : Nat) (ts : List Tree) (st' : PSt)
    (h : parse toks fuel = .ok (some (ts, st'))) : leavesL ts = sigIdx toks 0 st'.pos :=
  (cover Gram.gram toks fuel _ _ _ _ h).2

/-- **C08.fence_restored** (every grammar): whatever is parsed — nested short-ifs included — leaves the short-if
limit exactly as it found it, and every token taken while a limit is in force lies before it. -/
theorem fence_restored (gram : Nat → G) (toks : Array Tok) (fuel : Nat) (g : G) (st st' : PSt) (ts : List Tree)
    (h : run gram toks fuel g st = .ok (some (ts, st'))) :
    st'.maxPos = st.maxPos ∧ ∀ b, st.maxPos = some b → ∀ i ∈ leavesL ts, i < b :=
  (Peg.fence_inv gram toks fuel).1 g st ts st' h

/-- **C08.shortif_extent** (every grammar, every invocation, any nesting): the body of a short-form `if (cond) ...`
— the part parsed under the fence, including its `else` part — consists only of tokens before the first newline
token that follows the condition. -/
theorem shortif_extent (gram : Nat → G) (toks : Array Tok) (fuel : Nat) (g : G) (st st' : PSt) (ts : List Tree)
    (h : run gram toks (fuel + 1) (.fence g) st = .ok (some (ts, st'))) :
    ∀ i ∈ leavesL ts, i < nextNewline toks st.pos :=
  Peg.fence_body_before_newline gram toks fuel g st ts st' h

/-- **C08.fuel_independent** (every grammar): the interpreter's fuel is not part of the answer. Every error of an inner run is
passed on unchanged, so a result that is not the fuel error was computed without any inner run reaching the limit, and every
larger fuel gives the same result. (The harness never sees the fuel error from the model at the fuel it uses; this theorem
says that the answers it does see are the answers for every larger fuel, too.) -/
theorem fuel_independent (gram : Nat → G) (toks : Array Tok) (f f' : Nat) (h : f ≤ f') (g : G) (st : PSt)
    (hne : run gram toks f g st ≠ .error .fuel) : run gram toks f' g st = run gram toks f g st :=
  Peg.run_fuel_le gram toks f f' h g st hne

/-- **C08.parse_fuel_independent**: picotool's parse of a token array does not depend on the fuel once it is not the fuel error. -/
theorem parse_fuel_independent (toks : Array Tok) (f f' : Nat) (h : f ≤ f') (hne : parse toks f ≠ .error .fuel) :
    parse toks f' = parse toks f :=
  Peg.run_fuel_le Gram.gram toks f f' h _ _ hne

/-- non-vacuity: `if (a) b=1 ⏎ c=2` parses, the short-if owns tokens 0..8 and the next statement follows it -/
def demoToks : Array Tok := #[
  { kind := .keyword, data := "if".toUTF8.toList }, { kind := .space, data := [32] }, { kind := .symbol, data := [40] },
  { kind := .name, data := [97] }, { kind := .symbol, data := [41] }, { kind := .space, data := [32] },
  { kind := .name, data := [98] }, { kind := .symbol, data := [61] }, { kind := .number, data := [49] },
  { kind := .newline, data := [10] }, { kind := .name, data := [99] }, { kind := .symbol, data := [61] }, { kind := .number, data := [50] }]
example : (match parse demoToks 400 with
    | .ok (some ([.node _ 0 13 (.node k 0 9 _ :: _)], st)) => k == Gram.kStatIfShort && st.pos == 13
    | _ => false) = true := by decide +kernel

end Pico.C08
