import PicoVerif.Model.PicoGrammar
import PicoVerif.Lemmas.PegCover
import PicoVerif.Lemmas.PegFence
/-! C08 — the parser consumes its input token by token and builds the tree it denotes.

The recursive-descent parser is modelled as grammar *data* (`Gram.gram`, a transcription of parser.py checked by
the correspondence) run by one generic interpreter (`Peg.run`). The theorems below are proved once for EVERY
grammar and every token array, then read at picotool's grammar.  Not claimed as a theorem: that every program of
the dialect is accepted to its last token (parser completeness) — that part is correspondence-tested. -/
namespace Pico.C08
open Pico.Peg Pico.Lex

/-- the parse of a whole token array with picotool's grammar -/
def parse (toks : Array Tok) (fuel : Nat) : Res := run Gram.gram toks fuel (.nt Gram.nChunk) { pos := 0, maxPos := none }

/-- the regenerated operator tables are the ones the grammar transcription was written against -/
theorem operator_tables :
    Gen.binopPats.map (·.2) = ["&", "|", "^^", "<<", ">>", ">>>", "<<>", ">><", "\\", "<", ">", "<=", ">=", "~=", "!=", "==", "..",
      "+", "-", "*", "/", "%", "^", "and", "or"].map (·.toUTF8.toList) ∧
    Gen.unopPats.map (·.2) = ["-", "#", "~", "@", "%", "$", "not"].map (·.toUTF8.toList) := by decide +kernel

/-- **C08.cover** (every grammar): a successful run returns trees whose leaves, read in order, are exactly the
significant tokens of the consumed range — no token skipped, none used twice, operands and operators in source order. -/
theorem cover (gram : Nat → G) (toks : Array Tok) (fuel : Nat) (g : G) (st st' : PSt) (ts : List Tree)
    (h : run gram toks fuel g st = .ok (some (ts, st'))) :
    st.pos ≤ st'.pos ∧ leavesL ts = sigIdx toks st.pos st'.pos :=
  (Peg.cover gram toks fuel).1 g st ts st' h

/-- **C08.pico_cover**: the tree picotool's parser builds contains every significant token up to where it
stopped, exactly once and in order. -/
theorem pico_cover (toks : Array Tok) (fuel : Nat) (ts : List Tree) (st' : PSt)
    (h : parse toks fuel = .ok (some (ts, st'))) : leavesL ts = sigIdx toks 0 st'.pos :=
  (cover Gram.gram toks fuel _ _ _ _ h).2

/-- **C08.fence_restored** (every grammar): whatever is parsed — nested short-ifs included — leaves the short-if
limit exactly as it found it, and every token taken while a limit is in force lies before it. -/
theorem fence_restored (gram : Nat → G) (toks : Array Tok) (fuel : Nat) (g : G) (st st' : PSt) (ts : List Tree)
    (h : run gram toks fuel g st = .ok (some (ts, st'))) :
    st'.maxPos = st.maxPos ∧ ∀ b, st.maxPos = some b → ∀ i ∈ leavesL ts, i < b :=
  (Peg.fence_inv gram toks fuel).1 g st ts st' h

/-- **C08.shortif_extent** (every grammar, every invocation, any nesting): the body of a short-form `if (cond) ...`
— the part parsed under the fence, including its `else` part — consists only of tokens before the first newline
token that follows the condition. -/
theorem shortif_extent (gram : Nat → G) (toks : Array Tok) (fuel : Nat) (g : G) (st st' : PSt) (ts : List Tree)
    (h : run gram toks (fuel + 1) (.fence g) st = .ok (some (ts, st'))) :
    ∀ i ∈ leavesL ts, i < nextNewline toks st.pos :=
  Peg.fence_body_before_newline gram toks fuel g st ts st' h

/-- non-vacuity: `if (a) b=1 ⏎ c=2` parses, the short-if owns tokens 0..8 and the next statement follows it -/
def demoToks : Array Tok := #[
  { kind := .keyword, data := "if".toUTF8.toList }, { kind := .space, data := [32] }, { kind := .symbol, data := [40] },
  { kind := .name, data := [97] }, { kind := .symbol, data := [41] }, { kind := .space, data := [32] },
  { kind := .name, data := [98] }, { kind := .symbol, data := [61] }, { kind := .number, data := [49] },
  { kind := .newline, data := [10] }, { kind := .name, data := [99] }, { kind := .symbol, data := [61] }, { kind := .number, data := [50] }]
example : (match parse demoToks 400 with
    | .ok (some ([.node _ 0 13 (.node k 0 9 _ :: _)], st)) => k == Gram.kStatIfShort && st.pos == 13
    | _ => false) = true := by decide +kernel

end Pico.C08
