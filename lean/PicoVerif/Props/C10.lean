import PicoVerif.Model.AstWriters
import PicoVerif.Lemmas.C10
import PicoVerif.Lemmas.C10b
import PicoVerif.Props.C09
/-! C10 — luafmt output is canonical.  Theorems about `normRun`, the formatter's regex pipeline as a function: what
`LuaFormatterWriter` writes for one run of space/newline/comment tokens (width `w`, indent level `d` in force,
`atStart`/`atEnd` = the run starts / ends the token stream).  The whole output is these rendered runs interleaved
with the tokens' codes (C09.output_shape); the indent level is a function of the tree (`walkInd`).
PARTIAL: lifting run-level layout independence to whole programs needs "the tree depends only on the significant
tokens and newline gaps", which is correspondence-tested, not proved. -/
namespace Pico.C10
open Pico.Ast Pico.Lex

def isWs (b : UInt8) : Bool := b == 32 || b == 9 || b == 13 || b == 10
def indentOf (w d : Nat) : Bytes := List.replicate (w * d) 32

/-- **C10.no_trailing_ws**: in a rendered run no line ends in whitespace: a line feed is never preceded by a space,
a tab or a carriage return. -/
theorem no_trailing_ws (w d : Nat) (s e : Bool) (r : Bytes) (i : Nat)
    (h : (normRun w d s e r)[i + 1]? = some 10) :
    (normRun w d s e r)[i]? ≠ some 32 ∧ (normRun w d s e r)[i]? ≠ some 9 ∧ (normRun w d s e r)[i]? ≠ some 13 := by
  obtain ⟨hc, hn, _⟩ := normRun_good w d s e r
  refine ⟨NoSpLF_index _ hn i h, ?_, ?_⟩
  · intro h9; exact (hc 9 (List.mem_of_getElem? h9)).1 rfl
  · intro h13; exact (hc 13 (List.mem_of_getElem? h13)).2 rfl

/-- **C10.blank_lines**: a rendered run never contains more than one blank line in a row (three line feeds). -/
theorem blank_lines (w d : Nat) (s e : Bool) (r : Bytes) (i : Nat) :
    ¬ ((normRun w d s e r)[i]? = some 10 ∧ (normRun w d s e r)[i + 1]? = some 10 ∧ (normRun w d s e r)[i + 2]? = some 10) := by
  exact NoTriple_index _ (normRun_good w d s e r).2.2.2.2 i

/-- **C10.no_blank_at_end**: the run that ends the file is rendered without trailing spaces or blank lines: it ends
in at most one line feed, preceded by neither a space nor a line feed. -/
theorem no_blank_at_end (w d : Nat) (s : Bool) (r : Bytes) :
    let out := normRun w d s true r
    out.getLast? ≠ some 32 ∧ (∀ body, out = body ++ [10] → body.getLast? ≠ some 10 ∧ body.getLast? ≠ some 32) := by
  intro out
  have ho : out = normRun w d s true r := rfl
  rw [normRun_eq, endRun_true] at ho
  obtain ⟨pre, t, _, hp, _, e'⟩ := subTrailing_cases (collapseLF (if s then subAllSpaces (subFinalIndent (List.replicate (w * d) 32)
    (midRun (w * d) s (dropSpacesBeforeLF (normBreaks r)))) else subFinalIndent (List.replicate (w * d) 32)
    (midRun (w * d) s (dropSpacesBeforeLF (normBreaks r)))))
  rw [e'] at ho
  clear_value out
  subst ho
  by_cases hc : t.contains 10 = true
  · simp only [hc, if_true]
    refine ⟨by simp, ?_⟩
    intro body hb
    have := List.append_cancel_right hb
    subst this; exact ⟨hp.2, hp.1⟩
  · have hc' : t.contains 10 = false := by simpa using hc
    simp only [hc', Bool.false_eq_true, if_false, List.append_nil]
    refine ⟨hp.1, ?_⟩
    intro body hb
    exact absurd (by rw [hb]; simp) hp.2

/-- **C10.indent_exact**: when the code token after the run begins a line (the run's last line is blank), the
rendered run ends with a line feed followed by exactly `width x depth` spaces. -/
theorem indent_exact (w d : Nat) (s : Bool) (pre : Bytes) (k : Nat) (hpre : pre.getLast? ≠ some 13) :
    ∃ body, normRun w d s false (pre ++ [10] ++ List.replicate k 32) = body ++ [10] ++ indentOf w d ∧ body.getLast? ≠ some 32 := by
  exact normRun_indent w d s pre k hpre

/-- **C10.idempotent**: rendering an already rendered run changes nothing (formatting formatted code is stable). -/
theorem idempotent (w d : Nat) (s e : Bool) (r : Bytes) :
    normRun w d s e (normRun w d s e r) = normRun w d s e r := by
  exact normRun_idem w d s e r

/-- **C10.trailing_space_invariant**: spaces and tabs at the end of an input line do not influence the output. -/
theorem trailing_space_invariant (w d : Nat) (s e : Bool) (a ws b : Bytes) (hws : ws.all (fun c => c == 32 || c == 9) = true)
    (ha : a.getLast? ≠ some 13) :
    normRun w d s e (a ++ ws ++ [10] ++ b) = normRun w d s e (a ++ [10] ++ b) := by
  exact normRun_trailing w d s e a ws b hws ha

/-- **C10.leading_space_invariant**: how an input line that is blank, a comment line (`--` or PICO-8's `//`) or the
code line after the run is indented does not influence the output. -/
theorem leading_space_invariant (w d : Nat) (s e : Bool) (a ws b : Bytes) (hws : ws.all (fun c => c == 32 || c == 9) = true)
    (hb : b = [] ∨ [45, 45].isPrefixOf b = true ∨ [47, 47].isPrefixOf b = true ∨ b.head? = some 10) :
    normRun w d s e (a ++ [10] ++ ws ++ b) = normRun w d s e (a ++ [10] ++ b) := by
  apply normRun_leading w d s e a ws b hws
  rcases hb with hb | hb | hb | hb
  · exact Or.inl hb
  · obtain ⟨r, hr⟩ := (isPrefixOf_dashes b).mp hb
    exact Or.inr (Or.inl ⟨45, r, Or.inl rfl, hr⟩)
  · obtain ⟨r, hr⟩ := (isPrefixOf_slashes b).mp hb
    exact Or.inr (Or.inl ⟨47, r, Or.inr rfl, hr⟩)
  · cases b with
    | nil => simp at hb
    | cons c b => simp at hb; exact Or.inr (Or.inr ⟨b, by rw [hb]⟩)

/-- **C10.comment_lines_indented**: a comment that starts a line (`--` or `//`, however it was indented) is written
at exactly `width x depth` spaces. -/
theorem comment_lines_indented (w d : Nat) (s e : Bool) (a ws m b : Bytes) (hws : ws.all (fun c => c == 32 || c == 9) = true)
    (hm : m = [45, 45] ∨ m = [47, 47]) :
    ∃ pre post, normRun w d s e (a ++ [10] ++ ws ++ m ++ b) = pre ++ [10] ++ indentOf w d ++ m ++ post := by
  rcases hm with rfl | rfl
  · exact normRun_comment_line w d s e a ws b 45 hws (Or.inl rfl)
  · exact normRun_comment_line w d s e a ws b 47 hws (Or.inr rfl)

/-- where the trivia run in front of the `k`-th walked token starts: right after the previous walked token -/
def runStart (walk : List (Nat × Nat)) (k : Nat) : Nat := if k = 0 then 0 else (walk.getD (k - 1) (0, 0)).1 + 1

/-- **C10.line_start_indent_whole**: in the WHOLE text `luafmt` writes, every significant token that begins a line of the
input (the trivia in front of it ends with a line feed followed by blanks only) stands right after a line feed and
exactly `width x depth` spaces, `depth` being the level the tree walk (`walkInd`) assigns to it.  (Composition of the
run-level theorem with C09.whole_output; the level itself is compared with an independent nesting count by the
harness.) -/
theorem line_start_indent_whole (w : Nat) (toks : List Tok) (out : Bytes) (h : luafmt w toks = .ok out) :
    ∃ ts st', Peg.run Gram.gram toks.toArray (50 * toks.toArray.size + 200) (.nt Gram.nChunk) { pos := 0, maxPos := none } = .ok (some (ts, st')) ∧
      ∀ (k i d : Nat), (ts.flatMap fun t => walkInd toks.toArray t 0)[k]? = some (i, d) →
        ∀ pre ws, runText toks.toArray (runStart (ts.flatMap fun t => walkInd toks.toArray t 0) k) i = pre ++ [10] ++ ws →
          ws.all (fun c => c == 32 || c == 9) = true → pre.getLast? ≠ some 13 →
          ∃ a b, out = a ++ [10] ++ indentOf w d ++ (toks.toArray.getD i default).code ++ b := by
  obtain ⟨ts, st', hrun, ha⟩ := astWrite_ok_walk _ toks out h
  refine ⟨ts, st', hrun, ?_⟩
  intro k i d hk pre ws hrt hws hpre
  obtain ⟨a, b, hab⟩ := assemble_nth _ _ _ 0 [] out ha k i d hk
  have hp : runStartFrom (ts.flatMap fun t => walkInd toks.toArray t 0) 0 k =
      runStart (ts.flatMap fun t => walkInd toks.toArray t 0) k := rfl
  rw [hp, hrt] at hab
  obtain ⟨body, hb⟩ := normRun_line_start w d (runStart (ts.flatMap fun t => walkInd toks.toArray t 0) k == 0) pre ws hws hpre
  rw [hb] at hab
  exact ⟨a ++ body, b, by rw [hab]; simp only [indentOf, List.append_assoc]⟩

example : normRun 2 1 false false "x\n\t // c \n    ".toUTF8.toList = "x\n  // c\n  ".toUTF8.toList := by decide +kernel
example : normRun 2 1 false false "  \n\n\n\t-- c \n    ".toUTF8.toList = "\n\n  -- c\n  ".toUTF8.toList := by decide +kernel
example : normRun 2 1 false false "\n\n".toUTF8.toList = "\n\n  ".toUTF8.toList := by decide +kernel   -- blank line stays empty (defect 25)

/-- **C10.fmt_pipeline_known**: the sequence of regular-expression substitutions of `LuaFormatterWriter._get_code_for_spaces`, read from
the syntax tree of lua.py on every run (`Gen.fmtPipelines`: pattern, constant replacement and any further argument — a count, flags — of every `re.sub`, in source order), is the
one `normRun` transcribes: tab → space; CR LF, LF CR, CR → LF; trailing spaces; the comment-leading substitutions for `--` and `//`;
the end-of-input ones; blank-line runs; the final trailing-blank rule. An edit of that list (a pattern widened, two rules merged or
reordered) breaks this obligation at once, whether or not a generated program shows a difference. -/
theorem fmt_pipeline_known : Gen.fmtPipelines = [
  ("LuaFormatterWriter._get_code_for_spaces", [("sub", [92, 116], some [32]),
    ("sub", [92, 114, 92, 110], some [10]),
    ("sub", [92, 110, 92, 114], some [10]),
    ("sub", [92, 114], some [10]),
    ("sub", [32, 43, 92, 110], some [10]),
    ("sub", [94, 32, 42, 45, 45], some [32, 32, 45, 45]),
    ("sub", [92, 110, 32, 42, 40, 45, 45, 124, 47, 47, 41], none),
    ("sub", [94, 32, 42, 40, 45, 45, 124, 47, 47, 41], some [92, 49]),
    ("sub", [92, 110, 32, 42, 92, 90], none),
    ("sub", [94, 32, 42, 92, 90], some []),
    ("sub", [92, 110, 92, 110, 43], some [10, 10]),
    ("sub", [91, 32, 92, 110, 93, 43, 36], none)])] := by rfl

end Pico.C10
