import PicoVerif.Model.AstWriters
namespace Pico.C10
theorem placeholder : True := trivial
end Pico.C10
