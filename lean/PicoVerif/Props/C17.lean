import PicoVerif.Model.Accessors
import PicoVerif.Lemmas.C17
/-! C17 — section accessors read back what was set and touch nothing else.
Each setter is characterised completely against the plain documented semantics: what every getter
returns afterwards (pixel grid / cell grid / flags / note fields / channel), the frame condition
(every byte not addressed is unchanged), size preservation, and absence of errors in contract. -/
namespace Pico.C17
open Pico.Acc Pico.Sections

/-! ### sprite sheet as a 128x128 pixel grid -/

/-- documented effect of `set_sprite`: the value (if any) the sprite paints at sheet pixel (qx, qy) -/
def painted (sprite : List (List Nat)) (fx fy qx qy : Nat) : Option Nat :=
  if qx < fx ∨ qy < fy then none else
  match sprite[qy - fy]? with
  | none => none
  | some row => match row[qx - fx]? with
    | some v => if v = 16 then none else some v
    | none => none

/-- **C17.set_pixel**: painting one pixel changes that pixel and no other, and keeps the size. -/
theorem set_pixel (gfx : Bytes) (px py : Nat) (v : UInt8) (hl : gfx.length = 0x2000)
    (hx : px < 128) (hy : py < 128) (hv : v < 16) :
    ∃ g', setPixel gfx px py v = .ok g' ∧ g'.length = 0x2000 ∧
      ∀ qx qy, qx < 128 → qy < 128 →
        pixelAt g' qx qy = if qx = px ∧ qy = py then .ok v else pixelAt gfx qx qy := by
  exact setPixel_spec gfx px py v hl hx hy hv

/-- **C17.set_sprite**: `set_sprite` paints exactly the sprite's non-transparent pixels that fall on the
sheet (clipped at the right and bottom edges: no wrap into another row, no error) and changes nothing else. -/
theorem set_sprite (gfx : Bytes) (id xo yo : Nat) (sprite : List (List Nat)) (hl : gfx.length = 0x2000)
    (hv : ∀ row ∈ sprite, ∀ v ∈ row, v ≤ 16) :
    ∃ g', setSprite gfx id sprite xo yo = .ok g' ∧ g'.length = 0x2000 ∧
      ∀ qx qy, qx < 128 → qy < 128 →
        pixelAt g' qx qy =
          match painted sprite (id % 16 * 8 + xo) (id / 16 * 8 + yo) qx qy with
          | some v => .ok v.toUInt8
          | none => pixelAt gfx qx qy := by
  obtain ⟨g', e, l, f⟩ := setSpriteRows_spec (id % 16 * 8 + xo) (id / 16 * 8 + yo) sprite 0 gfx hl hv
  refine ⟨g', e, l, fun qx qy hqx hqy => ?_⟩
  have hp : painted sprite (id % 16 * 8 + xo) (id / 16 * 8 + yo) qx qy =
      sprPaint sprite (id % 16 * 8 + xo) (id / 16 * 8 + yo) qx qy := by
    unfold painted sprPaint rowPaint
    by_cases h1 : qy < id / 16 * 8 + yo
    · simp [h1]
    · by_cases h2 : qx < id % 16 * 8 + xo
      · simp only [h1, h2, or_false, if_true, if_false]
        cases sprite[qy - (id / 16 * 8 + yo)]? <;> rfl
      · simp only [h1, h2, or_false, if_false]
        cases sprite[qy - (id / 16 * 8 + yo)]? with
        | none => rfl
        | some row =>
          dsimp only
          cases row[qx - (id % 16 * 8 + xo)]? <;> rfl
  rw [f qx qy hqx hqy, hp]
  rfl

/-- the pixel grid determines the sheet: two sheets with the same 128x128 pixels are equal
(so the pixel-wise statements above are frame conditions on bytes too) -/
theorem pixels_determine (g1 g2 : Bytes) (h1 : g1.length = 0x2000) (h2 : g2.length = 0x2000)
    (h : ∀ qx qy, qx < 128 → qy < 128 → pixelAt g1 qx qy = pixelAt g2 qx qy) : g1 = g2 := by
  exact pixels_determine_aux g1 g2 h1 h2 h

/-- **C17.get_sprite**: pixel (r, c) of the returned sprite is the sheet pixel, or 0 off the sheet. -/
theorem get_sprite (gfx : Bytes) (id tw th : Nat) (hl : gfx.length = 0x2000) (hid : id ≤ 255)
    (htw : 1 ≤ tw) (hth : 1 ≤ th) :
    ∃ rows, getSprite gfx id tw th = .ok rows ∧ rows.length = 8 * th ∧
      ∀ r, r < 8 * th → ∃ row, rows[r]? = some row ∧ row.length = 8 * tw ∧
        ∀ c, c < 8 * tw →
          (.ok (row.getD c 0) : Except Err UInt8) =
            if id % 16 * 8 + c < 128 ∧ id / 16 * 8 + r < 128 then pixelAt gfx (id % 16 * 8 + c) (id / 16 * 8 + r)
            else .ok 0 := by
  exact getSprite_spec gfx id tw th hl hid htw hth

/-! ### map: 128x64 cells, rows 32..63 aliased to gfx bytes 0x1000.. -/

def MG.WF (s : MG) : Prop := s.map.length = 0x1000 ∧ s.gfx.length = 0x2000

/-- **C17.set_cell**: sets that cell; every other cell, and every gfx byte below 0x1000, is unchanged. -/
theorem set_cell (s : MG) (x y v : Nat) (h : MG.WF s) (hx : x ≤ 127) (hy : y ≤ 63) (hv : v ≤ 255) :
    ∃ s', setCell s x y v = .ok s' ∧ MG.WF s' ∧
      (∀ x' y', x' ≤ 127 → y' ≤ 63 →
        getCell s' x' y' = if x' = x ∧ y' = y then .ok v.toUInt8 else getCell s x' y') ∧
      (∀ i, i < 0x1000 → s'.gfx[i]? = s.gfx[i]?) := by
  obtain ⟨s', h1, h2, h3, h4⟩ := setCell_spec s x y v h.1 h.2 hx hy hv
  exact ⟨s', h1, ⟨h2, h3⟩, h4⟩

/-- the value (if any) a rectangle written at (x, y) puts into cell (qx, qy) -/
def rectVal (rect : List (List Nat)) (x y qx qy : Nat) : Option Nat :=
  if qx < x ∨ qy < y then none else
  match rect[qy - y]? with
  | none => none
  | some row => row[qx - x]?

/-- **C17.set_rect_tiles**: writes exactly the cells of the rectangle that fall on the 128x64 map (clipped,
no error, no other cell altered), sprite pixels above the shared half untouched. -/
theorem set_rect_tiles (s : MG) (x y : Nat) (rect : List (List Nat)) (h : MG.WF s)
    (hv : ∀ row ∈ rect, ∀ v ∈ row, v ≤ 255) :
    ∃ s', setRectTiles x y rect 0 s = .ok s' ∧ MG.WF s' ∧
      (∀ qx qy, qx ≤ 127 → qy ≤ 63 →
        getCell s' qx qy = match rectVal rect x y qx qy with
          | some v => .ok v.toUInt8
          | none => getCell s qx qy) ∧
      (∀ i, i < 0x1000 → s'.gfx[i]? = s.gfx[i]?) := by
  obtain ⟨s', e, lm, lg, f, fr⟩ := setRectTiles_spec x y rect 0 s h.1 h.2 hv
  refine ⟨s', e, ⟨lm, lg⟩, fun qx qy hqx hqy => ?_, fr⟩
  have hp : rectVal rect x y qx qy = rectPaint rect x (0 + y) qx qy := by
    rw [Nat.zero_add]
    unfold rectVal rectPaint rectRow
    by_cases h1 : qy < y
    · simp [h1]
    · by_cases h2 : qx < x
      · simp only [h1, h2, or_false, if_true, if_false]
        cases rect[qy - y]? <;> rfl
      · simp only [h1, h2, or_false, if_false]
        try (cases rect[qy - y]? <;> rfl)
  rw [f qx qy hqx hqy, hp]
  rfl

/-- **C17.get_rect_tiles**: cell (qx, qy) of the map, or 0 to the right of the map. -/
theorem get_rect_tiles (s : MG) (x y w h : Nat) (hs : MG.WF s) (hx : x ≤ 127) (hw : 1 ≤ w) (hh : 1 ≤ h)
    (hy : y + h ≤ 64) :
    ∃ rows, getRectTiles s x y w h = .ok rows ∧ rows.length = h ∧
      ∀ r, r < h → ∃ row, rows[r]? = some row ∧ row.length = w ∧
        ∀ c, c < w → (.ok (row.getD c 0) : Except Err UInt8) =
          if x + c ≤ 127 then getCell s (x + c) (y + r) else .ok 0 := by
  exact getRectTiles_spec s x y w h hs.1 hs.2 hx hw hh hy

/-! ### flags -/

/-- **C17.flags**: set / clear / reset act bitwise on that sprite's flag byte only. -/
theorem flags (gff : Bytes) (id fl : Nat) (h : gff.length = 0x100) (hid : id ≤ 255) :
    ∃ b, gff[id]? = some b ∧
      setFlags gff id fl = .ok (gff.set id (b ||| (fl % 256).toUInt8)) ∧
      clearFlags gff id fl = .ok (gff.set id (b &&& ~~~ (fl % 256).toUInt8)) ∧
      resetFlags gff id fl = .ok (gff.set id (fl % 256).toUInt8) ∧
      getFlags gff id fl = .ok (b.toNat &&& fl) := by
  have hlt : id < gff.length := by omega
  exact ⟨gff[id], List.getElem?_eq_getElem hlt, flags_all gff id fl hlt hid⟩

/-! ### sfx -/

/-- **C17.set_note**: after `set_note` the note reads back with the given fields replaced and the others kept;
only the note's two bytes may change. -/
theorem set_note (sfx : Bytes) (id note : Nat) (p w v e : Option Nat) (h : sfx.length = 0x1100)
    (hid : id ≤ 63) (hn : note ≤ 31) (hp : p.getD 0 ≤ 63) (hw : w.getD 0 ≤ 15) (hv : v.getD 0 ≤ 7) (he : e.getD 0 ≤ 7) :
    ∃ s' old, sfxSetNote sfx id note p w v e = .ok s' ∧ s'.length = 0x1100 ∧
      sfxGetNote sfx id note = .ok old ∧
      sfxGetNote s' id note = .ok ((p.map (·.toUInt8)).getD old.1, (w.map (·.toUInt8)).getD old.2.1,
                                   (v.map (·.toUInt8)).getD old.2.2.1, (e.map (·.toUInt8)).getD old.2.2.2) ∧
      ∀ i, i ≠ id * 68 + note * 2 → i ≠ id * 68 + note * 2 + 1 → s'[i]? = sfx[i]? := by
  obtain ⟨s', old, h1, h2, h3⟩ := sfxSetNote_spec sfx id note p w v e (by omega) hp hw hv he
  exact ⟨s', old, h1, by omega, h3⟩

/-- **C17.set_props**: the four header bytes of a pattern. -/
theorem set_props (sfx : Bytes) (id : Nat) (a b c d : Option Nat) (h : sfx.length = 0x1100) (hid : id ≤ 63)
    (ha : a.getD 0 ≤ 255) (hb : b.getD 0 ≤ 255) (hc : c.getD 0 ≤ 255) (hd : d.getD 0 ≤ 255) :
    ∃ s' old, sfxSetProps sfx id a b c d = .ok s' ∧ s'.length = 0x1100 ∧
      sfxGetProps sfx id = .ok old ∧
      sfxGetProps s' id = .ok ((a.map (·.toUInt8)).getD old.1, (b.map (·.toUInt8)).getD old.2.1,
                               (c.map (·.toUInt8)).getD old.2.2.1, (d.map (·.toUInt8)).getD old.2.2.2) ∧
      ∀ i, (i < id * 68 + 64 ∨ i > id * 68 + 67) → s'[i]? = sfx[i]? := by
  obtain ⟨s', old, h1, h2, h3⟩ := sfxSetProps_spec sfx id a b c d (by omega) ha hb hc hd
  exact ⟨s', old, h1, by omega, h3⟩

/-! ### music -/

/-- **C17.set_channel**: the channel reads back; the pattern's loop flag in that byte and all other bytes are kept. -/
theorem set_channel (mus : Bytes) (id ch : Nat) (pat : Option Nat) (h : mus.length = 0x100) (hid : id ≤ 63)
    (hch : ch ≤ 3) (hp : pat.getD 0 ≤ 63) :
    ∃ m' b, musSetChannel mus id ch pat = .ok m' ∧ m'.length = 0x100 ∧ mus[id * 4 + ch]? = some b ∧
      musGetChannel m' id ch = .ok pat ∧
      (m'.getD (id * 4 + ch) 0) &&& 0x80 = b &&& 0x80 ∧
      ∀ i, i ≠ id * 4 + ch → m'[i]? = mus[i]? := by
  have hlt : id * 4 + ch < mus.length := by omega
  obtain ⟨m', h1, h2, h3, h4, h5⟩ := setChannel_spec mus id ch pat hlt hid hch hp
  exact ⟨m', mus[id * 4 + ch], h1, by omega, List.getElem?_eq_getElem hlt, h3, h4, h5⟩

/-- **C17.set_music_props**: flags read back; channel numbers (low 7 bits) and all other bytes are kept. -/
theorem set_music_props (mus : Bytes) (id : Nat) (bg en st : Option Bool) (h : mus.length = 0x100) (hid : id ≤ 63) :
    ∃ m' old, musSetProps mus id bg en st = .ok m' ∧ m'.length = 0x100 ∧
      musGetProps mus id = .ok old ∧
      musGetProps m' id = .ok (bg.getD old.1, en.getD old.2.1, st.getD old.2.2) ∧
      (∀ i, i < 0x100 → (m'.getD i 0) &&& 0x7f = (mus.getD i 0) &&& 0x7f) ∧
      ∀ i, (i < id * 4 ∨ i > id * 4 + 2) → m'[i]? = mus[i]? := by
  exact musSetProps_spec mus id bg en st h hid

end Pico.C17
