import PicoVerif.Model.P8scii
/-! C15 — P8SCII <-> Unicode is a bijection on all byte strings.
Property theorems only; every fact about the concrete table `Gen.p8scii` (regenerated from
/repo on every run) is a `decide +kernel` side condition. -/
namespace Pico.C15
open Pico.P8scii

def tbl : Table := Gen.p8scii
def spellings : List (List Nat) := tbl.map (·.2)

/-- the table has one row per byte value -/
theorem table_256 : tbl.length = 256 := by decide +kernel

/-- row `i` is the row for code `i` (the converter indexes by position) -/
theorem indices : tbl.map (·.1) = List.range 256 := by decide +kernel

/-- each of the 256 characters has a distinct Unicode spelling -/
theorem nodup : spellings.Nodup := by decide +kernel

def prefixFreeB : Bool := spellings.all fun a => spellings.all fun b => !(a.isPrefixOf b) || a == b
/-- no spelling is a prefix of another -/
theorem prefix_free : prefixFreeB = true := by decide +kernel

def scalarsB : Bool := spellings.all fun s => !s.isEmpty && s.all validScalar
/-- every spelling is non-empty and consists of Unicode scalar values (so it encodes as UTF-8) -/
theorem scalars_valid : scalarsB = true := by decide +kernel

def rowOK (i : Nat) : Bool :=
  let s := spelling tbl i
  match s with
  | [] => false
  | c :: _ => lookupWidth tbl c == some s.length && lookupCode tbl s == some i
def rowsB : Bool := (List.range 256).all rowOK
/-- decoding one character: the width looked up by first code point is the spelling's length and
the spelling maps back to its own code (this is what can break when a spelling is duplicated or
two spellings with the same first code point have different lengths) -/
theorem width_well_defined : rowsB = true := by decide +kernel

theorem row (b : UInt8) : rowOK b.toNat = true :=
  all_range width_well_defined b.toNat b.toNat_lt

theorem toP8F_toUnicode (bs : Bytes) : ∀ fuel, bs.length < fuel →
    toP8F tbl fuel (toUnicode tbl bs) = some (bs.map (·.toNat)) := by
  induction bs with
  | nil => intro fuel h; cases fuel with
    | zero => omega
    | succ f => simp [toUnicode, toP8F]
  | cons b bs ih =>
    intro fuel h
    cases fuel with
    | zero => omega
    | succ f =>
      have hr := row b
      unfold rowOK at hr
      simp only [toUnicode, List.flatMap_cons] at *
      cases hs : spelling tbl b.toNat with
      | nil => simp [hs] at hr
      | cons c cs =>
        simp only [hs, Bool.and_eq_true, beq_iff_eq] at hr
        obtain ⟨hw, hc⟩ := hr
        have htake : (c :: cs ++ List.flatMap (fun b => spelling tbl b.toNat) bs).take (c :: cs).length = c :: cs := by
          rw [List.take_left']; rfl
        have hdrop : (c :: cs ++ List.flatMap (fun b => spelling tbl b.toNat) bs).drop (c :: cs).length
            = List.flatMap (fun b => spelling tbl b.toNat) bs := by
          rw [List.drop_left']; rfl
        have hlen : (c :: cs).length ≠ 0 := by simp
        rw [List.cons_append] at htake hdrop
        simp only [List.cons_append, toP8F, hw, htake, hc, hdrop, hlen, if_false]
        rw [ih f (by simp at h; omega)]
        simp

/-- **C15.roundtrip**: converting any P8SCII byte string to Unicode and back returns the bytes. -/
theorem length_le (bs : Bytes) : bs.length ≤ (toUnicode tbl bs).length := by
  induction bs with
  | nil => simp
  | cons b bs ih =>
    have hr := row b
    unfold rowOK at hr
    simp only [toUnicode, List.flatMap_cons, List.length_append, List.length_cons] at *
    cases hs : spelling tbl b.toNat with
    | nil => simp [hs] at hr
    | cons c cs => simp only [List.length_cons]; omega

/-- **C15.roundtrip**: converting any P8SCII byte string to Unicode and back returns the bytes. -/
theorem roundtrip (bs : Bytes) : toP8 tbl (toUnicode tbl bs) = some (bs.map (·.toNat)) := by
  unfold toP8
  apply toP8F_toUnicode
  have := length_le bs
  omega

/-- **C15.unambiguous**: two byte strings with the same Unicode text are equal. -/
theorem unambiguous (a b : Bytes) (h : toUnicode tbl a = toUnicode tbl b) : a = b := by
  have ha := roundtrip a
  have hb := roundtrip b
  rw [h, hb] at ha
  have := Option.some.inj ha
  exact ((List.map_inj_right (fun x y hxy => UInt8.toNat_inj.mp hxy)).mp this).symm

theorem spelling_valid (b : UInt8) : (spelling tbl b.toNat).all validScalar = true := by
  have h := scalars_valid
  unfold scalarsB at h
  rw [List.all_eq_true] at h
  have hlt : b.toNat < tbl.length := by rw [table_256]; exact b.toNat_lt
  have hmem : spelling tbl b.toNat ∈ spellings := by
    unfold spelling spellings
    rw [List.getElem?_eq_getElem hlt]
    simp only [Option.map_some, Option.getD_some]
    exact List.mem_map.mpr ⟨tbl[b.toNat], List.getElem_mem hlt, rfl⟩
  have := h _ hmem
  simp only [Bool.and_eq_true] at this
  exact this.2

/-- **C15.utf8_ok**: the Unicode text of any byte string consists of valid scalar values. -/
theorem utf8_ok (bs : Bytes) : (toUnicode tbl bs).all validScalar = true := by
  induction bs with
  | nil => rfl
  | cons b bs ih =>
    simp only [toUnicode, List.flatMap_cons, List.all_append, Bool.and_eq_true] at *
    exact ⟨spelling_valid b, ih⟩

/-- non-vacuity: a concrete string with control, ASCII, glyph and two-code-point characters -/
example : toP8 tbl (toUnicode tbl [0, 65, 0x83, 0x8e, 255]) = some [0, 65, 0x83, 0x8e, 255] := by decide +kernel

end Pico.C15
