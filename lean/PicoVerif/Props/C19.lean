import PicoVerif.Model.Writers
import PicoVerif.Spec.LuaLex
import PicoVerif.Lemmas.C19
/-! C19 — luamin keeps the title and author comments that PICO-8 reads. -/
namespace Pico.C19
open Pico.Lex Pico.Wr

/-- the comments that precede any code -/
def leadComments : List Tok → List Tok
  | [] => []
  | t :: rest => if t.kind = .comment then t :: leadComments rest else if t.trivia then leadComments rest else []

/-- the header luamin must keep: the first two of them -/
def hdr (toks : List Tok) : List Tok := (leadComments toks).take 2

/-- a comment token as the lexer produces it: a `--`/`//` line comment without a line feed, or a block
comment `--[[ ... ]]` whose first `]]` after the opener is its end -/
def WFComment (t : Tok) : Prop :=
  t.kind = .comment ∧
  ((([45, 45].isPrefixOf t.data ∨ [47, 47].isPrefixOf t.data) ∧ ¬ [45, 45, 91, 91].isPrefixOf t.data ∧ (10 : UInt8) ∉ t.data) ∨
   (∃ body, t.data = [45, 45, 91, 91] ++ body ++ [93, 93] ∧ findSub [93, 93] (body ++ [93, 93]) 0 = some body.length))

theorem leadComments_eq (toks : List Tok) : leadComments toks = C19L.leadC toks := by
  induction toks with
  | nil => rfl
  | cons t ts ih => simp only [leadComments, C19L.leadC, ih]

/-- **C19.header**: the first two comments that precede any code appear verbatim, in order, each on its
own line, at the very top of the luamin output — for every configuration. -/
theorem header (cfg : NameCfg) (toks : List Tok) :
    ∃ body, minify cfg toks = (hdr toks).flatMap (fun t => t.code ++ [10]) ++ body := by
  obtain ⟨st, rest, e, -, -⟩ := C19L.scan cfg toks {} rfl rfl
  obtain ⟨prev', e'⟩ := C19L.join_header Tok.code (hdr toks) (minChunks cfg st rest) [] (Or.inl rfl)
  refine ⟨joinChunks prev' (minChunks cfg st rest), ?_⟩
  rw [← e', minify, e]
  simp [hdr, leadComments_eq]

/-- **C19.header_lexes_back**: under the lexical grammar a kept comment followed by the line feed luamin adds
reads back as exactly that comment and then a newline, whatever follows — so the title and byline PICO-8 and
`stats` derive from the first tokens survive. -/
theorem header_lexes_back (t : Tok) (h : WFComment t) (rest : Bytes) :
    Spec.Lex.lexOne (t.code ++ [10] ++ rest) = some ({ kind := .comment, data := t.data }, t.data.length) ∧
    Spec.Lex.lexOne ([10] ++ rest) = some ({ kind := .newline, data := [10] }, 1) := by
  refine ⟨?_, C19L.lexOne_lf rest⟩
  obtain ⟨hk, h⟩ := h
  have hc : t.code = t.data := by simp [Tok.code, hk]
  rw [hc]
  rcases h with ⟨hp, hb, hlf⟩ | ⟨body, hd, hf⟩
  · exact C19L.lexOne_line_comment t.data rest hp hb hlf
  · rw [hd]; exact C19L.lexOne_block_comment body rest hf

/-- **C19.later_comments_dropped**: once two header comments were kept or code was seen, a comment token
produces no output and leaves the writer's state unchanged — it can never turn into code. -/
theorem later_comments_dropped (cfg : NameCfg) (st : MinSt) (t : Tok) (hk : t.kind = .comment)
    (h : st.seenCode = true ∨ st.hdr ≥ 2) : minStep cfg st t = (st, []) :=
  C19L.minStep_comment_dropped cfg st t hk h

/-- **C19.only_header_comments**: every chunk luamin emits for a comment token is one of the header
comments: the chunk list is the header chunks followed by chunks of non-comment tokens only. -/
theorem only_header_comments (cfg : NameCfg) (toks : List Tok) :
    ∃ st rest, minChunks cfg {} toks = (hdr toks).flatMap (fun t => [t.code, [10]]) ++ minChunks cfg st rest ∧
      (st.seenCode = true ∨ st.hdr ≥ 2 ∨ rest = []) ∧ (∃ pre, toks = pre ++ rest) := by
  simpa [hdr, leadComments_eq] using C19L.scan cfg toks {} rfl rfl

example : hdr [{ kind := .space, data := [32] }, { kind := .comment, data := [45, 45, 97] }, { kind := .newline, data := [10] },
               { kind := .name, data := [120] }, { kind := .comment, data := [45, 45, 98] }]
    = [{ kind := .comment, data := [45, 45, 97] }] := by decide

end Pico.C19
