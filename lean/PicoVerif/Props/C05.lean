import PicoVerif.Model.Compress
import PicoVerif.Spec.Stream
import PicoVerif.Lemmas.C05
/-! C05 — code compression is lossless and emits only well-formed `:c:` streams. -/
namespace Pico.C05
open Pico.Compress

/-- facts about the regenerated character table the proofs rest on: 60 entries, so block bytes start at
0x3c and `offset / 16 + 60 ≤ 255` for offsets up to the 3120-byte window -/
theorem table_ok : Gen.charTable.length = 60 ∧ tableLen = 60 ∧ maxHistLen = 3120 := by decide

/-- the regenerated table IS the 60-entry literal table of the PICO-8 `:c:` format (index 0 is the escape marker), and
the compatibility suffixes are the ones PICO-8 appends: a reordered or edited table breaks this obligation -/
theorem table_is_format :
    -- the 60 characters  # LF space 0-9 a-z ! # % ( ) { } [ ] < > + = / * : ; . , ~ _
    Gen.charTable = [35, 10, 32, 48, 49, 50, 51, 52, 53, 54, 55, 56, 57, 97, 98, 99, 100, 101, 102, 103, 104, 105, 106, 107, 108, 109, 110, 111, 112, 113, 114, 115, 116, 117, 118, 119, 120, 121, 122, 33, 35, 37, 40, 41, 123, 125, 91, 93, 60, 62, 43, 61, 47, 42, 58, 59, 46, 44, 126, 95] ∧
    -- "if(_update60)_update=function()_update60()_update60()end"
    Gen.futureCode1 = [105, 102, 40, 95, 117, 112, 100, 97, 116, 101, 54, 48, 41, 95, 117, 112, 100, 97, 116, 101, 61, 102, 117, 110, 99, 116, 105, 111, 110, 40, 41, 95, 117, 112, 100, 97, 116, 101, 54, 48, 40, 41, 95, 117, 112, 100, 97, 116, 101, 54, 48, 40, 41, 101, 110, 100] ∧
    -- "if(_update60)_update=function()_update60()_update_buttons()_update60()end"
    Gen.futureCode2 = [105, 102, 40, 95, 117, 112, 100, 97, 116, 101, 54, 48, 41, 95, 117, 112, 100, 97, 116, 101, 61, 102, 117, 110, 99, 116, 105, 111, 110, 40, 41, 95, 117, 112, 100, 97, 116, 101, 54, 48, 40, 41, 95, 117, 112, 100, 97, 116, 101, 95, 98, 117, 116, 116, 111, 110, 115, 40, 41, 95, 117, 112, 100, 97, 116, 101, 54, 48, 40, 41, 101, 110, 100] := by
  decide +kernel

/-- a literal's table index decodes to that literal: `literalIndex b = i ≠ 0 → table[i] = b`, and `i < 60` -/
theorem literal_index_ok (b : UInt8) :
    literalIndex b < 60 ∧ (literalIndex b ≠ 0 → Gen.charTable[literalIndex b]? = some b) := by
  exact literalIndex_spec b

/-- **C05.find_block_spec**: the block `_find_repeatable_block` returns is a real repeat inside the window. -/
theorem find_block_spec (dat : Array UInt8) (pos : Nat) (hpos : pos < dat.size) :
    let r := findBlock dat pos
    r.1 ≤ 17 ∧ pos + r.1 ≤ dat.size ∧
    (r.1 ≥ 3 → 1 ≤ r.2 ∧ r.2 ≤ min pos 3120 ∧ r.1 ≤ r.2.toNat ∧
      ∀ k, k < r.1 → dat.getD (pos - r.2.toNat + k) 0 = dat.getD (pos + k) 0) := by
  exact findBlock_spec dat pos hpos

/-- **C05.compress_wf**: every stream the producer emits is well formed by the format description. -/
theorem compress_wf (t : Bytes) : Spec.wellFormed (compress t) = true := by
  simp [Spec.wellFormed, refDecode_compress]

/-- **C05.ref_roundtrip**: the independent decoder recovers the compressed text (with PICO-8's suffix). -/
theorem ref_roundtrip (t : Bytes) : Spec.refDecode (compress t) = some (withSuffix t) := by
  exact refDecode_compress t

/-- the decoder loop run on a stream placed after an 8-byte header, up to `n` output bytes -/
def decodeBody (s : Bytes) (n : Nat) : Except Err Bytes :=
  let cd := (List.replicate 8 (0 : UInt8) ++ s).toArray
  match decodeLoop cd n (cd.size + 1) ⟨8, #[]⟩ with
  | .ok st => .ok st.out.toList
  | .error e => .error e

/-- **C05.impl_agrees**: on every well-formed stream — whichever matches a producer chose, overlapping
blocks included — picotool's decoder loop returns the reference decoder's output, cut at `n` bytes. -/
theorem impl_agrees (s full : Bytes) (n : Nat) (h : Spec.refDecode s = some full) :
    decodeBody s n = .ok (full.take n) := by
  unfold Spec.refDecode at h
  cases hr : Spec.refDecodeAux s #[] with
  | none => simp [hr] at h
  | some fa =>
    simp only [hr, Option.map_some, Option.some.injEq] at h
    subst h
    obtain ⟨st, hst, hout⟩ := decodeLoop_body s fa n hr
    unfold decodeBody
    simp only [hst, hout]

/-- what the proof of the end-to-end round trip needs from the text: the length fits the 16-bit header, and
the text does not itself end with one of PICO-8's compatibility suffixes (the decoder strips those: the
format cannot tell them from the suffix PICO-8 appends). Each conjunct is replayed on the real code. -/
def Guard (t : Bytes) : Prop :=
  t.length < 65536 ∧ ¬ Gen.futureCode1.isSuffixOf t = true ∧ ¬ Gen.futureCode2.isSuffixOf t = true

/-- **C05.area_roundtrip**: decoding the code area picotool writes (header and stream) returns the text. -/
theorem area_roundtrip (t : Bytes) (h : Guard t) (pad : Bytes) :
    ∃ sz, decompress (header t ++ compress t ++ pad) = .ok (t.length, t, sz) := by
  exact decompress_area t h.1 h.2.1 h.2.2 pad

/-- non-vacuity / regression anchors -/
example : Spec.refDecode [Gen.charTable.idxOf 97 |>.toUInt8, 0x3c, 0x31] = some [97, 97, 97, 97, 97, 97] := by decide +kernel

end Pico.C05
