import PicoVerif.Model.ToFile
/-! C11 — a failed cart write never damages the file already at the destination.
PARTIAL BY NATURE: the model is the write protocol of `file.to_file`; it cannot exhibit operating-system behaviour
(a crash between the truncation and the final copy, ENOSPC during the copy).  The property quantifies over encoder
failures, which the model covers for every failure point. -/
namespace Pico.C11
open Pico.ToFile

/-- **C11.fail_preserves**: if producing the cart fails at any point — before the first write or after any number
of writes — the destination is exactly as before: an existing file keeps its bytes, a missing one is not created. -/
theorem fail_preserves (ws : List Bytes) (readsLabel : Bool) (dest : Option Bytes) :
    (toFile (.raises ws) readsLabel dest).dest = dest ∧ (toFile (.raises ws) readsLabel dest).ok = false := by
  simp [toFile]

theorem pre_no_dest (readsLabel : Bool) (dest : Option Bytes) (ws : List Bytes) :
    ∀ op ∈ ([Op.destExists] ++ (if readsLabel ∧ dest.isSome then [Op.destRead] else [])) ++ ws.map Op.tempWrite,
      op.touchesDest = false := by
  intro op h
  simp only [List.mem_append, List.mem_map] at h
  rcases h with (h | h) | ⟨b, _, rfl⟩
  · simp at h; subst h; rfl
  · split at h
    · simp at h; subst h; rfl
    · simp at h
  · rfl

/-- **C11.no_dest_op_on_failure**: on failure no operation that creates, truncates or writes the destination occurs. -/
theorem no_dest_op_on_failure (ws : List Bytes) (readsLabel : Bool) (dest : Option Bytes) :
    ∀ op ∈ (toFile (.raises ws) readsLabel dest).trace, op.touchesDest = false := by
  simpa [toFile] using pre_no_dest readsLabel dest ws

/-- **C11.success_replaces**: on success the destination holds exactly what the encoder wrote. -/
theorem success_replaces (ws : List Bytes) (readsLabel : Bool) (dest : Option Bytes) :
    (toFile (.returns ws) readsLabel dest).dest = some ws.flatten ∧ (toFile (.returns ws) readsLabel dest).ok = true := by
  simp [toFile]

/-- **C11.dest_ops_last**: in every run the operations that touch the destination (truncate/create, write) are the
very last ones: everything the encoder does — all its writes — comes before them, and they occur only if it returned. -/
theorem dest_ops_last (enc : Enc) (readsLabel : Bool) (dest : Option Bytes) :
    ∃ pre, (∀ op ∈ pre, op.touchesDest = false) ∧
      (toFile enc readsLabel dest).trace = pre ++
        (match enc with
         | .returns ws => [Op.tempSeek0, Op.destOpenTruncate, Op.destWrite ws.flatten]
         | .raises _ => []) := by
  cases enc with
  | raises ws => exact ⟨_, pre_no_dest readsLabel dest ws, by simp [toFile]⟩
  | returns ws => exact ⟨_, pre_no_dest readsLabel dest ws, by simp [toFile]⟩

example : (toFile (.raises [[1, 2]]) true (some [9])).dest = some [9] := by decide
example : (toFile (.returns [[1], [2]]) false none).dest = some [1, 2] := by decide

end Pico.C11
