import PicoVerif.Model.ToFile
/-! C11 — a failed cart write never damages the file already at the destination.
PARTIAL BY NATURE: the model is the write protocol of `file.to_file`; it cannot exhibit operating-system behaviour
(a crash between the truncation and the final copy, ENOSPC during the copy).  The property quantifies over encoder
failures, which the model covers for every failure point. -/
namespace Pico.C11
open Pico.ToFile

/-- **C11.fail_preserves**: if producing the cart fails at any point — before the first write or after any number
of writes — the destination is exactly as before: an existing file keeps its bytes, a missing one is not created. -/
theorem fail_preserves (ws : List Bytes) (readsLabel : Bool) (dest : Option Bytes) :
    (toFile (.raises ws) readsLabel dest).dest = dest ∧ (toFile (.raises ws) readsLabel dest).ok = false := by
  simp [toFile]

theorem pre_no_dest (readsLabel : Bool) (dest : Option Bytes) (ws : List Bytes) :
    ∀ op ∈ ([Op.destExists] ++ (if readsLabel ∧ dest.isSome then [Op.destRead] else [])) ++ ws.map Op.tempWrite,
      op.touchesDest = false := by
  intro op h
  simp only [List.mem_append, List.mem_map] at h
  rcases h with (h | h) | ⟨b, _, rfl⟩
  · simp at h; subst h; rfl
  · split at h
    · simp at h; subst h; rfl
    · simp at h
  · rfl

/-- **C11.no_dest_op_on_failure**: on failure no operation that creates, truncates or writes the destination occurs. -/
theorem no_dest_op_on_failure (ws : List Bytes) (readsLabel : Bool) (dest : Option Bytes) :
    ∀ op ∈ (toFile (.raises ws) readsLabel dest).trace, op.touchesDest = false := by
  simpa [toFile] using pre_no_dest readsLabel dest ws

/-- **C11.success_replaces**: on success the destination holds exactly what the encoder wrote. -/
theorem success_replaces (ws : List Bytes) (readsLabel : Bool) (dest : Option Bytes) :
    (toFile (.returns ws) readsLabel dest).dest = some ws.flatten ∧ (toFile (.returns ws) readsLabel dest).ok = true := by
  simp [toFile]

/-- **C11.dest_ops_last**: in every run the operations that touch the destination (truncate/create, write) are the
very last ones: everything the encoder does — all its writes — comes before them, and they occur only if it returned. -/
theorem dest_ops_last (enc : Enc) (readsLabel : Bool) (dest : Option Bytes) :
    ∃ pre, (∀ op ∈ pre, op.touchesDest = false) ∧
      (toFile enc readsLabel dest).trace = pre ++
        (match enc with
         | .returns ws => [Op.tempSeek0, Op.destOpenTruncate, Op.destWrite ws.flatten]
         | .raises _ => []) := by
  cases enc with
  | raises ws => exact ⟨_, pre_no_dest readsLabel dest ws, by simp [toFile]⟩
  | returns ws => exact ⟨_, pre_no_dest readsLabel dest ws, by simp [toFile]⟩

example : (toFile (.raises [[1, 2]]) true (some [9])).dest = some [9] := by decide
example : (toFile (.returns [[1], [2]]) false none).dest = some [1, 2] := by decide

end Pico.C11

namespace Pico.C11
open Pico.ToFile

theorem get_set_self (s : Store) (p : String) (c : Bytes) : (Store.set s p c).get p = some c := by
  simp [Store.get, Store.set]

theorem get_set_ne (s : Store) (p q : String) (c : Bytes) (h : q ≠ p) : (Store.set s p c).get q = s.get q := by
  have hpq : (p == q) = false := by
    simp only [beq_eq_false_iff_ne, ne_eq]; exact fun e => h e.symm
  simp only [Store.get, Store.set, List.find?_cons, hpq]
  congr 1
  induction s with
  | nil => rfl
  | cons a t ih =>
    by_cases ha : a.1 = p
    · have h1 : (a.1 == q) = false := by
        simp only [beq_eq_false_iff_ne, ne_eq]; exact fun e => h (e.symm.trans ha)
      simp [ha, hpq, ih]
    · by_cases hq : a.1 = q
      · simp [h, hq]
      · simp [ha, hq, ih]

theorem toFile_returns (ws : List Bytes) (l : Bool) (d : Option Bytes) :
    (toFile (.returns ws) l d).ok = true ∧ (toFile (.returns ws) l d).dest = some ws.flatten := by
  simp [toFile]

theorem toFile_raises (ws : List Bytes) (l : Bool) (d : Option Bytes) :
    (toFile (.raises ws) l d).ok = false ∧ (toFile (.raises ws) l d).dest = d := by
  simp [toFile]

theorem pgf_notcart (ow : Bool) (c : CartArg) (rest : List CartArg) (s : Store) (err : Bool) (h : c.cart = false) :
    processGameFiles ow (c :: rest) s err = processGameFiles ow rest s err := by
  simp [processGameFiles, h]

theorem pgf_skip (ow : Bool) (c : CartArg) (rest : List CartArg) (s : Store) (err : Bool) (hc : c.cart = true) (h : c.loads = false) :
    processGameFiles ow (c :: rest) s err = processGameFiles ow rest s true := by
  simp [processGameFiles, h, hc]

theorem pgf_returns (ow : Bool) (c : CartArg) (rest : List CartArg) (s : Store) (err : Bool) (ws : List Bytes)
    (hc : c.cart = true) (h : c.loads = true) (he : c.enc = .returns ws) :
    processGameFiles ow (c :: rest) s err = processGameFiles ow rest (s.set (outName ow c) ws.flatten) err := by
  simp [processGameFiles, h, hc, he, toFile_returns]

theorem pgf_raises (ow : Bool) (c : CartArg) (rest : List CartArg) (s : Store) (err : Bool) (ws : List Bytes)
    (hc : c.cart = true) (h : c.loads = true) (he : c.enc = .raises ws) :
    processGameFiles ow (c :: rest) s err = (s, .raised) := by
  simp [processGameFiles, h, hc, he, toFile_raises]

/-- **C11.cli_never_removes**: whatever carts a command line names and whichever of them fail, no file that existed before
the command is missing afterwards. -/
theorem cli_never_removes (ow : Bool) (cs : List CartArg) (s : Store) (err : Bool) (p : String) (h : (s.get p).isSome) :
    ((processGameFiles ow cs s err).1.get p).isSome := by
  induction cs generalizing s err with
  | nil => simpa [processGameFiles] using h
  | cons c rest ih =>
    cases hk : c.cart with
    | false => rw [pgf_notcart ow c rest s err hk]; exact ih s err h
    | true =>
    cases hl : c.loads with
    | false => rw [pgf_skip ow c rest s err hk hl]; exact ih s true h
    | true =>
      cases he : c.enc with
      | raises ws => rw [pgf_raises ow c rest s err ws hk hl he]; exact h
      | returns ws =>
        rw [pgf_returns ow c rest s err ws hk hl he]
        apply ih
        by_cases hq : p = outName ow c
        · rw [hq, get_set_self]; rfl
        · rw [get_set_ne _ _ _ _ hq]; exact h

/-- **C11.cli_failure_keeps_everything_from_there**: when a cart's write raises, the store is exactly what the carts before
it produced: the failing cart's destination — its own input with `--overwrite` — and everything else are untouched. -/
theorem cli_failure_stops (ow : Bool) (pre : List CartArg) (c : CartArg) (post : List CartArg) (s : Store) (err : Bool) (ws : List Bytes)
    (hpre : ∀ q ∈ pre, q.cart = false ∨ q.loads = false ∨ ∃ w, q.enc = .returns w) (hk : c.cart = true) (hl : c.loads = true) (hc : c.enc = .raises ws) :
    (processGameFiles ow (pre ++ c :: post) s err).2 = .raised ∧
    (processGameFiles ow (pre ++ c :: post) s err).1 = (processGameFiles ow pre s err).1 := by
  induction pre generalizing s err with
  | nil =>
    rw [List.nil_append, pgf_raises ow c post s err ws hk hl hc]
    simp [processGameFiles]
  | cons q rest ih =>
    have hrest : ∀ q ∈ rest, q.cart = false ∨ q.loads = false ∨ ∃ w, q.enc = .returns w :=
      fun x hx => hpre x (List.mem_cons_of_mem _ hx)
    rw [List.cons_append]
    cases hqk : q.cart with
    | false =>
      rw [pgf_notcart ow q _ s err hqk, pgf_notcart ow q _ s err hqk]
      exact ih s err hrest
    | true =>
    cases hql : q.loads with
    | false =>
      rw [pgf_skip ow q _ s err hqk hql, pgf_skip ow q _ s err hqk hql]
      exact ih s true hrest
    | true =>
      rcases hpre q (List.mem_cons_self ..) with h0 | h0 | ⟨w, hw⟩
      · rw [hqk] at h0; cases h0
      · rw [hql] at h0; cases h0
      · rw [pgf_returns ow q _ s err w hqk hql hw, pgf_returns ow q _ s err w hqk hql hw]
        exact ih _ err hrest

/-- **C11.cli_only_destinations_change**: a path that is not the output name of a loadable cart keeps its content (in particular an
argument that is not a cart name changes nothing and shifts nothing: every cart is written under its own output name). -/
theorem cli_only_destinations_change (ow : Bool) (cs : List CartArg) (s : Store) (err : Bool) (p : String)
    (hp : ∀ c ∈ cs, c.cart = true → c.loads = true → outName ow c ≠ p) :
    (processGameFiles ow cs s err).1.get p = s.get p := by
  induction cs generalizing s err with
  | nil => simp [processGameFiles]
  | cons c rest ih =>
    have hrest : ∀ c ∈ rest, c.cart = true → c.loads = true → outName ow c ≠ p :=
      fun x hx => hp x (List.mem_cons_of_mem _ hx)
    cases hk : c.cart with
    | false => rw [pgf_notcart ow c rest s err hk]; exact ih s err hrest
    | true =>
    cases hl : c.loads with
    | false => rw [pgf_skip ow c rest s err hk hl]; exact ih s true hrest
    | true =>
      cases he : c.enc with
      | raises ws => rw [pgf_raises ow c rest s err ws hk hl he]
      | returns ws =>
        rw [pgf_returns ow c rest s err ws hk hl he, ih _ err hrest]
        exact get_set_ne _ _ _ _ (fun e => hp c (List.mem_cons_self ..) hk hl e.symm)

end Pico.C11
