import PicoVerif.Model.CartMem
import PicoVerif.Lemmas.C18
/-! C18 — raw cart-memory writes land at the addressed bytes and only there. -/
namespace Pico.C18
open Pico.CartMem

/-- the regenerated memory map is the PICO-8 one: five contiguous regions from 0 to 0x4300 -/
theorem memmap_ok : Gen.memmap = [(0, 0x2000, "gfx"), (0x2000, 0x3000, "map"), (0x3000, 0x3100, "gff"),
    (0x3100, 0x3200, "music"), (0x3200, 0x4300, "sfx")] ∧ Gen.cartEnd = 0x4300 := by decide

/-- **C18.sizes**: every region keeps its size. -/
theorem sizes (m : Mem) (d : Bytes) (a : Nat) (h : m.WF) (m' : Mem)
    (hw : writeCartData m d a = .ok m') : m'.WF := by
  rw [((writeCartData_ok_iff m d a m').mp hw).2]
  exact writeAll_WF m d a h

/-- **C18.spec**: a write inside the cart changes exactly the addressed bytes to the data. -/
theorem spec (m : Mem) (d : Bytes) (a : Nat) (h : m.WF) (hfit : a + d.length ≤ 0x4300) :
    ∃ m', writeCartData m d a = .ok m' ∧
      m'.flat = m.flat.take a ++ d ++ m.flat.drop (a + d.length) := by
  exact ⟨_, (writeCartData_ok_iff m d a _).mpr ⟨hfit, rfl⟩, writeAll_flat m d a h hfit⟩

/-- **C18.pointwise**: byte `i` of memory afterwards is the data byte if addressed, else unchanged. -/
theorem pointwise (m : Mem) (d : Bytes) (a : Nat) (h : m.WF) (hfit : a + d.length ≤ 0x4300) (m' : Mem)
    (hw : writeCartData m d a = .ok m') (i : Nat) :
    m'.flat[i]? = if a ≤ i ∧ i < a + d.length then d[i - a]? else m.flat[i]? := by
  rw [((writeCartData_ok_iff m d a m').mp hw).2]
  exact writeAll_flat_getElem? m d a h hfit i

/-- **C18.reject**: a write that would pass 0x4300 is rejected (and, being a pure function, modifies nothing). -/
theorem reject (m : Mem) (d : Bytes) (a : Nat) (h : a + d.length > 0x4300) :
    writeCartData m d a = .error .value := by
  unfold writeCartData
  exact if_pos h

/-- a sequence of writes -/
def writes (m : Mem) : List (Bytes × Nat) → Except Err Mem
  | [] => .ok m
  | (d, a) :: rest => do let m' ← writeCartData m d a; writes m' rest

def specWrites (f : Bytes) : List (Bytes × Nat) → Bytes
  | [] => f
  | (d, a) :: rest => specWrites (f.take a ++ d ++ f.drop (a + d.length)) rest

/-- **C18.history**: any sequence of in-range writes behaves like the flat-memory specification. -/
theorem history (ws : List (Bytes × Nat)) (m : Mem) (h : m.WF)
    (hfit : ∀ w ∈ ws, w.2 + w.1.length ≤ 0x4300) :
    ∃ m', writes m ws = .ok m' ∧ m'.WF ∧ m'.flat = specWrites m.flat ws := by
  induction ws generalizing m with
  | nil => exact ⟨m, rfl, h, rfl⟩
  | cons w rest ih =>
    obtain ⟨d, a⟩ := w
    obtain ⟨m1, hw, hflat⟩ := spec m d a h (hfit (d, a) List.mem_cons_self)
    obtain ⟨m2, hws, hwf, hf2⟩ := ih m1 (sizes m d a h m1 hw)
      (fun w hmem => hfit w (List.mem_cons_of_mem _ hmem))
    refine ⟨m2, ?_, hwf, ?_⟩
    · simp only [writes, hw]; exact hws
    · rw [hf2, hflat]; rfl

/-- non-vacuity: a 3-byte write across the gfx/map boundary of an all-zero memory -/
def zeroMem : Mem := ⟨List.replicate 0x2000 0, List.replicate 0x1000 0, List.replicate 0x100 0,
  List.replicate 0x100 0, List.replicate 0x1100 0⟩
example : zeroMem.WF := by
  refine ⟨?_, ?_, ?_, ?_, ?_⟩ <;> exact List.length_replicate

end Pico.C18
