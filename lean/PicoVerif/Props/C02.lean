import PicoVerif.Model.Writers
import PicoVerif.Lemmas.C02
import PicoVerif.Spec.Pico8Api
/-! C02 — luamin renaming is a consistent injection that respects reserved names.
`run cfg ns` is the list of output names for a request history `ns` (every identifier occurrence of the
program in order: variables, fields, methods, parameters, labels — all go through `get_short_name`). -/
namespace Pico.C02
open Pico.Wr

/-- outputs of `get_short_name` along a request history, threading the factory state -/
def runFrom (cfg : NameCfg) : NameSt → List Bytes → List Bytes
  | _, [] => []
  | st, n :: rest => let (st', o) := getShortName cfg st n; o :: runFrom cfg st' rest

def run (cfg : NameCfg) (ns : List Bytes) : List Bytes := runFrom cfg {} ns

/-- facts about the regenerated tables: 26 distinct name characters; every Lua keyword is preserved -/
theorem tables_ok : Gen.nameChars.length = 26 ∧ Gen.nameChars.Nodup ∧
    (Gen.luaKeywords.all fun k => Gen.preservedNames.contains k) = true ∧
    (Gen.pico8Builtins.all fun k => Gen.preservedNames.contains k) = true := by
  decide +kernel

/-- **C02.api_names_preserved**: every name of the PICO-8 API (the fixed list `Spec.pico8Api`, not regenerated) and every
Lua keyword written out here is in the regenerated preserved set — so `kept` applies to each of them, and a name lost
from picotool's table breaks this theorem. -/
theorem api_names_preserved :
    (Spec.pico8Api.all fun n => Gen.preservedNames.contains n) = true ∧ Spec.pico8Api.length = 125 ∧
    (["and", "break", "do", "else", "elseif", "end", "false", "for", "function", "goto", "if", "in", "local", "nil", "not", "or",
      "repeat", "return", "then", "true", "until", "while"].all fun k => Gen.preservedNames.contains k.toUTF8.toList) = true := by
  decide +kernel

/-- **C02.nameForId_inj**: the short-name enumeration never repeats a name (all ids, no bound). -/
theorem nameForId_inj (a b : Nat) (h : nameForId a = nameForId b) : a = b := by
  exact C02L.nameForId_inj a b h

/-- **C02.alloc_total**: the skip loop always finds a free name within its fuel (pigeonhole), so the
model's fallback branch is unreachable and the real `while True` loop terminates. -/
theorem alloc_total (cfg : NameCfg) (id : Nat) :
    ∃ nm nxt, alloc cfg (allocFuel cfg) id = some (nm, nxt) ∧ id < nxt ∧ reserved cfg nm = false ∧
      nm = nameForId (nxt - 1) ∧ ∀ k, id ≤ k → k < nxt - 1 → reserved cfg (nameForId k) = true := by
  exact C02L.alloc_total cfg id

/-- the output history is explained by a final name map satisfying the factory invariant -/
theorem run_good (cfg : NameCfg) (ns : List Bytes) : C02L.Good cfg ns (run cfg ns) :=
  C02L.good_of_runFrom cfg (runFrom cfg) (fun _ => rfl) (fun _ _ _ => rfl) ns

theorem run_length (cfg : NameCfg) (ns : List Bytes) : (run cfg ns).length = ns.length := by
  exact (run_good cfg ns).length

/-- **C02.consistent**: every occurrence of one input identifier gets the same output identifier. -/
theorem consistent (cfg : NameCfg) (ns : List Bytes) (i j : Nat) (hi : i < ns.length) (hj : j < ns.length)
    (h : ns[i] = ns[j]) : (run cfg ns)[i]? = (run cfg ns)[j]? := by
  exact (run_good cfg ns).consistent i j hi hj h

/-- **C02.injective**: two different input identifiers never become the same output identifier,
including when one of them is kept unchanged. -/
theorem injective (cfg : NameCfg) (ns : List Bytes) (i j : Nat) (hi : i < ns.length) (hj : j < ns.length)
    (h : ns[i] ≠ ns[j]) : (run cfg ns)[i]? ≠ (run cfg ns)[j]? := by
  exact (run_good cfg ns).injective i j hi hj h

/-- **C02.kept**: keywords, PICO-8 API names, names from the keep file and (with keep-all) all names are
left exactly as written. -/
theorem kept (cfg : NameCfg) (ns : List Bytes) (i : Nat) (hi : i < ns.length)
    (h : cfg.keepAll = true ∨ reserved cfg ns[i] = true) : (run cfg ns)[i]? = some ns[i] := by
  exact (run_good cfg ns).kept i hi h

/-- **C02.fresh**: a generated name is never a keyword, a reserved name or a kept name. -/
theorem fresh (cfg : NameCfg) (ns : List Bytes) (i : Nat) (hi : i < ns.length) (o : Bytes)
    (ho : (run cfg ns)[i]? = some o) (hne : o ≠ ns[i]) : reserved cfg o = false := by
  exact (run_good cfg ns).fresh i hi o ho hne

/-- non-vacuity: a keep file listing `a` and `b` forces the generator past them -/
example : run { keep := some [[97], [98]] } [[102, 111, 111], [98, 97, 114], [97], [98], [102, 111, 111]]
    = [[99], [100], [97], [98], [99]] := by decide +kernel

end Pico.C02
