import PicoVerif.Model.Writers
import PicoVerif.Spec.LuaLex
import PicoVerif.Lemmas.C01
import PicoVerif.Lemmas.C01Adj
/-! C01 — luamin keeps the program: same tokens modulo renaming, nothing glued.

The end-to-end statement is `minify_relex`. It is stated for every token list the lexer can produce in which no
two adjacent significant tokens are a pair that *no program of the dialect can contain next to each other* and that
would fuse when written back to back (`~` `=`, `<` `<`, `.` `5`, ... — `FusablePair`); that programs accepted by
the parser never contain such a pair is a fact about the grammar (C08; covered by the generator-based correspondence). -/
namespace Pico.C01
open Pico.Lex Pico.Wr

def sigToks (toks : List Tok) : List Tok := toks.filter (fun t => !t.trivia)

/-- word-like text: written back to back two of these would fuse (name, keyword, number) -/
def wordLike (c : Bytes) : Bool := (c.head?.map isIdentChar).getD false || (c.head? == some 46 && ((c.drop 1).head?.map isDigit).getD false)

/-- a pair of adjacent *symbol/number* token texts that fuses when written back to back and that luamin does not
separate; such pairs cannot be adjacent in a program of the dialect (an operator is never followed by `=`, `<`, ...) -/
def FusablePair (a b : Bytes) : Bool :=
  !needsSpace a b && !(wordLike a && wordLike b) &&
  (Spec.Lex.longestPrefixIn Spec.Lex.symbolSet (a ++ b) > a.length ||
   (a == [46] && (b.head?.map isDigit).getD false) ||
   ([47, 47].isPrefixOf (a ++ b) && a.length < 2) ||
   (a.getLast? == some 58 && b.head? == some 58) ||
   (a.getLast? == some 91 && b.head? == some 61))

/-- no adjacent significant symbol/number tokens form a fusable pair -/
def NoFusablePair (toks : List Tok) : Prop :=
  ∀ i, i + 1 < (sigToks toks).length →
    ∀ a b, (sigToks toks)[i]? = some a → (sigToks toks)[i + 1]? = some b →
      (a.kind = .symbol ∨ a.kind = .number) → (b.kind = .symbol ∨ b.kind = .number) → FusablePair a.code b.code = false

/-- **C01.needsSpace_covers**: the four ways two token texts of a valid program fuse — `-` `-` (comment), `[` `[[`
(long string), `.`-ending then `.`-starting (`..` `...`, `..` `.5`), a number then `.` — are all recognised. -/
theorem needsSpace_covers (a b : Bytes) (ha : a ≠ []) (hb : b ≠ []) :
    (a.getLast? = some 45 ∧ b.head? = some 45 → needsSpace a b = true) ∧
    (a.getLast? = some 91 ∧ b.head? = some 91 → needsSpace a b = true) ∧
    (a.getLast? = some 46 ∧ b.head? = some 46 → needsSpace a b = true) ∧
    ((a.head?.map isDigit).getD false = true ∧ b.head? = some 46 → needsSpace a b = true) := by
  have h := C01L.needsSpace_covers a b
  exact ⟨h.1, h.2.1, h.2.2.1, h.2.2.2 ha⟩

/-- **C01.joined_separated**: in the joined output a space stands between two chunks whenever `needsSpace` says so,
and nothing else is inserted: the output is the chunks with those spaces. -/
theorem joined_separated (prev : Bytes) (cs : List Bytes) :
    joinChunks prev cs = (cs.zip (prev :: cs)).flatMap (fun (c, p) => (if needsSpace p c then [32] else []) ++ c) := by
  exact C01L.joined_separated prev cs

/-- **C01.words_separated**: luamin never writes two word-like tokens (names, keywords, numbers) back to back:
whenever a name/keyword/number follows one without a newline token in between, a space chunk is emitted first. -/
theorem words_separated (cfg : NameCfg) (st : MinSt) (t : Tok) (h : st.lastNKN = true)
    (hk : t.kind = .name ∨ t.kind = .keyword ∨ t.kind = .number) (hs : st.seenCode = true) :
    ∃ st' c, minStep cfg st t = (st', [[32], c]) ∧ st'.lastNKN = true := by
  exact C01L.words_separated cfg st t h hk hs

/-- **C01.newline_kept**: a newline token after code always yields a line feed in the output unless one was just
written (so every line-scoped shorthand still ends where it ended), and resets the word flag. -/
theorem newline_kept (cfg : NameCfg) (st : MinSt) (t : Tok) (hk : t.kind = .newline) (hs : st.seenCode = true) :
    minStep cfg st t = ({ st with lastNKN := false, lastNL := true }, if st.lastNL then [] else [[10]]) := by
  exact C01L.newline_kept cfg st t hk hs

/-- what one significant token must read back as: names and labels renamed by `f`, everything else identical
(numbers by spelling, strings by decoded value and quote kind) -/
def renameTok (f : Bytes → Bytes) (t : Tok) : Tok :=
  if t.kind = .name then { t with data := f t.data }
  else if t.kind = .label then { t with data := [58, 58] ++ f ((t.data.drop 2).take (t.data.length - 4)) ++ [58, 58] }
  else t

def sameTok (a b : Tok) : Bool := a.kind == b.kind && a.data == b.data && a.quote == b.quote && a.mlq == b.mlq

/-- **C01.minify_relex** (end to end): the code luamin writes lexes to exactly the input's sequence of keywords,
symbols, numbers, strings and identifiers, the identifiers differing at most by a renaming. -/
theorem minify_relex (cfg : NameCfg) (src : Bytes) (toks : List Tok) (hl : lex [src] = .ok toks)
    (hn : NoFusablePair toks) :
    ∃ out f, lex [minify cfg toks] = .ok out ∧ (sigToks out).length = (sigToks toks).length ∧
      ∀ i, i < (sigToks toks).length →
        ∃ a b, (sigToks out)[i]? = some a ∧ (sigToks toks)[i]? = some b ∧ sameTok a (renameTok f b) = true := by
  have hff : C01L.FusFree (C01L.sigOf toks) := by
    apply C01L.fusFree_of_index
    intro i a b ha hb hsa hsb
    have hlt : i + 1 < (sigToks toks).length := by
      have := (List.getElem?_eq_some_iff.mp hb).1; exact this
    have hca : a.code = a.data := C01L.code_plain a (by rcases hsa with h | h <;> simp [h])
    have hcb : b.code = b.data := C01L.code_plain b (by rcases hsb with h | h <;> simp [h])
    have := hn i hlt a b ha hb hsa hsb
    rw [hca, hcb] at this
    exact this
  obtain ⟨out, nf, ho, hs⟩ := C01L.minify_relex_L cfg src toks hl hff
  obtain ⟨hlen, hidx⟩ := C01L.map_eq_index _ _ _ _ hs
  refine ⟨out, C01L.fOf cfg nf, ho, hlen, fun i hi => ?_⟩
  obtain ⟨a, b, ha, hb, hab⟩ := hidx i hi
  refine ⟨a, b, ha, hb, ?_⟩
  simp only [C01L.core, C01L.fcore, Prod.mk.injEq] at hab
  obtain ⟨h1, h2, h3, h4⟩ := hab
  unfold sameTok renameTok
  by_cases hk1 : b.kind = .name
  · simp [hk1, h1, h2, h3, h4]
  · by_cases hk2 : b.kind = .label
    · simp [hk2, h1, h2, h3, h4, C01L.inner]
    · simp [hk1, hk2, h1, h2, h3, h4]

/-- **C01.token_count**: the token count `stats` reports depends only on kinds and data of significant tokens that
renaming does not touch, so it is unchanged whenever the tokens read back as in `minify_relex`. -/
theorem token_count (f : Bytes → Bytes) (a b : List Tok) (hlen : (sigToks a).length = (sigToks b).length)
    (h : ∀ i, i < (sigToks b).length → ∃ x y, (sigToks a)[i]? = some x ∧ (sigToks b)[i]? = some y ∧ sameTok x (renameTok f y) = true) :
    tokenCount a = tokenCount b := by
  apply C01L.token_count a b hlen
  intro i hi
  obtain ⟨x, y, hx, hy, hs⟩ := h i hi
  refine ⟨x, y, hx, hy, ?_⟩
  simp only [sameTok, Bool.and_eq_true, beq_iff_eq] at hs
  obtain ⟨⟨⟨hk, hd⟩, _⟩, _⟩ := hs
  unfold renameTok at hk hd
  constructor
  · rw [hk]; split
    · rfl
    · split <;> rfl
  · intro h1 h2; rw [hd, if_neg h1, if_neg h2]

/-- **C01.parsed_noFusable**: the side condition of `minify_relex` is a theorem about picotool's grammar: a token list that
the lexer produced and that the parser accepts and consumes to its last significant token contains no fusable pair of
neighbouring symbol/number tokens. (Proved by an adjacency analysis of the grammar data — FIRST/LAST/FOLLOW sets of token
patterns, sound for every grammar (`Adj.run_adj`) — and a kernel-evaluated table fact about picotool's 71 patterns.) -/
theorem parsed_noFusable (src : Bytes) (toks : List Tok) (hl : lex [src] = .ok toks) (fuel : Nat)
    (ts : List Peg.Tree) (st' : Peg.PSt)
    (hp : C08.parse toks.toArray fuel = .ok (some (ts, st')))
    (hend : Peg.skipTrivia toks.toArray st'.pos ≥ toks.toArray.size) : NoFusablePair toks := by
  intro i _ a b ha hb hsa hsb
  have hca : a.code = a.data := C01L.code_plain a (by rcases hsa with h | h <;> simp [h])
  have hcb : b.code = b.data := C01L.code_plain b (by rcases hsb with h | h <;> simp [h])
  rw [hca, hcb]
  exact C01A.parsed_no_fusable src toks hl fuel ts st' hp hend i a b ha hb hsa hsb

/-- **C01.minify_relex_parsed** (end to end, no side condition): for every source text that picotool lexes and parses to its
last significant token, the code luamin writes lexes to exactly the input's sequence of keywords, symbols, numbers,
strings and identifiers, the identifiers differing at most by a renaming. -/
theorem minify_relex_parsed (cfg : NameCfg) (src : Bytes) (toks : List Tok) (hl : lex [src] = .ok toks) (fuel : Nat)
    (ts : List Peg.Tree) (st' : Peg.PSt)
    (hp : C08.parse toks.toArray fuel = .ok (some (ts, st')))
    (hend : Peg.skipTrivia toks.toArray st'.pos ≥ toks.toArray.size) :
    ∃ out f, lex [minify cfg toks] = .ok out ∧ (sigToks out).length = (sigToks toks).length ∧
      ∀ i, i < (sigToks toks).length →
        ∃ a b, (sigToks out)[i]? = some a ∧ (sigToks toks)[i]? = some b ∧ sameTok a (renameTok f b) = true :=
  minify_relex cfg src toks hl (parsed_noFusable src toks hl fuel ts st' hp hend)

example : FusablePair [126] [61] = true := by decide +kernel       -- `~` `=` would fuse (never adjacent in a program)
example : FusablePair [45] [45] = false := by decide +kernel        -- `-` `-` is separated by luamin
example : minify {} [{ kind := .name, data := [97] }, { kind := .symbol, data := [45] }, { kind := .symbol, data := [45] },
                     { kind := .name, data := [98] }] = [97, 45, 32, 45, 98] := by decide +kernel

end Pico.C01
