import PicoVerif.Model.Writers
import PicoVerif.Spec.LuaLex
import PicoVerif.Lemmas.C06
/-! C06 — the default writer echoes the source losslessly. -/
namespace Pico.C06
open Pico.Lex Pico.Wr

/-- the source text `r` a token may have been read from: for every token but a quoted string it is the
token's `code` (what the echo writer emits), for a quoted string it is `q body q` whose body the lexer's
string loop decodes to the token's data, ending exactly at the closing quote -/
def RawOf (t : Tok) (r : Bytes) : Prop :=
  if t.kind = .string ∧ t.mlq = none then
    ∃ q body, t.quote = some q ∧ (q = 34 ∨ q = 39) ∧ r = q :: body ++ [q] ∧
      strLoop q (body.length + 2) (body ++ [q]) [] 0 = .ok (true, t.data, body.length + 1)
  else r = t.code

/-- every regenerated matcher entry is one the model knows (an edited or new pattern breaks this) -/
theorem shape_known : Gen.matcherShape.all entryKnown = true := by decide +kernel

/-- **C06.cover**: the token list covers the source completely — the source is the concatenation of the
tokens' source texts, nothing dropped or duplicated — each token records the (line, column) of its first
character, and outside quoted strings the echo writer's text for the token *is* that source text. -/
theorem cover (src : Bytes) (toks : List Tok) (h : lex [src] = .ok toks) :
    ∃ raws : List Bytes, raws.length = toks.length ∧ raws.flatten = src ∧
      ∀ i (hi : i < toks.length), RawOf toks[i] (raws.getD i []) ∧
        (toks[i].line, toks[i].col) = Spec.Lex.posAfter 0 0 (raws.take i).flatten :=
  C06L.cover' src toks h

/-- **C06.reescape**: the spelling the echo writer produces for a quoted string denotes exactly the
token's bytes under the reference string grammar, and ends at its closing quote whatever follows. -/
theorem reescape (q : UInt8) (hq : q = 34 ∨ q = 39) (v next : Bytes) (fuel : Nat)
    (hf : (escapeBody q v).length + 1 ≤ fuel) :
    Spec.Lex.quoted q fuel (escapeBody q v ++ q :: next) [] 0 = some (v, (escapeBody q v).length + 1) := by
  simpa using C06L.reescape_gen q hq next v [] 0 fuel hf

/-- **C06.decode_agrees**: on every string body of the dialect the lexer's string loop computes the
reference grammar's value (same bytes, same extent). -/
theorem decode_agrees (q : UInt8) (s v : Bytes) (n fuel fuel' : Nat)
    (h : Spec.Lex.quoted q fuel s [] 0 = some (v, n)) (hf : s.length + 1 ≤ fuel') :
    strLoop q fuel' s [] 0 = .ok (true, v, n) :=
  C06L.decode_agrees_gen q v n fuel s [] 0 fuel' h hf

/-- **C06.echo_stable**: echoing is idempotent on tokens — the echoed spelling of a quoted string, read
again by the lexer's string loop, yields the same data (so write/read cycles do not drift). -/
theorem echo_stable (q : UInt8) (hq : q = 34 ∨ q = 39) (v next : Bytes) :
    strLoop q ((escapeBody q v).length + next.length + 2) (escapeBody q v ++ q :: next) [] 0
      = .ok (true, v, (escapeBody q v).length + 1) :=
  decode_agrees q _ v _ _ _ (reescape q hq v next _ (Nat.le_refl _)) (by simp; omega)

/-- non-vacuity / regression anchors: the two historical defects -/
example : escapeBody 34 [0, 49] = "\\0001".toUTF8.toList := by decide +kernel
example : Spec.Lex.quoted 34 9 "\\x41\"".toUTF8.toList [] 0 = some ([65], 5) := by decide +kernel

end Pico.C06
