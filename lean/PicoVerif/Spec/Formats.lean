import PicoVerif.Base.Py
/-! Reference description of the PICO-8 on-disk formats, written from the format documentation
(PICO-8 memory map; `.p8` sections; `.p8.png` steganography) in terms of pixels / fields / bit
positions — deliberately NOT shaped like picotool's code.  C16 proves model = Spec. -/
namespace Pico.Spec

def LF : UInt8 := 10

/-- colour (0..15) of sprite-sheet pixel (x, y): memory byte `64*y + x/2`, low nibble for even x -/
def pixel (m : Bytes) (x y : Nat) : Nat :=
  let b := (m.getD (64 * y + x / 2) 0).toNat
  if x % 2 = 0 then b % 16 else b / 16

/-- `__gfx__` / `__label__`: 128 rows of 128 pixel digits in screen order -/
def gfxRows (m : Bytes) : List Bytes :=
  (List.range 128).map fun y => ((List.range 128).map fun x => hexDigit (pixel m x y)) ++ [LF]

/-- plain hex rows: row `r` is bytes `[n*r, n*(r+1))`, each as high digit then low digit -/
def hexRows (n rows : Nat) (m : Bytes) : List Bytes :=
  (List.range rows).map fun r =>
    ((List.range n).flatMap fun i =>
      let b := (m.getD (n * r + i) 0).toNat
      [hexDigit (b / 16), hexDigit (b % 16)]) ++ [LF]

/-- one sfx note is a 16-bit little-endian word: bits 0-5 pitch, 6-8 waveform, 9-11 volume,
12-14 effect, 15 custom-instrument flag (shown as bit 3 of the waveform digit) -/
def notePitch (w : Nat) : Nat := w % 64
def noteWaveform (w : Nat) : Nat := (w / 64) % 8 + 8 * (w / 32768)
def noteVolume (w : Nat) : Nat := (w / 512) % 8
def noteEffect (w : Nat) : Nat := (w / 4096) % 8

/-- five digits: pitch (2), waveform, volume, effect -/
def noteText (w : Nat) : Bytes :=
  [hexDigit (notePitch w / 16), hexDigit (notePitch w % 16), hexDigit (noteWaveform w),
   hexDigit (noteVolume w), hexDigit (noteEffect w)]

/-- `__sfx__` line of pattern `id`: the 4 header bytes (editor mode, speed, loop start, loop end; stored
after the 32 notes in memory) as hex, then the 32 notes -/
def sfxRow (m : Bytes) (id : Nat) : Bytes :=
  let byte (i : Nat) : Nat := (m.getD (68 * id + i) 0).toNat
  ((List.range 4).flatMap fun k => [hexDigit (byte (64 + k) / 16), hexDigit (byte (64 + k) % 16)])
  ++ ((List.range 32).flatMap fun n => noteText (byte (2 * n) + 256 * byte (2 * n + 1)))
  ++ [LF]

def sfxRows (m : Bytes) : List Bytes := (List.range 64).map (sfxRow m)

/-- `__music__` line of pattern `id`: flag byte (bit k = high bit of channel byte k, k = 0,1,2:
loop start, loop end, stop), a space, the four channel bytes without their high bit -/
def musicRow (m : Bytes) (id : Nat) : Bytes :=
  let ch (k : Nat) : Nat := (m.getD (4 * id + k) 0).toNat
  let flags := ch 0 / 128 + 2 * (ch 1 / 128) + 4 * (ch 2 / 128)
  [hexDigit (flags / 16), hexDigit (flags % 16), 32]
  ++ ((List.range 4).flatMap fun k => [hexDigit ((ch k % 128) / 16), hexDigit ((ch k % 128) % 16)])
  ++ [LF]

def musicRows (m : Bytes) : List Bytes := (List.range (m.length / 4)).map (musicRow m)

/-- `.p8.png`: one cart byte per pixel, two bits per channel in the order A R G B (A most significant) -/
def pixelByte (r g b a : Nat) : Nat := (a % 4) * 64 + (r % 4) * 16 + (g % 4) * 4 + (b % 4)

/-- cart memory as stored in the image: gfx, map, gff, music, sfx, code area, version -/
def layout : List (String × Nat × Nat) :=
  [("gfx", 0, 0x2000), ("map", 0x2000, 0x3000), ("gff", 0x3000, 0x3100), ("music", 0x3100, 0x3200),
   ("sfx", 0x3200, 0x4300), ("code", 0x4300, 0x8000), ("version", 0x8000, 0x8001)]

end Pico.Spec
