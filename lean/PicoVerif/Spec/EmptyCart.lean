import PicoVerif.Base.Bytes
/-! What a new PICO-8 cart holds (`reboot` then `save`): the "empty default" of `p8tool build`'s `--empty-X` options and of a
new output cart.  Written from the format, not from picotool: sprite sheet, map and sprite flags are zero; every music pattern
has its four channels silent (bit 6 set; the ids 1..4 that PICO-8 leaves there); every sound effect has 32 empty notes, editor
mode 0, no loop and speed 16 — except sound effect 0, which PICO-8 gives speed 1; there is no code. -/
namespace Pico.Spec.Empty

def gfx : Bytes := List.replicate 0x2000 0
def map : Bytes := List.replicate 0x1000 0
def gff : Bytes := List.replicate 0x100 0
def musicPattern : Bytes := [0x41, 0x42, 0x43, 0x44]
def music : Bytes := (List.replicate 64 musicPattern).flatten
/-- 64 note bytes, then editor mode, speed, loop start, loop end -/
def sfxPattern (i : Nat) : Bytes := List.replicate 64 0 ++ [0, if i = 0 then 1 else 16, 0, 0]
def sfx : Bytes := ((List.range 64).map sfxPattern).flatten
def lua : Bytes := []

end Pico.Spec.Empty
