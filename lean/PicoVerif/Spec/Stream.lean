import PicoVerif.Base.Py
import PicoVerif.Gen.Game
/-! Reference decoder for the PICO-8 `:c:` compressed-code stream, written from the format description:
* byte `0x01..0x3b`  : literal, index into the 60-character table
* byte `0x00 b`      : literal byte `b`
* byte `c ≥ 0x3c, d` : copy `d / 16 + 2` bytes from `offset = (c - 0x3c) * 16 + d % 16` bytes back, one byte at a
                       time (so a block may overlap its own output); well-formed only if the length is 3..17 and
                       `1 ≤ offset ≤` number of bytes produced so far.
`refDecode` returns `none` on a stream that is not well formed. -/
namespace Pico.Spec

def copyBack (o : Nat) : Nat → Array UInt8 → Array UInt8
  | 0, out => out
  | n + 1, out => copyBack o n (out.push (out.getD (out.size - o) 0))

def refDecodeAux : List UInt8 → Array UInt8 → Option (Array UInt8)
  | [], out => some out
  | c :: rest, out =>
    if c = 0 then
      match rest with
      | [] => none
      | b :: rest' => refDecodeAux rest' (out.push b)
    else if c.toNat < Gen.charTable.length then
      match Gen.charTable[c.toNat]? with
      | some ch => refDecodeAux rest (out.push ch)
      | none => none
    else
      match rest with
      | [] => none
      | d :: rest' =>
        let o := (c.toNat - Gen.charTable.length) * 16 + d.toNat % 16
        let l := d.toNat / 16 + 2
        if l < 3 ∨ o = 0 ∨ o > out.size then none
        else refDecodeAux rest' (copyBack o l out)

/-- decode a whole stream; `none` = not well formed -/
def refDecode (s : Bytes) : Option Bytes := (refDecodeAux s #[]).map (·.toList)

def wellFormed (s : Bytes) : Bool := (refDecode s).isSome

end Pico.Spec
