import PicoVerif.Model.Lexer
/-! Reference lexical grammar of the PICO-8 Lua dialect (Lua 5.2 §3.1 + PICO-8 extensions), organised as
"the token at a position is the *longest* match among the token classes", with the documented priorities
(a comment start beats the symbols `-` `/`; a long bracket beats `[`).  It works on the whole source (no
chunks, no ordered pattern table): symbols and keywords are *sets*.  `none` = not a program of the dialect.

Dialect decisions (DESIGN 4.1): numeral forms are the five the lexer documents (exponent sign only `-`; `1..x`
is `1` `..` `x`); `--[==[` is a line comment; a lone `\r` is a newline token that does not advance the line
counter; escapes: `\a \b \f \n \r \t \v \\ \" \' \<newline>`, `\ddd` (1-3 digits, ≤ 255), `\xhh`, and
PICO-8's `\* \# \- \| \+ \^`; anything else after a backslash is outside the dialect. -/
namespace Pico.Spec.Lex
open Pico.Lex

/-- the symbols of the dialect, as a set (order irrelevant) -/
def symbolSet : List Bytes :=
  Gen.matcherShape.filterMap fun e => if e.1 = "lit" ∧ e.2.2.2 = "TokSymbol" then some e.2.2.1 else none

def longestPrefixIn (set : List Bytes) (s : Bytes) : Nat :=
  set.foldl (fun best l => if l.isPrefixOf s ∧ l.length > best then l.length else best) 0

def maxOpt (l : List (Option Nat)) : Option Nat :=
  l.foldl (fun acc o => match acc, o with
    | none, x => x
    | some a, some b => some (max a b)
    | some a, none => some a) none

/-- longest numeral at the start of `s` -/
def numeralLen (s : Bytes) : Option Nat :=
  maxOpt [mRadix 120 88 isHexDigit s, mRadixFrac 120 88 isHexDigit s, mRadix 98 66 isBinDigit s,
          mRadixFrac 98 66 isBinDigit s, mDecimal s, mDotDecimal s]

def newlineLen (s : Bytes) : Option Nat :=
  match s with
  | 13 :: 10 :: _ => some 2
  | 10 :: _ => some 1
  | 13 :: _ => some 1
  | _ => none

/-- identifier run: name, or keyword if the whole run is a reserved word; `?` is a one-character name -/
def wordTok (s : Bytes) : Option (Kind × Nat) :=
  match mName s with
  | some n => some (if Gen.luaKeywords.contains (s.take n) then .keyword else .name, n)
  | none => if s.head? = some 63 then some (.name, 1) else none

/-- one escape sequence after the backslash: (denoted bytes, characters consumed after the backslash) -/
def escape (rest : Bytes) : Option (Bytes × Nat) :=
  match rest with
  | [] => none
  | c :: r =>
    if isDigit c then
      let ds := (c :: r).takeWhile isDigit |>.take 3
      let v := decToNat ds
      if v ≤ 255 then some ([v.toUInt8], ds.length) else none
    else if c = 120 then
      match r with
      | h1 :: h2 :: _ =>
        match unhexDigit h1, unhexDigit h2 with
        | some a, some b => some ([(a * 16 + b).toUInt8], 3)
        | _, _ => none
      | _ => none
    else
      let one (b : UInt8) : Option (Bytes × Nat) := some ([b], 1)
      if c = 97 then one 7 else if c = 98 then one 8 else if c = 102 then one 12 else if c = 110 then one 10
      else if c = 114 then one 13 else if c = 116 then one 9 else if c = 118 then one 11
      else if c = 92 then one 92 else if c = 34 then one 34 else if c = 39 then one 39 else if c = 10 then one 10
      else if c = 42 then one 1 else if c = 35 then one 2 else if c = 45 then one 3 else if c = 124 then one 4
      else if c = 43 then one 5 else if c = 94 then one 6
      else none

/-- body of a quoted string up to the closing quote: (denoted bytes, characters consumed incl. the closing quote) -/
def quoted (q : UInt8) : Nat → Bytes → Bytes → Nat → Option (Bytes × Nat)
  | 0, _, _, _ => none
  | fuel + 1, s, acc, n =>
    match s with
    | [] => none                     -- unterminated
    | c :: rest =>
      if c = q then some (acc, n + 1)
      else if c = 92 then
        match escape rest with
        | some (bs, k) => quoted q fuel (rest.drop k) (acc ++ bs) (n + 1 + k)
        | none => none
      else quoted q fuel rest (acc ++ [c]) (n + 1)

/-- the token at the start of `s` (whole remaining source): token (without position) and its length -/
def lexOne (s : Bytes) : Option (Tok × Nat) :=
  if [45, 45, 91, 91].isPrefixOf s then
    (findSub [93, 93] (s.drop 4) 0).map fun k =>
      ({ kind := .comment, data := s.take (4 + k + 2) }, 4 + k + 2)
  else if [45, 45].isPrefixOf s ∨ [47, 47].isPrefixOf s then
    let n := 2 + spanLen (· != 10) (s.drop 2)
    some ({ kind := .comment, data := s.take n }, n)
  else
    let longOpen := match s with
      | 91 :: r => let n := spanLen (· == 61) r; if (r.drop n).head? = some 91 then some n else none
      | _ => none
    match longOpen with
    | some n =>
      let body := s.drop (n + 2)
      (findSub ([93] ++ List.replicate n 61 ++ [93]) body 0).map fun k =>
        ({ kind := .string, data := body.take k, mlq := some (List.replicate n 61) }, n + 2 + k + n + 2)
    | none =>
      match s with
      | [] => none
      | q :: rest =>
        if q = 34 ∨ q = 39 then
          (quoted q (rest.length + 1) rest [] 0).map fun (v, n) => ({ kind := .string, data := v, quote := some q }, 1 + n)
        else
          -- longest match among the remaining classes
          let cands : List (Kind × Nat) :=
            (match mSpace s with | some n => [(Kind.space, n)] | none => []) ++
            (match newlineLen s with | some n => [(Kind.newline, n)] | none => []) ++
            (match numeralLen s with | some n => [(Kind.number, n)] | none => []) ++
            (match mLabel s with | some n => [(Kind.label, n)] | none => []) ++
            (match wordTok s with | some kn => [kn] | none => []) ++
            (let n := longestPrefixIn symbolSet s; if n > 0 then [(Kind.symbol, n)] else [])
          match cands.foldl (fun best c => match best with
              | none => some c
              | some b => if c.2 > b.2 then some c else some b) none with
          | some (k, n) => some ({ kind := k, data := s.take n }, n)
          | none => none

def posAfter (line col : Nat) (consumed : Bytes) : Nat × Nat :=
  consumed.foldl (fun (lc : Nat × Nat) c => if c = 10 then (lc.1 + 1, 0) else (lc.1, lc.2 + 1)) (line, col)

/-- all tokens of a source text, with (line, column) of their first character -/
def lexAll : Nat → Bytes → Nat → Nat → Option (List Tok)
  | 0, _, _, _ => none
  | fuel + 1, s, line, col =>
    if s.isEmpty then some [] else
    match lexOne s with
    | none => none
    | some (t, n) =>
      if n = 0 then none else
      let (l', c') := posAfter line col (s.take n)
      (lexAll fuel (s.drop n) l' c').map fun rest => { t with line := line, col := col } :: rest

def lexSource (s : Bytes) : Option (List Tok) := lexAll (s.length + 1) s 0 0

/-- lengths of the source extents of the tokens of `s` -/
def extents : Nat → Bytes → Option (List Nat)
  | 0, _ => none
  | fuel + 1, s =>
    if s.isEmpty then some [] else
    match lexOne s with
    | none => none
    | some (_, n) => if n = 0 then none else (extents fuel (s.drop n)).map (n :: ·)

/-! numeric value of a numeral spelling as an exact rational `num / den` (Lua 5.2 numerals + PICO-8 `0b`) -/

def digitsVal (base : Nat) (ds : Bytes) : Nat := ds.foldl (fun acc c => acc * base + (unhexDigit c).getD 0) 0

/-- value of `int.frac` in a base as (num, den) -/
def radixVal (base : Nat) (s : Bytes) : Nat × Nat :=
  let ip := s.takeWhile (· != 46)
  let fp := (s.dropWhile (· != 46)).drop 1
  (digitsVal base ip * base ^ fp.length + digitsVal base fp, base ^ fp.length)

/-- `(num, den)` with value = num / den; decimal exponent folded in -/
def numeralVal (s : Bytes) : Nat × Nat :=
  match s with
  | 48 :: x :: rest =>
    if x = 120 ∨ x = 88 then radixVal 16 rest
    else if x = 98 ∨ x = 66 then radixVal 2 rest
    else decimalVal s
  | _ => decimalVal s
where
  decimalVal (s : Bytes) : Nat × Nat :=
    let mant := s.takeWhile (fun c => c != 101 && c != 69)
    let ex := (s.dropWhile (fun c => c != 101 && c != 69)).drop 1
    let (n, d) := radixVal 10 mant
    match ex with
    | [] => (n, d)
    | 45 :: ds => (n, d * 10 ^ decToNat ds)
    | ds => (n * 10 ^ decToNat ds, d)

end Pico.Spec.Lex
