import PicoVerif.Base.Py
/-! POSIX `os.path` functions used by picotool (`join`, `normpath`, `dirname`, `str.startswith`), as functions on
character lists. Models of library behaviour, validated against the real functions by the correspondence. -/
namespace Pico.Path

abbrev P := List Char

def splitSlash : P → List P
  | [] => [[]]
  | c :: rest =>
    if c = '/' then [] :: splitSlash rest
    else match splitSlash rest with
      | [] => [[c]]
      | h :: t => (c :: h) :: t

def joinSlash : List P → P
  | [] => []
  | [a] => a
  | a :: rest => a ++ '/' :: joinSlash rest

/-- the loop of `posixpath.normpath` over the components -/
def normComps (absolute : Bool) : List P → List P → List P
  | [], acc => acc.reverse
  | c :: rest, acc =>
    if c = [] ∨ c = ['.'] then normComps absolute rest acc
    else if c ≠ ['.', '.'] ∨ (!absolute ∧ acc = []) ∨ (acc.head? = some ['.', '.']) then normComps absolute rest (c :: acc)
    else normComps absolute rest acc.tail    -- `..` pops (at the root of an absolute path it is dropped)

/-- `os.path.normpath` -/
def normpath (p : P) : P :=
  let slashes := if p.head? = some '/' then (if p.take 2 = ['/', '/'] ∧ p.take 3 ≠ ['/', '/', '/'] then 2 else 1) else 0
  let body := joinSlash (normComps (slashes > 0) (splitSlash p) [])
  let r := List.replicate slashes '/' ++ body
  if r = [] then ['.'] else r

/-- `os.path.join(a, b)` -/
def join (a b : P) : P :=
  if b.head? = some '/' then b
  else if a = [] ∨ a.getLast? = some '/' then a ++ b
  else a ++ '/' :: b

def rstripSlash (p : P) : P := (p.reverse.dropWhile (· == '/')).reverse

/-- `os.path.dirname` -/
def dirname (p : P) : P :=
  let rev := p.reverse
  let head := (rev.dropWhile (· != '/')).reverse      -- up to and including the last '/'
  if head ≠ [] ∧ head.any (· != '/') then rstripSlash head else head

/-- the containment test picotool uses since the fix: `path.startswith(root.rstrip('/') + '/')` -/
def isWithin (path root : P) : Bool := (rstripSlash root ++ ['/']).isPrefixOf path

/-- non-empty components of a path -/
def comps (p : P) : List P := (splitSlash p).filter (· ≠ [])

end Pico.Path
