import PicoVerif.Base.Bytes
/-! Python runtime semantics used by the models: exception kinds, slices, `rstrip`, `range` chunking,
`readline` splitting. (No Mathlib.) -/
namespace Pico

/-- The small enum Python exceptions are mapped to in the correspondence (DESIGN 2.4). -/
inductive Err
  | value      -- ValueError
  | index      -- IndexError
  | assert_    -- AssertionError
  | key        -- KeyError
  | type_      -- TypeError
  | header     -- InvalidP8HeaderError
  | section    -- InvalidP8SectionError
  | tooLarge   -- code does not fit the cart
  | lex | parse
  | outsideRoot | notFound | build
  | fuel       -- model ran out of fuel (never expected; reported as a diff)
  deriving DecidableEq, Repr

def Err.name : Err → String
  | .value => "value" | .index => "index" | .assert_ => "assert" | .key => "key" | .type_ => "type"
  | .header => "header" | .section => "section" | .tooLarge => "too-large" | .lex => "lex"
  | .parse => "parse" | .outsideRoot => "outside-root" | .notFound => "not-found" | .build => "build"
  | .fuel => "fuel"

/-- Python `a[lo:hi]` for non-negative `lo`, `hi` (clamped). -/
def pySlice (l : List α) (lo hi : Nat) : List α := (l.take hi).drop lo

/-- Python `a[lo:hi] = d` on a `bytearray`/`list` for non-negative `lo`, `hi` (clamped, *resizing*). -/
def pySliceAssign (l : List α) (lo hi : Nat) (d : List α) : List α :=
  let lo' := min lo l.length
  let hi' := max lo' (min hi l.length)
  l.take lo' ++ d ++ l.drop hi'

/-- ASCII whitespace as `bytes.rstrip()` / `bytes.strip()` see it -/
def isPySpace (b : UInt8) : Bool := b == 32 || (9 ≤ b && b ≤ 13)

def rstrip (l : Bytes) : Bytes := (l.reverse.dropWhile isPySpace).reverse
def lstrip (l : Bytes) : Bytes := l.dropWhile isPySpace
def strip (l : Bytes) : Bytes := rstrip (lstrip l)

/-- `[l[i:i+n] for i in range(0, len(l), n)]` -/
def chunks (n : Nat) (l : List α) : List (List α) :=
  if _h : n = 0 ∨ l = [] then [] else l.take n :: chunks n (l.drop n)
termination_by l.length
decreasing_by
  have : l.length ≠ 0 := by
    intro h0; exact _h (Or.inr (List.length_eq_zero_iff.mp h0))
  simp only [List.length_drop]; omega

/-- lines as `readline()` / iterating a binary file yields them: split *after* each `nl`. -/
def splitLinesAux (nl : α → Bool) : List α → List α → List (List α)
  | [], [] => []
  | [], cur => [cur.reverse]
  | x :: xs, cur => if nl x then (x :: cur).reverse :: splitLinesAux nl xs [] else splitLinesAux nl xs (x :: cur)

def splitLines (s : Bytes) : List Bytes := splitLinesAux (· == 10) s []
def splitLinesU (s : List Nat) : List (List Nat) := splitLinesAux (· == 10) s []

/-- decimal text of a natural number (`'%s' % n`, `str(n)`) as bytes -/
def natToDec (n : Nat) : Bytes :=
  if h : n < 10 then [(48 + n).toUInt8] else natToDec (n / 10) ++ [(48 + n % 10).toUInt8]
termination_by n
decreasing_by omega

/-- `int(b)` for a non-empty string of ASCII digits (what `\d+` matched) -/
def decToNat (s : Bytes) : Nat := s.foldl (fun acc c => acc * 10 + (c.toNat - 48)) 0

def isDigit (b : UInt8) : Bool := 48 ≤ b && b ≤ 57

end Pico
