/-! Bytes, hex text, and lifting lemmas from finite tables to all bytes. (No Mathlib.) -/
namespace Pico

abbrev Byte := UInt8
abbrev Bytes := List UInt8

/-- `(List.range n).all p` is a proof for every `i < n`. -/
theorem all_range {n : Nat} {p : Nat → Bool} (h : (List.range n).all p = true) :
    ∀ i, i < n → p i = true := by
  intro i hi
  rw [List.all_eq_true] at h
  exact h i (List.mem_range.mpr hi)

/-- A decidable predicate checked on the 256 byte values holds for all bytes. -/
theorem forall_u8 (p : UInt8 → Bool)
    (h : (List.range 256).all (fun n => p n.toUInt8) = true) : ∀ b, p b = true := by
  intro b
  rw [List.all_eq_true] at h
  have := h b.toNat (List.mem_range.mpr b.toNat_lt)
  simpa using this

/-- lower-case hex digit of a nibble (Python `format(b, '02x')`) -/
def hexDigit (n : Nat) : UInt8 :=
  if n < 10 then (48 + n).toUInt8 else (87 + n).toUInt8

/-- value of one hex digit as Python's `int(_, 16)` / `bytes.fromhex` accept it (both cases) -/
def unhexDigit (c : UInt8) : Option Nat :=
  if 48 ≤ c ∧ c ≤ 57 then some (c.toNat - 48)
  else if 97 ≤ c ∧ c ≤ 102 then some (c.toNat - 87)
  else if 65 ≤ c ∧ c ≤ 70 then some (c.toNat - 55)
  else none

/-- `bytes_to_hex` (util.py:137) -/
def toHex : Bytes → Bytes
  | [] => []
  | b :: bs => hexDigit (b.toNat / 16) :: hexDigit (b.toNat % 16) :: toHex bs

/-- `bytearray.fromhex` on a string without whitespace (`none` = ValueError) -/
def fromHex : Bytes → Option Bytes
  | [] => some []
  | [_] => none
  | a :: b :: rest => do
    let x ← unhexDigit a
    let y ← unhexDigit b
    let r ← fromHex rest
    pure ((x * 16 + y).toUInt8 :: r)

def byteHexRtOK (b : UInt8) : Bool :=
  (do let x ← unhexDigit (hexDigit (b.toNat / 16))
      let y ← unhexDigit (hexDigit (b.toNat % 16))
      pure ((x * 16 + y).toUInt8)) == some b

theorem byte_hex_rt : ∀ b, byteHexRtOK b = true := forall_u8 _ (by decide +kernel)

theorem fromHex_toHex (bs : Bytes) : fromHex (toHex bs) = some bs := by
  induction bs with
  | nil => rfl
  | cons b bs ih =>
    have h := byte_hex_rt b
    simp only [byteHexRtOK, beq_iff_eq] at h
    simp only [toHex, fromHex, ih]
    cases h1 : unhexDigit (hexDigit (b.toNat / 16)) <;> simp [h1] at h ⊢
    cases h2 : unhexDigit (hexDigit (b.toNat % 16)) <;> simp [h2] at h ⊢
    exact h

theorem toHex_length (bs : Bytes) : (toHex bs).length = 2 * bs.length := by
  induction bs with
  | nil => rfl
  | cons b bs ih => simp [toHex, ih]; omega

theorem toHex_append (a b : Bytes) : toHex (a ++ b) = toHex a ++ toHex b := by
  induction a with
  | nil => rfl
  | cons x xs ih => simp [toHex, ih]

end Pico
