import PicoVerif.Lemmas.C01Inv
import PicoVerif.Lemmas.C02
/-! The minifying writer for C01: what it writes for each token, and that the text lexes back. -/
namespace Pico.C01L
open Pico.Lex Pico.Wr


/-! ### the writer, one token at a time -/

def nkn (t : Tok) : Bool := t.kind == .name || t.kind == .keyword || t.kind == .number

def inner (d : Bytes) : Bytes := (d.drop 2).take (d.length - 4)

/-- the chunk written for a significant token under the name-factory state `ns` -/
def rcode (cfg : NameCfg) (ns : NameSt) (t : Tok) : Bytes :=
  if t.kind = .name then (getShortName cfg ns t.data).2
  else if t.kind = .label then [58, 58] ++ (getShortName cfg ns (inner t.data)).2 ++ [58, 58]
  else t.code

def namesAfter (cfg : NameCfg) (ns : NameSt) (t : Tok) : NameSt :=
  if t.kind = .name then (getShortName cfg ns t.data).1
  else if t.kind = .label then (getShortName cfg ns (inner t.data)).1
  else ns

theorem minStep_sig (cfg : NameCfg) (st : MinSt) (t : Tok) (ht : t.trivia = false) :
    (minStep cfg st t).2 = (if st.lastNKN && nkn t then [[32]] else []) ++ [rcode cfg st.names t] ∧
    (minStep cfg st t).1.seenCode = true ∧ (minStep cfg st t).1.lastNL = false ∧
    (nkn t = true → (minStep cfg st t).1.lastNKN = true) ∧
    (minStep cfg st t).1.names = namesAfter cfg st.names t := by
  simp only [Tok.trivia, Bool.or_eq_false_iff, beq_eq_false_iff_ne, ne_eq] at ht
  obtain ⟨⟨h1, h2⟩, h3⟩ := ht
  obtain ⟨names, lastNKN, lastNL, hdr, seenCode⟩ := st
  cases hk : t.kind <;> simp [hk] at h1 h2 h3 <;>
    cases lastNKN <;> cases seenCode <;>
    simp [minStep, hk, Tok.trivia, rcode, namesAfter, nkn, inner]

theorem minStep_newline (cfg : NameCfg) (st : MinSt) (t : Tok) (hk : t.kind = .newline) :
    minStep cfg st t = ({ st with lastNKN := false, lastNL := true }, if st.lastNL then [] else [[10]]) := by
  simp [minStep, hk, Tok.trivia]

theorem minStep_space (cfg : NameCfg) (st : MinSt) (t : Tok) (hk : t.kind = .space) :
    minStep cfg st t = (st, []) := by
  simp [minStep, hk, Tok.trivia]

theorem minStep_comment (cfg : NameCfg) (st : MinSt) (t : Tok) (hk : t.kind = .comment) :
    minStep cfg st t = if !st.seenCode && st.hdr < 2 then ({ st with hdr := st.hdr + 1 }, [t.code, [10]]) else (st, []) := by
  simp [minStep, hk, Tok.trivia]



/-! ### `needsSpace` and `joinChunks` -/

theorem needsSpace_head (prev cur : Bytes) (c : UInt8) (hc : cur.head? = some c) (h1 : c ≠ 45) (h2 : c ≠ 91)
    (h3 : c ≠ 46) : needsSpace prev cur = false := by
  unfold needsSpace
  rw [hc]
  cases prev.getLast? <;> simp [h1, h2, h3]

theorem needsSpace_nil_cur (prev : Bytes) : needsSpace prev [] = false := by
  unfold needsSpace; cases prev.getLast? <;> rfl

theorem needsSpace_sp (cur : Bytes) : needsSpace [32] cur = false := by
  unfold needsSpace; cases cur.head? <;> simp [isDigit]

theorem needsSpace_nl (cur : Bytes) : needsSpace [10] cur = false := by
  unfold needsSpace; cases cur.head? <;> simp [isDigit]

theorem joinChunks_cons (prev c : Bytes) (rest : List Bytes) :
    joinChunks prev (c :: rest) = (if needsSpace prev c then [32] else []) ++ c ++ joinChunks c rest := rfl

theorem joinChunks_nil (prev : Bytes) : joinChunks prev [] = [] := rfl

/-- the text written from a writer state on -/
def out (cfg : NameCfg) (st : MinSt) (prev : Bytes) (toks : List Tok) : Bytes :=
  joinChunks prev (minChunks cfg st toks)

theorem out_nil (cfg : NameCfg) (st : MinSt) (prev : Bytes) : out cfg st prev [] = [] := rfl

theorem out_cons_nil (cfg : NameCfg) (st : MinSt) (prev : Bytes) (t : Tok) (rest : List Tok)
    (h : (minStep cfg st t).2 = []) : out cfg st prev (t :: rest) = out cfg (minStep cfg st t).1 prev rest := by
  simp only [out, minChunks, h, List.nil_append]

theorem out_cons_one (cfg : NameCfg) (st : MinSt) (prev : Bytes) (t : Tok) (rest : List Tok) (c : Bytes)
    (h : (minStep cfg st t).2 = [c]) :
    out cfg st prev (t :: rest) = (if needsSpace prev c then [32] else []) ++ c ++ out cfg (minStep cfg st t).1 c rest := by
  simp only [out, minChunks, h, List.cons_append, List.nil_append, joinChunks_cons]

theorem out_cons_sp (cfg : NameCfg) (st : MinSt) (prev : Bytes) (t : Tok) (rest : List Tok) (c : Bytes)
    (h : (minStep cfg st t).2 = [[32], c]) :
    out cfg st prev (t :: rest) = [32] ++ c ++ out cfg (minStep cfg st t).1 c rest := by
  simp only [out, minChunks, h, List.cons_append, List.nil_append, joinChunks_cons, needsSpace_sp]
  rw [needsSpace_head prev [32] 32 rfl (by decide) (by decide) (by decide)]
  simp

theorem out_cons_two (cfg : NameCfg) (st : MinSt) (prev : Bytes) (t : Tok) (rest : List Tok) (c : Bytes)
    (h : (minStep cfg st t).2 = [c, [10]]) :
    out cfg st prev (t :: rest) =
      (if needsSpace prev c then [32] else []) ++ c ++ ([10] ++ out cfg (minStep cfg st t).1 [10] rest) := by
  simp only [out, minChunks, h, List.cons_append, List.nil_append, joinChunks_cons]
  rw [needsSpace_head c [10] 10 rfl (by decide) (by decide) (by decide)]
  simp



/-! ### names the factory returns -/

theorem nameChars_identStart : ∀ i, i < 26 → isIdentStart (Gen.nameChars.getD i 0) = true := by decide +kernel

theorem nameForId_all (id : Nat) : ∀ b ∈ nameForId id, isIdentStart b = true := by
  induction id using Nat.strongRecOn with
  | _ id ih =>
    rw [C02L.nameForId_eq]
    split
    · intro b hb
      rcases List.mem_append.mp hb with hb | hb
      · exact ih (id / 26) (Nat.div_lt_self (by omega) (by omega)) b hb
      · simp only [List.mem_singleton] at hb; subst hb
        exact nameChars_identStart _ (Nat.mod_lt _ (by omega))
    · intro b hb
      simp only [List.mem_singleton] at hb; subst hb
      exact nameChars_identStart _ (Nat.mod_lt _ (by omega))

theorem kws_preserved : (kws.all fun k => Gen.preservedNames.contains k) = true := by decide +kernel

theorem identStart_char (b : UInt8) (h : isIdentStart b = true) : isIdentChar b = true := by
  simp [isIdentChar, h]

/-- identifier-shaped text (possibly a reserved word) -/
structure IdLike (x : Bytes) : Prop where
  ne : x ≠ []
  start : ∀ c, x.head? = some c → isIdentStart c = true
  all : ∀ b ∈ x, isIdentChar b = true

theorem NameLike.idLike {x : Bytes} (h : NameLike x) : IdLike x := ⟨h.ne, h.start, h.all⟩

theorem nameForId_nameLike (cfg : NameCfg) (k : Nat) (hr : reserved cfg (nameForId k) = false) :
    NameLike (nameForId k) := by
  refine ⟨C02L.nameForId_ne_nil k, ?_, fun b hb => identStart_char b (nameForId_all k b hb), ?_⟩
  · intro c hc
    exact nameForId_all k c (List.mem_of_mem_head? hc)
  · intro hmem
    have := kws_preserved
    rw [List.all_eq_true] at this
    have hp := this _ hmem
    simp only [reserved, hp, Bool.true_or] at hr
    cases hr

theorem gsn_out (cfg : NameCfg) (st : NameSt) (n : Bytes) (hinv : C02L.Inv cfg st) :
    (getShortName cfg st n).2 = n ∨
      (reserved cfg (getShortName cfg st n).2 = false ∧ ∃ k, (getShortName cfg st n).2 = nameForId k) := by
  obtain ⟨hinv', -, hout⟩ := C02L.step_spec cfg st n hinv
  unfold C02L.Out at hout
  split at hout
  · exact Or.inl hout
  · right
    obtain ⟨h1, k, -, hk⟩ := hinv'.1 n _ hout
    exact ⟨h1, k, hk⟩

theorem gsn_nameLike (cfg : NameCfg) (st : NameSt) (n : Bytes) (hinv : C02L.Inv cfg st)
    (hn : n = [63] ∨ NameLike n) :
    (getShortName cfg st n).2 = [63] ∨ NameLike (getShortName cfg st n).2 := by
  rcases gsn_out cfg st n hinv with h | ⟨hr, k, hk⟩
  · rw [h]; exact hn
  · right; rw [hk] at hr ⊢; exact nameForId_nameLike cfg k hr

theorem gsn_idLike (cfg : NameCfg) (st : NameSt) (n : Bytes) (hinv : C02L.Inv cfg st) (hn : IdLike n) :
    IdLike (getShortName cfg st n).2 := by
  rcases gsn_out cfg st n hinv with h | ⟨hr, k, hk⟩
  · rw [h]; exact hn
  · rw [hk] at hr ⊢; exact (nameForId_nameLike cfg k hr).idLike

theorem namesAfter_inv (cfg : NameCfg) (ns : NameSt) (t : Tok) (hinv : C02L.Inv cfg ns) :
    C02L.Inv cfg (namesAfter cfg ns t) := by
  unfold namesAfter
  split
  · exact (C02L.step_spec cfg ns _ hinv).1
  · split
    · exact (C02L.step_spec cfg ns _ hinv).1
    · exact hinv

theorem inner_label (id : Bytes) : inner ([58, 58] ++ id ++ [58, 58]) = id := by
  simp [inner]



/-! ### fusable pairs (the definition of `C01.FusablePair`, restated here) -/

def wordLikeL (c : Bytes) : Bool :=
  (c.head?.map isIdentChar).getD false || (c.head? == some 46 && ((c.drop 1).head?.map isDigit).getD false)

def fusable (a b : Bytes) : Bool :=
  !needsSpace a b && !(wordLikeL a && wordLikeL b) &&
  (Spec.Lex.longestPrefixIn Spec.Lex.symbolSet (a ++ b) > a.length ||
   (a == [46] && (b.head?.map isDigit).getD false) ||
   ([47, 47].isPrefixOf (a ++ b) && a.length < 2) ||
   (a.getLast? == some 58 && b.head? == some 58) ||
   (a.getLast? == some 91 && b.head? == some 61))

theorem longestPrefixIn_ge_aux (set : List Bytes) (s : Bytes) (b : Nat) :
    b ≤ set.foldl (fun best l => if l.isPrefixOf s ∧ l.length > best then l.length else best) b ∧
    ∀ l ∈ set, l.isPrefixOf s = true →
      l.length ≤ set.foldl (fun best l => if l.isPrefixOf s ∧ l.length > best then l.length else best) b := by
  induction set generalizing b with
  | nil => simp
  | cons a rest ih =>
    simp only [List.foldl_cons]
    have hb' : b ≤ (if a.isPrefixOf s = true ∧ a.length > b then a.length else b) ∧
        (a.isPrefixOf s = true → a.length ≤ (if a.isPrefixOf s = true ∧ a.length > b then a.length else b)) := by
      split
      · rename_i h; exact ⟨by omega, fun _ => Nat.le_refl _⟩
      · rename_i h
        refine ⟨Nat.le_refl _, fun hp => ?_⟩
        have : ¬ a.length > b := fun h' => h ⟨hp, h'⟩
        omega
    generalize (if a.isPrefixOf s = true ∧ a.length > b then a.length else b) = b' at hb'
    obtain ⟨ih1, ih2⟩ := ih b'
    constructor
    · omega
    · intro l hl hp
      rcases List.mem_cons.mp hl with rfl | hl
      · have := hb'.2 hp; omega
      · exact ih2 l hl hp

theorem longestPrefixIn_ge (set : List Bytes) (s l : Bytes) (hl : l ∈ set) (hp : l.isPrefixOf s = true) :
    l.length ≤ Spec.Lex.longestPrefixIn set s :=
  (longestPrefixIn_ge_aux set s 0).2 l hl hp

/-- the symbol set is closed under extending a symbol prefix by one byte towards a longer symbol -/
theorem symLits_closed : (symLits.all fun l => (List.range l.length).all fun k =>
    !(0 < k && symLits.contains (l.take k)) || symLits.contains (l.take (k + 1))) = true := by decide +kernel

theorem symLits_not_wordLike : (symLits.all fun x => !wordLikeL x) = true := by decide +kernel

/-- if `x ++ [c]` is a prefix of a symbol and `x` is a symbol, then `x ++ [c]` is a symbol -/
theorem sym_ext_mem (x l : Bytes) (c : UInt8) (hx : x ∈ symLits) (hl : l ∈ symLits) (hp : x ++ [c] <+: l) :
    x ++ [c] ∈ symLits := by
  have hcl := symLits_closed
  rw [List.all_eq_true] at hcl
  have h1 := hcl l hl
  rw [List.all_eq_true] at h1
  have hlen : x.length < l.length := by have := hp.length_le; simp at this; omega
  have h2 := h1 x.length (List.mem_range.mpr hlen)
  have hxne : 0 < x.length := by
    have := symLits_ne_nil
    rw [List.all_eq_true] at this
    have := this x hx
    cases x with
    | nil => simp at this
    | cons _ _ => simp
  have hxt : l.take x.length = x := by
    have : x <+: l := (List.prefix_append x [c]).trans hp
    exact (List.prefix_iff_eq_take.mp this).symm
  have hxt1 : l.take (x.length + 1) = x ++ [c] := by
    have := List.prefix_iff_eq_take.mp hp
    simp at this; exact this.symm
  rw [hxt, hxt1] at h2
  simp only [Bool.or_eq_true, Bool.not_eq_true', Bool.and_eq_false_iff, decide_eq_false_iff_not,
    List.contains_iff_mem] at h2
  rcases h2 with (h | h) | h
  · omega
  · simp [hx] at h
  · simpa using h



/-! ### what follows a token in the output -/

/-- shape of the text written for a significant token of kind `k` -/
def CodeHead (k : Kind) (c : Bytes) : Prop :=
  match k with
  | .name => c = [63] ∨ NameLike c
  | .keyword => c ∈ kws
  | .number => NumOK c
  | .symbol => c ∈ symLits
  | .string => ∃ h t, c = h :: t ∧ (h = 34 ∨ h = 39 ∨ h = 91)
  | .label => ∃ t, c = 58 :: 58 :: t
  | _ => False

def sn (k : Kind) : Prop := k = .symbol ∨ k = .number

/-- the text `z` that follows the chunk `x` of a token of kind `ka` -/
inductive Next (x : Bytes) (ka : Kind) (lastNKN' : Bool) (z : Bytes) : Prop
  | nil (h : z = [])
  | sp (h : z.head? = some 32)
  | nl (h : z.head? = some 10)
  | tok (kb : Kind) (c z' : Bytes) (hz : z = c ++ z') (hc : CodeHead kb c) (hns : needsSpace x c = false)
      (hnkn : ¬(lastNKN' = true ∧ (kb = .name ∨ kb = .keyword ∨ kb = .number)))
      (hfus : sn ka → sn kb → fusable x c = false)

theorem num_head2 (x : Bytes) (hx : NumOK x) :
    ∃ h t, x = h :: t ∧ (isDigit h = true ∨ (h = 46 ∧ ∃ d t', t = d :: t' ∧ isDigit d = true)) := by
  obtain ⟨hne, r, hm⟩ := hx
  obtain ⟨-, hnum⟩ := matchOne_number_inv _ _ hm
  obtain ⟨h, t, rfl⟩ := List.exists_cons_of_ne_nil hne
  refine ⟨h, t, rfl, ?_⟩
  cases hd : isDigit h with
  | true => exact Or.inl rfl
  | false =>
    right
    have h46 : h = 46 := by
      cases Decidable.em (h = 46) with
      | inl e => exact e
      | inr e => rw [List.cons_append, candsNum_none h _ hd e] at hnum; cases hnum
    subst h46
    refine ⟨rfl, ?_⟩
    simp only [List.cons_append, candsNum, firstSome, mRadix_none _ _ _ _ _ (show (46 : UInt8) ≠ 48 by decide),
      mRadixFrac_none _ _ _ _ _ (show (46 : UInt8) ≠ 48 by decide), mDecimal_none _ _ hd] at hnum
    cases hdd : mDotDecimal (46 :: (t ++ r)) with
    | none => rw [hdd] at hnum; simp [firstSome] at hnum
    | some n =>
      rw [hdd] at hnum
      simp only [firstSome, Option.some.injEq, Prod.mk.injEq, true_and] at hnum
      subst hnum
      rw [mDotDecimal_cons] at hdd
      simp only [if_true] at hdd
      split at hdd
      · cases hdd
      · rename_i hsp
        simp only [Option.some.injEq, List.length_cons] at hdd
        cases t with
        | nil =>
          exfalso
          simp only [List.length_nil] at hdd
          omega
        | cons d t' =>
          refine ⟨d, t', rfl, ?_⟩
          simp only [List.cons_append, spanLen_cons] at hsp
          cases hdg : isDigit d with
          | true => rfl
          | false => simp [hdg] at hsp

theorem num_needsSpace (x cur : Bytes) (hx : NumOK x) (hc : cur.head? = some 46) : needsSpace x cur = true := by
  obtain ⟨h, t, rfl, hh⟩ := num_head2 x hx
  unfold needsSpace
  rw [hc]
  have : ∃ l, (h :: t).getLast? = some l := ⟨(h :: t).getLast (by simp), List.getLast?_eq_some_getLast (by simp)⟩
  obtain ⟨l, hl⟩ := this
  rw [hl]
  rcases hh with hh | ⟨rfl, d, t', rfl, hd⟩
  · simp [hh]
  · simp [hd]

/-- head byte of the text of a token that is not a name, keyword or number -/
theorem codeHead_other (kb : Kind) (c : Bytes) (hc : CodeHead kb c)
    (hk : ¬(kb = .name ∨ kb = .keyword ∨ kb = .number)) :
    ∃ h t, c = h :: t ∧ isIdentChar h = false ∧
      ((kb = .symbol ∧ c ∈ symLits) ∨ (kb = .string ∧ (h = 34 ∨ h = 39 ∨ h = 91)) ∨ (kb = .label ∧ h = 58 ∧ t.head? = some 58)) := by
  cases kb <;> simp only [CodeHead] at hc <;> try (exact absurd hc id)
  · obtain ⟨h, t, rfl, hh⟩ := hc
    refine ⟨h, t, rfl, ?_, Or.inr (Or.inl ⟨rfl, hh⟩)⟩
    rcases hh with rfl | rfl | rfl <;> decide
  · exact absurd (Or.inr (Or.inr rfl)) hk
  · exact absurd (Or.inl rfl) hk
  · obtain ⟨t, rfl⟩ := hc
    exact ⟨58, 58 :: t, rfl, by decide, Or.inr (Or.inr ⟨rfl, rfl, rfl⟩)⟩
  · exact absurd (Or.inr (Or.inl rfl)) hk
  · obtain ⟨h, t, rfl, hh⟩ := symLit_head c hc
    exact ⟨h, t, rfl, (symHead_facts h hh).2.2.2.2.2.2.2.2, Or.inl ⟨rfl, hc⟩⟩

theorem next_term (x : Bytes) (ka : Kind) (z : Bytes) (h : Next x ka true z) : Term z := by
  intro c hc
  cases h with
  | nil h => subst h; cases hc
  | sp h => rw [h] at hc; cases hc; decide
  | nl h => rw [h] at hc; cases hc; decide
  | tok kb cb z' hz hcb hns hnkn hfus =>
    obtain ⟨hd, t, rfl, hid, -⟩ := codeHead_other kb cb hcb (fun hk => hnkn ⟨rfl, hk⟩)
    subst hz
    simp only [List.cons_append, List.head?_cons, Option.some.injEq] at hc
    subst hc; exact hid

theorem next_termNum (x : Bytes) (ka : Kind) (z : Bytes) (hx : NumOK x) (h : Next x ka true z) : TermNum z := by
  intro c hc
  cases h with
  | nil h => subst h; cases hc
  | sp h => rw [h] at hc; cases hc; exact ⟨by decide, by decide⟩
  | nl h => rw [h] at hc; cases hc; exact ⟨by decide, by decide⟩
  | tok kb cb z' hz hcb hns hnkn hfus =>
    obtain ⟨hd, t, rfl, hid, -⟩ := codeHead_other kb cb hcb (fun hk => hnkn ⟨rfl, hk⟩)
    subst hz
    simp only [List.cons_append, List.head?_cons, Option.some.injEq] at hc
    subst hc
    refine ⟨hid, ?_⟩
    intro h46
    subst h46
    rw [num_needsSpace x _ hx rfl] at hns; cases hns



theorem symNext_sp_nl : (symLits.all fun x => symNextB x 32 && symNextB x 10) = true := by decide +kernel

/-- bytes inside a symbol after its first byte are not the first byte of a name, keyword, string or label -/
theorem symCont_facts : (symLits.all fun y => (y.drop 1).all fun b =>
    !isIdentStart b && b != 63 && b != 34 && b != 39 && b != 91 && b != 58) = true := by decide +kernel

theorem codeHead_head (kb : Kind) (c : Bytes) (hc : CodeHead kb c) :
    ∃ h t, c = h :: t ∧
      ((kb = .name ∧ (h = 63 ∨ isIdentStart h = true)) ∨ (kb = .keyword ∧ isIdentStart h = true) ∨
       (kb = .number ∧ (isDigit h = true ∨ h = 46)) ∨ (kb = .symbol ∧ c ∈ symLits) ∨
       (kb = .string ∧ (h = 34 ∨ h = 39 ∨ h = 91)) ∨ (kb = .label ∧ h = 58 ∧ t.head? = some 58)) := by
  cases kb <;> simp only [CodeHead] at hc <;> try (exact absurd hc id)
  · obtain ⟨h, t, rfl, hh⟩ := hc
    exact ⟨h, t, rfl, by simp [hh]⟩
  · obtain ⟨h, t, rfl, hh⟩ := num_head2 c hc
    refine ⟨h, t, rfl, Or.inr (Or.inr (Or.inl ⟨rfl, ?_⟩))⟩
    rcases hh with hh | ⟨rfl, -⟩
    · exact Or.inl hh
    · exact Or.inr rfl
  · rcases hc with rfl | hc
    · exact ⟨63, [], rfl, Or.inl ⟨rfl, Or.inl rfl⟩⟩
    · obtain ⟨h, t, rfl⟩ := List.exists_cons_of_ne_nil hc.ne
      exact ⟨h, t, rfl, Or.inl ⟨rfl, Or.inr (hc.start h rfl)⟩⟩
  · obtain ⟨t, rfl⟩ := hc
    exact ⟨58, 58 :: t, rfl, by simp⟩
  · have hk := kws_identChar
    rw [List.all_eq_true] at hk
    have := hk c hc
    simp only [Bool.and_eq_true] at this
    cases c with
    | nil => simp at this
    | cons h t => exact ⟨h, t, rfl, Or.inr (Or.inl ⟨rfl, by simpa using this.2⟩)⟩
  · obtain ⟨h, t, rfl, hh⟩ := symLit_head c hc
    exact ⟨h, t, rfl, by simp [hc]⟩

theorem needsSpace_true (x c : Bytes) (l f : UInt8) (hl : x.getLast? = some l) (hf : c.head? = some f)
    (h : (l = 45 ∧ f = 45) ∨ (l = 91 ∧ f = 91) ∨ (l = 46 ∧ f = 46)) : needsSpace x c = true := by
  unfold needsSpace
  rw [hl, hf]
  rcases h with ⟨rfl, rfl⟩ | ⟨rfl, rfl⟩ | ⟨rfl, rfl⟩ <;> simp

theorem fusable_true (a b : Bytes) (hns : needsSpace a b = false) (hw : wordLikeL a = false)
    (hcl : (decide (Spec.Lex.longestPrefixIn Spec.Lex.symbolSet (a ++ b) > a.length) ||
      (a == [46] && (b.head?.map isDigit).getD false) || ([47, 47].isPrefixOf (a ++ b) && decide (a.length < 2)) ||
      (a.getLast? == some 58 && b.head? == some 58) || (a.getLast? == some 91 && b.head? == some 61)) = true) :
    fusable a b = true := by
  unfold fusable
  rw [hns, hw, hcl]; rfl

/-- what a symbol's continuation looks like, from the writer's guarantees and the no-fusable-pair hypothesis -/
theorem next_sym (x z : Bytes) (hx : x ∈ symLits) (h : Next x .symbol false z ∨ Next x .symbol true z) :
    (∀ c, z.head? = some c → symNextB x c = true) ∧
    (x = [58] → z.head? = some 58 → ∃ z', z = 58 :: 58 :: z') := by
  have hT := symNext_sp_nl
  rw [List.all_eq_true] at hT
  have hTx := hT x hx
  simp only [Bool.and_eq_true] at hTx
  have hw : wordLikeL x = false := by
    have := symLits_not_wordLike
    rw [List.all_eq_true] at this
    simpa using this x hx
  have key : ∀ b, Next x .symbol b z → (∀ c, z.head? = some c → symNextB x c = true) ∧
      (x = [58] → z.head? = some 58 → ∃ z', z = 58 :: 58 :: z') := by
    intro b hN
    cases hN with
    | nil h => subst h; exact ⟨fun c hc => (by cases hc), fun _ hc => (by cases hc)⟩
    | sp h => exact ⟨fun c hc => (by rw [h] at hc; cases hc; exact hTx.1), fun _ hc => (by rw [h] at hc; cases hc)⟩
    | nl h => exact ⟨fun c hc => (by rw [h] at hc; cases hc; exact hTx.2), fun _ hc => (by rw [h] at hc; cases hc)⟩
    | tok kb cb z' hz hcb hns hnkn hfus =>
      obtain ⟨hd, t, rfl, hcls⟩ := codeHead_head kb cb hcb
      subst hz
      obtain ⟨xl, hxl⟩ : ∃ l, x.getLast? = some l := by
        have := symLits_ne_nil
        rw [List.all_eq_true] at this
        have hne : x ≠ [] := by have := this x hx; intro e; subst e; simp at this
        exact ⟨x.getLast hne, List.getLast?_eq_some_getLast hne⟩
      have hfus' : sn kb → fusable x (hd :: t) = false := hfus (Or.inl rfl)
      constructor
      · intro c hc
        simp only [List.cons_append, List.head?_cons, Option.some.injEq] at hc
        subst hc
        unfold symNextB
        simp only [Bool.and_eq_true, Bool.not_eq_true', Bool.and_eq_false_iff, beq_eq_false_iff_ne, ne_eq,
          Bool.or_eq_false_iff, List.any_eq_false, Bool.not_eq_true]
        refine ⟨⟨⟨⟨?_, ?_⟩, ?_⟩, ?_⟩, ?_⟩
        · -- `-` `-`
          by_cases h1 : x.getLast? = some 45 ∧ hd = 45
          · exfalso
            have := needsSpace_true x (hd :: t) 45 hd h1.1 rfl (Or.inl ⟨rfl, h1.2⟩)
            rw [this] at hns; cases hns
          · rcases Decidable.em (x.getLast? = some 45) with e | e
            · right; exact fun e' => h1 ⟨e, e'⟩
            · left; exact e
        · -- `/` `/`
          by_cases h1 : x = [47] ∧ hd = 47
          · exfalso
            obtain ⟨rfl, rfl⟩ := h1
            have hkb : kb = .symbol := by
              rcases hcls with ⟨-, h | h⟩ | ⟨-, h⟩ | ⟨-, h | h⟩ | ⟨h, -⟩ | ⟨-, h | h | h⟩ | ⟨-, h, -⟩ <;>
                first | exact h | (exact absurd h (by decide))
            have := fusable_true [47] (47 :: t) hns hw (by simp [List.isPrefixOf])
            rw [hfus' (Or.inl hkb)] at this; cases this
          · rcases Decidable.em (x = [47]) with e | e
            · right; exact fun e' => h1 ⟨e, e'⟩
            · left; exact e
        · -- `.` digit
          by_cases h1 : x = [46] ∧ isDigit hd = true
          · exfalso
            obtain ⟨rfl, hdg⟩ := h1
            have hkb : kb = .number := by
              rcases hcls with ⟨-, h | h⟩ | ⟨-, h⟩ | ⟨h, -⟩ | ⟨-, h⟩ | ⟨-, h | h | h⟩ | ⟨-, h, -⟩
              · subst h; exact absurd hdg (by decide)
              · exact absurd hdg (by rw [(identStart_facts hd h).2.2.2.2.2.2.1]; decide)
              · exact absurd hdg (by rw [(identStart_facts hd h).2.2.2.2.2.2.1]; decide)
              · exact h
              · obtain ⟨h', t', he, hh⟩ := symLit_head _ h
                simp only [List.cons.injEq] at he
                obtain ⟨rfl, -⟩ := he
                exact absurd hdg (by rw [(symHead_facts _ hh).2.2.2.2.1]; decide)
              · subst h; exact absurd hdg (by decide)
              · subst h; exact absurd hdg (by decide)
              · subst h; exact absurd hdg (by decide)
              · subst h; exact absurd hdg (by decide)
            have := fusable_true [46] (hd :: t) hns hw (by simp [hdg])
            rw [hfus' (Or.inr hkb)] at this; cases this
          · rcases Decidable.em (x = [46]) with e | e
            · right; simpa using fun e' => h1 ⟨e, e'⟩
            · left; exact e
        · -- `[` `=` / `[` `[`
          by_cases h1 : x = [91]
          · right
            subst h1
            constructor
            · intro e; subst e
              have hkb : kb = .symbol := by
                rcases hcls with ⟨-, h | h⟩ | ⟨-, h⟩ | ⟨-, h | h⟩ | ⟨h, -⟩ | ⟨-, h | h | h⟩ | ⟨-, h, -⟩ <;>
                  first | exact h | (exact absurd h (by decide))
              have := fusable_true [91] (61 :: t) hns hw (by simp)
              rw [hfus' (Or.inl hkb)] at this; cases this
            · intro e; subst e
              have := needsSpace_true [91] (91 :: t) 91 91 rfl rfl (Or.inr (Or.inl ⟨rfl, rfl⟩))
              rw [this] at hns; cases hns
          · left; exact h1
        · -- a longer symbol
          intro l hl
          cases hp : (x ++ [hd]).isPrefixOf l with
          | false => rfl
          | true =>
            exfalso
            rw [List.isPrefixOf_iff_prefix] at hp
            have hmem := sym_ext_mem x l hd hx hl hp
            have hcont := symCont_facts
            rw [List.all_eq_true] at hcont
            have h2 := hcont _ hmem
            rw [List.all_eq_true] at h2
            have hxne : x ≠ [] := by intro e; subst e; simp at hxl
            have h3 := h2 hd (by
              obtain ⟨a, u, rfl⟩ := List.exists_cons_of_ne_nil hxne
              simp)
            simp only [Bool.and_eq_true, Bool.not_eq_true', bne_iff_ne, ne_eq] at h3
            obtain ⟨⟨⟨⟨⟨k1, k2⟩, k3⟩, k4⟩, k5⟩, k6⟩ := h3
            have hkb : sn kb := by
              rcases hcls with ⟨-, h | h⟩ | ⟨-, h⟩ | ⟨h, -⟩ | ⟨h, -⟩ | ⟨-, h | h | h⟩ | ⟨-, h, -⟩
              · exact absurd h k2
              · rw [k1] at h; cases h
              · rw [k1] at h; cases h
              · exact Or.inr h
              · exact Or.inl h
              · exact absurd h k3
              · exact absurd h k4
              · exact absurd h k5
              · exact absurd h k6
            have hge := longestPrefixIn_ge Spec.Lex.symbolSet (x ++ hd :: t) (x ++ [hd]) hmem (by
              rw [List.isPrefixOf_iff_prefix]; exact ⟨t, by simp⟩)
            have := fusable_true x (hd :: t) hns hw (by
              have : decide (Spec.Lex.longestPrefixIn Spec.Lex.symbolSet (x ++ hd :: t) > x.length) = true := by
                simp at hge ⊢; omega
              rw [this]; rfl)
            rw [hfus' hkb] at this; cases this
      · intro hx58 hz58
        subst hx58
        simp only [List.cons_append, List.head?_cons, Option.some.injEq] at hz58
        subst hz58
        rcases hcls with ⟨-, h | h⟩ | ⟨-, h⟩ | ⟨-, h | h⟩ | ⟨h, -⟩ | ⟨-, h | h | h⟩ | ⟨-, -, h⟩
        · exact absurd h (by decide)
        · exact absurd h (by decide)
        · exact absurd h (by decide)
        · exact absurd h (by decide)
        · exact absurd h (by decide)
        · exfalso
          have := fusable_true [58] (58 :: t) hns hw (by simp)
          rw [hfus' (Or.inl h)] at this; cases this
        · exact absurd h (by decide)
        · exact absurd h (by decide)
        · exact absurd h (by decide)
        · cases t with
          | nil => simp at h
          | cons d t' =>
            simp only [List.head?_cons, Option.some.injEq] at h
            subst h
            exact ⟨t' ++ z', by simp⟩
  rcases h with h | h
  · exact key false h
  · exact key true h



/-! ### the text of one token lexes back to that token -/

theorem code_plain (t : Tok) (h : t.kind ≠ .string) : t.code = t.data := by
  simp [Tok.code, h]

theorem rcode_plain (cfg : NameCfg) (ns : NameSt) (t : Tok) (h1 : t.kind ≠ .string) (h2 : t.kind ≠ .name)
    (h3 : t.kind ≠ .label) : rcode cfg ns t = t.data := by
  simp [rcode, h2, h3, code_plain t h1]

theorem labelOK_inner (d : Bytes) (h : LabelOK d) : d = [58, 58] ++ inner d ++ [58, 58] ∧ IdLike (inner d) := by
  obtain ⟨id, rfl, hne, hs, hall⟩ := h
  rw [inner_label]
  exact ⟨rfl, hne, hs, hall⟩

theorem rcode_head (cfg : NameCfg) (ns : NameSt) (a : Tok) (hwf : WF a) (htr : a.trivia = false)
    (hinv : C02L.Inv cfg ns) : CodeHead a.kind (rcode cfg ns a) := by
  cases hk : a.kind with
  | space => simp [Tok.trivia, hk] at htr
  | newline => simp [Tok.trivia, hk] at htr
  | comment => simp [Tok.trivia, hk] at htr
  | name =>
    simp only [CodeHead, rcode, hk, if_true]
    exact gsn_nameLike cfg ns a.data hinv (hwf.name hk)
  | keyword =>
    rw [rcode_plain cfg ns a (by simp [hk]) (by simp [hk]) (by simp [hk])]
    exact hwf.keyword hk
  | number =>
    rw [rcode_plain cfg ns a (by simp [hk]) (by simp [hk]) (by simp [hk])]
    exact hwf.number hk
  | symbol =>
    rw [rcode_plain cfg ns a (by simp [hk]) (by simp [hk]) (by simp [hk])]
    exact hwf.symbol hk
  | label =>
    simp only [CodeHead, rcode, hk, reduceCtorEq, if_false, if_true]
    exact ⟨_, rfl⟩
  | string =>
    simp only [CodeHead, rcode, hk, reduceCtorEq, if_false, Tok.code, if_true]
    rcases hwf.str hk with ⟨hm, q, hq, hq'⟩ | ⟨hq, n, hm, -⟩
    · rw [hm, hq]
      exact ⟨q, _, rfl, by rcases hq' with h | h <;> simp [h]⟩
    · rw [hm]
      exact ⟨91, _, rfl, by simp⟩

theorem plain_of_head (h : UInt8) (t z : Bytes) (h1 : h ≠ 45) (h2 : h ≠ 91) (h3 : h ≠ 39) (h4 : h ≠ 34) :
    [45, 45, 91, 91].isPrefixOf (h :: t ++ z) = false ∧ NoLongOpen (h :: t ++ z) ∧
      ((h :: t ++ z).head? ≠ some 39 ∧ (h :: t ++ z).head? ≠ some 34) := by
  refine ⟨by simp [List.isPrefixOf, Ne.symm h1], ?_, by simp [h3], by simp [h4]⟩
  intro r hr
  simp only [List.cons_append, List.cons.injEq] at hr
  exact absurd hr.1 h2

/-- what the re-lexed token must be, with the names state at the time the token is written -/
def rcore (cfg : NameCfg) (ns : NameSt) (a : Tok) : Core :=
  (a.kind,
   (if a.kind = .name then (getShortName cfg ns a.data).2
    else if a.kind = .label then [58, 58] ++ (getShortName cfg ns (inner a.data)).2 ++ [58, 58]
    else a.data),
   a.quote, a.mlq)

theorem lexRun_tok (cfg : NameCfg) (ns : NameSt) (a : Tok) (z : Bytes) (sigs : List Core) (b : Bool)
    (hwf : WF a) (htr : a.trivia = false) (hinv : C02L.Inv cfg ns)
    (hN : Next (rcode cfg ns a) a.kind b z) (hb : nkn a = true → b = true) (hz : LexRun z sigs) :
    LexRun (rcode cfg ns a ++ z) (rcore cfg ns a :: sigs) := by
  cases hk : a.kind with
  | space => simp [Tok.trivia, hk] at htr
  | newline => simp [Tok.trivia, hk] at htr
  | comment => simp [Tok.trivia, hk] at htr
  | name =>
    have hpl := hwf.plain (by simp [hk])
    have hb' : b = true := hb (by simp [nkn, hk])
    subst hb'
    simp only [rcore, hk, if_true, hpl.1, hpl.2]
    rw [hk] at hN
    simp only [rcode, hk, if_true] at hN ⊢
    rcases gsn_nameLike cfg ns a.data hinv (hwf.name hk) with hx | hx
    · rw [hx]
      obtain ⟨p1, p2, p3⟩ := plain_of_head 63 [] z (by decide) (by decide) (by decide) (by decide)
      have := LexRun_match [63] z .name sigs (by simp) p1 p2 p3 (matchOne_qmark z) hz
      simpa [trivKind] using this
    · obtain ⟨h, t, hxe⟩ := List.exists_cons_of_ne_nil hx.ne
      rw [hxe] at hx hN ⊢
      have hs := hx.start h rfl
      obtain ⟨h1, -, -, -, -, -, -, -, -, h10, h11, h12, -, -, -⟩ := identStart_facts h hs
      obtain ⟨p1, p2, p3⟩ := plain_of_head h t z h1 h10 h11 h12
      have := LexRun_match (h :: t) z .name sigs (by simp) p1 p2 p3
        (matchOne_name (h :: t) z hx (next_term _ _ _ hN)) hz
      simpa [trivKind] using this
  | keyword =>
    have hpl := hwf.plain (by simp [hk])
    have hb' : b = true := hb (by simp [nkn, hk])
    subst hb'
    rw [hk] at hN
    simp only [rcore, hk, reduceCtorEq, if_false, hpl.1, hpl.2]
    rw [rcode_plain cfg ns a (by simp [hk]) (by simp [hk]) (by simp [hk])] at hN ⊢
    have hx := hwf.keyword hk
    obtain ⟨h, t, hxe, hcls⟩ := codeHead_head .keyword a.data hx
    have hs : isIdentStart h = true := by
      rcases hcls with ⟨h', -⟩ | ⟨-, h'⟩ | ⟨h', -⟩ | ⟨h', -⟩ | ⟨h', -⟩ | ⟨h', -⟩ <;> first | exact h' | cases h'
    rw [hxe] at hx hN ⊢
    obtain ⟨h1, -, -, -, -, -, -, -, -, h10, h11, h12, -, -, -⟩ := identStart_facts h hs
    obtain ⟨p1, p2, p3⟩ := plain_of_head h t z h1 h10 h11 h12
    have := LexRun_match (h :: t) z .keyword sigs (by simp) p1 p2 p3
      (matchOne_keyword (h :: t) z hx (next_term _ _ _ hN)) hz
    simpa [trivKind] using this
  | number =>
    have hpl := hwf.plain (by simp [hk])
    have hb' : b = true := hb (by simp [nkn, hk])
    subst hb'
    rw [hk] at hN
    simp only [rcore, hk, reduceCtorEq, if_false, hpl.1, hpl.2]
    rw [rcode_plain cfg ns a (by simp [hk]) (by simp [hk]) (by simp [hk])] at hN ⊢
    have hx := hwf.number hk
    obtain ⟨hne, r, hm⟩ := hwf.number hk
    obtain ⟨hm', h, t, hxe, hcls⟩ := matchOne_number_ctx a.data r z hne (next_termNum _ _ _ hx hN) hm
    rw [hxe] at hm' ⊢
    obtain ⟨h1, -, -, -, -, -, h7, h8, h9⟩ := digit_or_dot_facts h hcls
    obtain ⟨p1, p2, p3⟩ := plain_of_head h t z h1 h9 h7 h8
    have := LexRun_match (h :: t) z .number sigs (by simp) p1 p2 p3 hm' hz
    simpa [trivKind] using this
  | symbol =>
    have hpl := hwf.plain (by simp [hk])
    rw [hk] at hN
    simp only [rcore, hk, reduceCtorEq, if_false, hpl.1, hpl.2]
    rw [rcode_plain cfg ns a (by simp [hk]) (by simp [hk]) (by simp [hk])] at hN ⊢
    have hx := hwf.symbol hk
    have hN' : Next a.data .symbol false z ∨ Next a.data .symbol true z := by
      cases b
      · exact Or.inl hN
      · exact Or.inr hN
    obtain ⟨hB, hL⟩ := next_sym a.data z hx hN'
    obtain ⟨hm, p1, p2, p3, p4⟩ := sym_match a.data z hx hB hL
    have hne : a.data ≠ [] := by
      obtain ⟨h, t, e, -⟩ := symLit_head _ hx
      rw [e]; simp
    have := LexRun_match a.data z .symbol sigs hne p1 p2 ⟨p3, p4⟩ hm hz
    simpa [trivKind] using this
  | label =>
    have hpl := hwf.plain (by simp [hk])
    simp only [rcore, rcode, hk, reduceCtorEq, if_false, if_true, hpl.1, hpl.2]
    obtain ⟨-, hid⟩ := labelOK_inner a.data (hwf.label hk)
    have hid' := gsn_idLike cfg ns (inner a.data) hinv hid
    generalize (getShortName cfg ns (inner a.data)).2 = nm at hid' ⊢
    obtain ⟨p1, p2, p3⟩ := plain_of_head 58 (58 :: nm ++ [58, 58]) z (by decide) (by decide) (by decide) (by decide)
    have hm := matchOne_label nm z hid'.ne hid'.start hid'.all
    have := LexRun_match ([58, 58] ++ nm ++ [58, 58]) z .label sigs (by simp)
      (by simpa using p1) (by simpa using p2) (by simp) hm hz
    simpa [trivKind] using this
  | string =>
    simp only [rcore, rcode, hk, reduceCtorEq, if_false, Tok.code, if_true]
    rcases hwf.str hk with ⟨hm, q, hq, hq'⟩ | ⟨hq, n, hm, hok⟩
    · rw [hm, hq]
      have := LexRun_quoted q a.data z sigs hq' hz
      simpa using this
    · rw [hm, hq]
      have := LexRun_long n a.data z sigs hok hz
      simpa [longPat] using this



/-! ### the text after a token, from the writer -/

theorem sigOf_cons_triv (t : Tok) (rest : List Tok) (h : t.trivia = true) : sigOf (t :: rest) = sigOf rest := by
  simp [sigOf, h]

theorem sigOf_cons_sig (t : Tok) (rest : List Tok) (h : t.trivia = false) : sigOf (t :: rest) = t :: sigOf rest := by
  simp [sigOf, h]

theorem trivia_cases (t : Tok) : (t.trivia = false) ∨ t.kind = .space ∨ t.kind = .newline ∨ t.kind = .comment := by
  cases hk : t.kind <;> simp [Tok.trivia, hk]

theorem out_next (cfg : NameCfg) (x : Bytes) (ka : Kind) : ∀ (rest : List Tok) (st : MinSt),
    st.seenCode = true → (st.lastNL = true → st.lastNKN = false) → C02L.Inv cfg st.names →
    (∀ t ∈ rest, WF t) →
    (∀ b bs, sigOf rest = b :: bs → sn ka → sn b.kind → fusable x b.data = false) →
    Next x ka st.lastNKN (out cfg st x rest) := by
  intro rest
  induction rest with
  | nil => intro st _ _ _ _ _; exact Next.nil rfl
  | cons t rest ih =>
    intro st hseen hJ hinv hwf hfus
    have hwf' : ∀ t' ∈ rest, WF t' := fun t' h => hwf t' (List.mem_cons_of_mem _ h)
    rcases trivia_cases t with htr | hk | hk | hk
    · -- a significant token
      obtain ⟨hch, -, -, -, -⟩ := minStep_sig cfg st t htr
      have hcode := rcode_head cfg st.names t (hwf t (by simp)) htr hinv
      by_cases hsp : (st.lastNKN && nkn t) = true
      · rw [if_pos hsp] at hch
        rw [out_cons_sp cfg st x t rest _ hch]
        exact Next.sp rfl
      · rw [if_neg hsp] at hch
        rw [out_cons_one cfg st x t rest _ hch]
        by_cases hns : needsSpace x (rcode cfg st.names t) = true
        · rw [if_pos hns]; exact Next.sp rfl
        · rw [if_neg hns]
          refine Next.tok t.kind (rcode cfg st.names t) (out cfg (minStep cfg st t).1 (rcode cfg st.names t) rest) (by simp) hcode (by simpa using hns) ?_ ?_
          · rintro ⟨h1, h2⟩
            apply hsp
            rw [h1]
            rcases h2 with h | h | h <;> simp [nkn, h]
          · intro hsa hsb
            have := hfus t (sigOf rest) (sigOf_cons_sig t rest htr) hsa hsb
            rw [rcode_plain cfg st.names t (by rcases hsb with h | h <;> simp [h])
              (by rcases hsb with h | h <;> simp [h]) (by rcases hsb with h | h <;> simp [h])]
            exact this
    · -- space
      have htriv : t.trivia = true := by simp [Tok.trivia, hk]
      have hms := minStep_space cfg st t hk
      rw [out_cons_nil cfg st x t rest (by rw [hms]), hms]
      exact ih st hseen hJ hinv hwf' (fun b bs h => hfus b bs (by rw [sigOf_cons_triv t rest htriv]; exact h))
    · -- newline
      have htriv : t.trivia = true := by simp [Tok.trivia, hk]
      have hms := minStep_newline cfg st t hk
      cases hnl : st.lastNL with
      | true =>
        rw [hnl] at hms
        rw [out_cons_nil cfg st x t rest (by rw [hms]; rfl), hms]
        have := ih { st with lastNKN := false, lastNL := true } hseen (fun _ => rfl) hinv hwf'
          (fun b bs h => hfus b bs (by rw [sigOf_cons_triv t rest htriv]; exact h))
        rw [hJ hnl]; exact this
      | false =>
        rw [hnl] at hms
        rw [out_cons_one cfg st x t rest [10] (by rw [hms]; rfl)]
        rw [needsSpace_head x [10] 10 rfl (by decide) (by decide) (by decide)]
        exact Next.nl rfl
    · -- comment (dropped: code has been seen)
      have htriv : t.trivia = true := by simp [Tok.trivia, hk]
      have hms := minStep_comment cfg st t hk
      rw [hseen] at hms
      simp only [Bool.not_true, Bool.false_and, Bool.false_eq_true, if_false] at hms
      rw [out_cons_nil cfg st x t rest (by rw [hms]), hms]
      exact ih st hseen hJ hinv hwf' (fun b bs h => hfus b bs (by rw [sigOf_cons_triv t rest htriv]; exact h))



/-! ### separators and header comments -/

theorem LexRun_sp (y : Bytes) (sigs : List Core) (b : Bool) (hy : ∀ c, y.head? = some c → c ≠ 32 ∧ c ≠ 9)
    (h : LexRun y sigs) : LexRun ((if b then [32] else []) ++ y) sigs := by
  cases b with
  | false => simpa using h
  | true =>
    obtain ⟨p1, p2, p3⟩ := plain_of_head 32 [] y (by decide) (by decide) (by decide) (by decide)
    have := LexRun_match [32] y .space sigs (by simp) p1 p2 p3 (matchOne_space y hy) h
    simpa [trivKind] using this

theorem LexRun_nl (z : Bytes) (sigs : List Core) (h : LexRun z sigs) : LexRun ([10] ++ z) sigs := by
  obtain ⟨p1, p2, p3⟩ := plain_of_head 10 [] z (by decide) (by decide) (by decide) (by decide)
  have := LexRun_match [10] z .newline sigs (by simp) p1 p2 p3 (matchOne_newline z) h
  simpa [trivKind] using this

theorem LexRun_comment (d z : Bytes) (sigs : List Core) (hd : CommentOK d) (h : LexRun z sigs) :
    LexRun (d ++ ([10] ++ z)) sigs ∧ ∀ c, (d ++ ([10] ++ z)).head? = some c → c ≠ 32 ∧ c ≠ 9 := by
  have hnl := LexRun_nl z sigs h
  rcases hd with ⟨w, rfl, hw⟩ | ⟨c, body, rfl, hc, hb, hpre⟩
  · refine ⟨?_, ?_⟩
    · have := LexRun_block w ([10] ++ z) sigs hw hnl
      simpa using this
    · intro c hc; simp at hc; subst hc; exact ⟨by decide, by decide⟩
  · refine ⟨?_, ?_⟩
    · have hm := matchOne_lineComment c body ([10] ++ z) hc hb (by intro d hd; simp at hd; exact hd.symm)
      have hc45 : c ≠ 91 ∧ c ≠ 39 ∧ c ≠ 34 := by rcases hc with rfl | rfl <;> decide
      have p1 : [45, 45, 91, 91].isPrefixOf (c :: c :: body ++ ([10] ++ z)) = false := by
        cases hp : [45, 45, 91, 91].isPrefixOf (c :: c :: body ++ ([10] ++ z)) with
        | false => rfl
        | true =>
          exfalso
          rw [List.isPrefixOf_iff_prefix] at hp
          rcases Nat.le_total ([45, 45, 91, 91] : Bytes).length (c :: c :: body).length with hle | hle
          · have := List.prefix_of_prefix_length_le hp (List.prefix_append _ _) hle
            rw [← List.isPrefixOf_iff_prefix, hpre] at this; cases this
          · obtain ⟨u, hu⟩ := List.prefix_of_prefix_length_le (List.prefix_append _ _) hp hle
            rw [← hu, List.prefix_append_right_inj] at hp
            have hune : u ≠ [] := by
              intro e; subst e
              simp at hu
              obtain ⟨rfl, rfl⟩ := hu
              exact absurd hpre (by decide)
            obtain ⟨u0, u', rfl⟩ := List.exists_cons_of_ne_nil hune
            obtain ⟨w, hw⟩ := hp
            simp only [List.cons_append, List.nil_append, List.cons.injEq] at hw
            have : (10 : UInt8) ∈ ([45, 45, 91, 91] : Bytes) := by
              rw [← hu, hw.1]; simp
            simp at this
      have p2 : NoLongOpen (c :: c :: body ++ ([10] ++ z)) := by
        intro r hr
        simp only [List.cons_append, List.cons.injEq] at hr
        exact absurd hr.1 hc45.1
      have := LexRun_match (c :: c :: body) ([10] ++ z) .comment sigs (by simp) p1 p2
        ⟨by simp [hc45.2.1], by simp [hc45.2.2]⟩ hm hnl
      simpa [trivKind] using this
    · intro c' hc'
      simp at hc'; subst hc'
      rcases hc with rfl | rfl <;> exact ⟨by decide, by decide⟩

theorem codeHead_not_space (kb : Kind) (c z : Bytes) (hc : CodeHead kb c) :
    ∀ b, (c ++ z).head? = some b → b ≠ 32 ∧ b ≠ 9 := by
  obtain ⟨h, t, rfl, hcls⟩ := codeHead_head kb c hc
  intro b hb
  simp only [List.cons_append, List.head?_cons, Option.some.injEq] at hb
  subst hb
  rcases hcls with ⟨-, hh | hh⟩ | ⟨-, hh⟩ | ⟨-, hh⟩ | ⟨-, hh⟩ | ⟨-, hh | hh | hh⟩ | ⟨-, hh, -⟩
  · subst hh; exact ⟨by decide, by decide⟩
  · have := identStart_facts h hh; exact ⟨this.2.2.1, this.2.2.2.1⟩
  · have := identStart_facts h hh; exact ⟨this.2.2.1, this.2.2.2.1⟩
  · have := digit_or_dot_facts h hh; exact ⟨this.2.2.1, this.2.2.2.1⟩
  · obtain ⟨h', t', he, hh'⟩ := symLit_head _ hh
    simp only [List.cons.injEq] at he
    obtain ⟨rfl, -⟩ := he
    have := symHead_facts _ hh'; exact ⟨this.1, this.2.1⟩
  · subst hh; exact ⟨by decide, by decide⟩
  · subst hh; exact ⟨by decide, by decide⟩
  · subst hh; exact ⟨by decide, by decide⟩
  · subst hh; exact ⟨by decide, by decide⟩



/-! ### the renaming function and the whole output -/

def Ext (a b : NameSt) : Prop := ∀ m v, C02L.lookup a m = some v → C02L.lookup b m = some v

def finalSt (cfg : NameCfg) (st : MinSt) (toks : List Tok) : MinSt :=
  toks.foldl (fun s t => (minStep cfg s t).1) st

/-- the renaming read off a final factory state -/
def fOf (cfg : NameCfg) (nf : NameSt) (n : Bytes) : Bytes :=
  if cfg.keepAll = true ∨ reserved cfg n = true then n else (C02L.lookup nf n).getD n

def fcore (cfg : NameCfg) (nf : NameSt) (a : Tok) : Core :=
  (a.kind,
   (if a.kind = .name then fOf cfg nf a.data
    else if a.kind = .label then [58, 58] ++ fOf cfg nf (inner a.data) ++ [58, 58]
    else a.data),
   a.quote, a.mlq)

def FusFree : List Tok → Prop
  | a :: b :: r => (sn a.kind → sn b.kind → fusable a.data b.data = false) ∧ FusFree (b :: r)
  | _ => True

theorem minStep_names (cfg : NameCfg) (st : MinSt) (t : Tok) :
    (minStep cfg st t).1.names = if t.trivia then st.names else namesAfter cfg st.names t := by
  rcases trivia_cases t with htr | hk | hk | hk
  · rw [(minStep_sig cfg st t htr).2.2.2.2, htr]; rfl
  · rw [minStep_space cfg st t hk]; simp [Tok.trivia, hk]
  · rw [minStep_newline cfg st t hk]; simp [Tok.trivia, hk]
  · rw [minStep_comment cfg st t hk]; split <;> simp [Tok.trivia, hk]

theorem ext_namesAfter (cfg : NameCfg) (ns : NameSt) (t : Tok) (hinv : C02L.Inv cfg ns) :
    Ext ns (namesAfter cfg ns t) := by
  unfold namesAfter
  split
  · exact (C02L.step_spec cfg ns _ hinv).2.1
  · split
    · exact (C02L.step_spec cfg ns _ hinv).2.1
    · exact fun _ _ h => h

theorem minStep_names_inv (cfg : NameCfg) (st : MinSt) (t : Tok) (hinv : C02L.Inv cfg st.names) :
    C02L.Inv cfg (minStep cfg st t).1.names ∧ Ext st.names (minStep cfg st t).1.names := by
  rw [minStep_names]
  split
  · exact ⟨hinv, fun _ _ h => h⟩
  · exact ⟨namesAfter_inv cfg _ t hinv, ext_namesAfter cfg _ t hinv⟩

theorem finalSt_ext (cfg : NameCfg) : ∀ (toks : List Tok) (st : MinSt), C02L.Inv cfg st.names →
    Ext st.names (finalSt cfg st toks).names := by
  intro toks
  induction toks with
  | nil => intro st _; exact fun _ _ h => h
  | cons t rest ih =>
    intro st hinv
    obtain ⟨hinv', hext⟩ := minStep_names_inv cfg st t hinv
    have := ih (minStep cfg st t).1 hinv'
    intro m v h
    exact this m v (hext m v h)

theorem out_fOf (cfg : NameCfg) (s nf : NameSt) (n o : Bytes) (ho : C02L.Out cfg s n o) (he : Ext s nf) :
    o = fOf cfg nf n := by
  unfold C02L.Out at ho
  unfold fOf
  split at ho
  · rename_i h; rw [if_pos h]; exact ho
  · rename_i h; rw [if_neg h, he n o ho]; rfl

theorem rcore_eq_fcore (cfg : NameCfg) (ns nf : NameSt) (a : Tok) (hinv : C02L.Inv cfg ns)
    (he : Ext (namesAfter cfg ns a) nf) : rcore cfg ns a = fcore cfg nf a := by
  unfold rcore fcore
  unfold namesAfter at he
  by_cases h1 : a.kind = .name
  · simp only [h1, if_true] at he ⊢
    rw [out_fOf cfg _ nf _ _ (C02L.step_spec cfg ns a.data hinv).2.2 he]
  · by_cases h2 : a.kind = .label
    · simp only [h2, reduceCtorEq, if_false, if_true] at he ⊢
      rw [out_fOf cfg _ nf _ _ (C02L.step_spec cfg ns (inner a.data) hinv).2.2 he]
    · simp only [h1, h2, if_false]



theorem finalSt_cons (cfg : NameCfg) (st : MinSt) (t : Tok) (rest : List Tok) :
    finalSt cfg st (t :: rest) = finalSt cfg (minStep cfg st t).1 rest := rfl

theorem FusFree_tail (t : Tok) (l : List Tok) (h : FusFree (t :: l)) : FusFree l := by
  cases l with
  | nil => trivial
  | cons b r => exact h.2

/-- **main induction**: the text written from any reachable writer state lexes to the renamed tokens -/
theorem main_run (cfg : NameCfg) (nf : NameSt) : ∀ (toks : List Tok) (st : MinSt) (prev : Bytes),
    (st.lastNL = true → st.lastNKN = false) → (st.seenCode = false → st.lastNL = true) →
    C02L.Inv cfg st.names → (∀ t ∈ toks, WF t) → Ext (finalSt cfg st toks).names nf → FusFree (sigOf toks) →
    LexRun (out cfg st prev toks) ((sigOf toks).map (fcore cfg nf)) := by
  intro toks
  induction toks with
  | nil => intro st prev _ _ _ _ _ _; exact LexRun_nil
  | cons t rest ih =>
    intro st prev hJ1 hJ2 hinv hwf hext hff
    have hwf' : ∀ t' ∈ rest, WF t' := fun t' h => hwf t' (List.mem_cons_of_mem _ h)
    rw [finalSt_cons] at hext
    obtain ⟨hinv', hext1⟩ := minStep_names_inv cfg st t hinv
    rcases trivia_cases t with htr | hk | hk | hk
    · -- a significant token
      obtain ⟨hch, hseen', hnl', hnkn', hnames'⟩ := minStep_sig cfg st t htr
      rw [sigOf_cons_sig t rest htr] at hff ⊢
      have hwt := hwf t (by simp)
      have hcode := rcode_head cfg st.names t hwt htr hinv
      have hIH := ih (minStep cfg st t).1 (rcode cfg st.names t) (fun h => by rw [hnl'] at h; cases h)
        (fun h => by rw [hseen'] at h; cases h) hinv' hwf' hext (FusFree_tail _ _ hff)
      have hN := out_next cfg (rcode cfg st.names t) t.kind rest (minStep cfg st t).1 hseen'
        (fun h => by rw [hnl'] at h; cases h) hinv' hwf' (by
          intro b bs hbs hsa hsb
          rw [hbs] at hff
          rw [rcode_plain cfg st.names t (by rcases hsa with h | h <;> simp [h])
            (by rcases hsa with h | h <;> simp [h]) (by rcases hsa with h | h <;> simp [h])]
          exact hff.1 hsa hsb)
      have hrun := lexRun_tok cfg st.names t _ _ _ hwt htr hinv hN hnkn' hIH
      rw [rcore_eq_fcore cfg st.names nf t hinv (by
        rw [← hnames']
        exact fun m v h => hext m v (finalSt_ext cfg rest _ hinv' m v h))] at hrun
      simp only [List.map_cons]
      have hsp := codeHead_not_space t.kind (rcode cfg st.names t)
        (out cfg (minStep cfg st t).1 (rcode cfg st.names t) rest) hcode
      by_cases hs : (st.lastNKN && nkn t) = true
      · rw [if_pos hs] at hch
        rw [out_cons_sp cfg st prev t rest _ hch]
        have := LexRun_sp _ _ true hsp hrun
        simpa using this
      · rw [if_neg hs] at hch
        rw [out_cons_one cfg st prev t rest _ hch]
        have := LexRun_sp _ _ (needsSpace prev (rcode cfg st.names t)) hsp hrun
        simpa using this
    · -- space
      have htriv : t.trivia = true := by simp [Tok.trivia, hk]
      have hms := minStep_space cfg st t hk
      rw [sigOf_cons_triv t rest htriv] at hff ⊢
      rw [out_cons_nil cfg st prev t rest (by rw [hms])]
      rw [hms] at hext hinv' ⊢
      exact ih st prev hJ1 hJ2 hinv hwf' hext hff
    · -- newline
      have htriv : t.trivia = true := by simp [Tok.trivia, hk]
      have hms := minStep_newline cfg st t hk
      rw [sigOf_cons_triv t rest htriv] at hff ⊢
      rw [hms] at hext hinv'
      cases hnl : st.lastNL with
      | true =>
        rw [hnl] at hms
        rw [out_cons_nil cfg st prev t rest (by rw [hms]; rfl), hms]
        exact ih _ prev (fun _ => rfl) (fun _ => rfl) hinv hwf' hext hff
      | false =>
        rw [hnl] at hms
        rw [out_cons_one cfg st prev t rest [10] (by rw [hms]; rfl), hms]
        rw [needsSpace_head prev [10] 10 rfl (by decide) (by decide) (by decide)]
        have := ih { st with lastNKN := false, lastNL := true } [10] (fun _ => rfl) (fun _ => rfl) hinv hwf' hext hff
        have := LexRun_nl _ _ this
        simpa using this
    · -- comment
      have htriv : t.trivia = true := by simp [Tok.trivia, hk]
      have hms := minStep_comment cfg st t hk
      rw [sigOf_cons_triv t rest htriv] at hff ⊢
      by_cases hhdr : (!st.seenCode && decide (st.hdr < 2)) = true
      · rw [if_pos hhdr] at hms
        rw [hms] at hext hinv'
        rw [out_cons_two cfg st prev t rest t.code (by rw [hms]), hms]
        have := ih { st with hdr := st.hdr + 1 } [10] hJ1 hJ2 hinv hwf' hext hff
        have hc := (hwf t (by simp)).comment hk
        rw [code_plain t (by simp [hk])]
        obtain ⟨h1, h2⟩ := LexRun_comment t.data _ _ hc this
        have := LexRun_sp _ _ (needsSpace prev t.data) h2 h1
        simpa using this
      · rw [if_neg hhdr] at hms
        rw [out_cons_nil cfg st prev t rest (by rw [hms])]
        rw [hms] at hext hinv' ⊢
        exact ih st prev hJ1 hJ2 hinv hwf' hext hff



theorem lex_of_LexRun (s : Bytes) (sigs : List Core) (h : LexRun s sigs) :
    ∃ out, lex [s] = .ok out ∧ (sigOf out).map core = sigs := by
  obtain ⟨st', hr, hm, new, hnew, hsig⟩ := h {} (s.length + 2) rfl (by omega)
  refine ⟨new, ?_, hsig⟩
  unfold lex processLines
  simp only [processLinesFrom]
  have : shape = Gen.matcherShape := rfl
  rw [this] at hr
  rw [hr]
  simp only [hm]
  simp at hnew
  rw [hnew]

/-- **C01 end to end**, in terms of the helper notions of this file -/
theorem minify_relex_L (cfg : NameCfg) (src : Bytes) (toks : List Tok) (hl : lex [src] = .ok toks)
    (hff : FusFree (sigOf toks)) :
    ∃ out nf, lex [minify cfg toks] = .ok out ∧ (sigOf out).map core = (sigOf toks).map (fcore cfg nf) := by
  have hrun := main_run cfg (finalSt cfg {} toks).names toks {} [] (fun _ => rfl) (fun _ => rfl)
    (C02L.inv_init cfg) (lex_wf src toks hl) (fun _ _ h => h) hff
  obtain ⟨out, ho, hs⟩ := lex_of_LexRun _ _ hrun
  exact ⟨out, _, ho, hs⟩

theorem fusFree_of_index (l : List Tok)
    (h : ∀ i a b, l[i]? = some a → l[i + 1]? = some b → sn a.kind → sn b.kind → fusable a.data b.data = false) :
    FusFree l := by
  induction l with
  | nil => trivial
  | cons a r ih =>
    cases r with
    | nil => trivial
    | cons b r' =>
      refine ⟨h 0 a b rfl rfl, ih ?_⟩
      intro i a' b' ha hb
      exact h (i + 1) a' b' (by simpa using ha) (by simpa using hb)

theorem map_eq_index {α β γ} (f : α → γ) (g : β → γ) (l1 : List α) (l2 : List β) (h : l1.map f = l2.map g) :
    l1.length = l2.length ∧ ∀ i, i < l2.length → ∃ a b, l1[i]? = some a ∧ l2[i]? = some b ∧ f a = g b := by
  have hlen : l1.length = l2.length := by simpa using congrArg List.length h
  refine ⟨hlen, fun i hi => ?_⟩
  have hi1 : i < l1.length := by omega
  refine ⟨l1[i], l2[i], by simp [hi1], by simp [hi], ?_⟩
  have := congrArg (fun l => l[i]?) h
  simpa [hi, hi1] using this


end Pico.C01L
