import PicoVerif.Model.Peg
namespace Pico.Peg
open Pico.Lex

def Bounded (m : Option Nat) (ts : List Tree) : Prop := ∀ b, m = some b → ∀ i ∈ leavesL ts, i < b

theorem Bounded.nil (m) : Bounded m [] := by intro b _ i hi; simp [leavesL] at hi
theorem Bounded.append {m a c} (ha : Bounded m a) (hc : Bounded m c) : Bounded m (a ++ c) := by
  intro b hb i hi; rw [leavesL_append] at hi
  rcases List.mem_append.mp hi with h | h
  · exact ha b hb i h
  · exact hc b hb i h
theorem leavesL_reparent' (acc ts : List Tree) : leavesL (reparent acc ts) = leavesL acc ++ leavesL ts := by
  unfold reparent; split
  · simp [leavesL, Tree.leaves, leavesL_append]
  · exact leavesL_append _ _
theorem Bounded.reparent {m a c} (ha : Bounded m a) (hc : Bounded m c) : Bounded m (reparent a c) := by
  intro b hb i hi; rw [leavesL_reparent'] at hi
  rcases List.mem_append.mp hi with h | h
  · exact ha b hb i h
  · exact hc b hb i h

def Inv (st : PSt) (ts : List Tree) (st' : PSt) : Prop := st'.maxPos = st.maxPos ∧ Bounded st.maxPos ts

theorem fence_inv (gram : Nat → G) (toks : Array Tok) : ∀ fuel,
    (∀ g st ts st', run gram toks fuel g st = .ok (some (ts, st')) → Inv st ts st') ∧
    (∀ sfx acc st ts st', Bounded st.maxPos acc →
        run.chainLoop gram toks fuel sfx acc st = .ok (some (ts, st')) → Inv st ts st') := by
  intro fuel
  induction fuel with
  | zero => constructor <;> intros <;> simp_all [run, run.chainLoop]
  | succ n ih =>
    obtain ⟨ihR, ihC⟩ := ih
    constructor
    · intro g st ts st' h
      cases g with
      | eps => simp [run] at h; obtain ⟨rfl, rfl⟩ := h; exact ⟨rfl, Bounded.nil _⟩
      | tok p =>
        simp only [run] at h
        by_cases hj : skipTrivia toks st.pos < toks.size
        · simp only [hj, dite_true] at h
          by_cases hm : (p.matches toks[skipTrivia toks st.pos] && fenceOk st.maxPos (skipTrivia toks st.pos)) = true
          · simp only [hm, if_true] at h
            simp at h; obtain ⟨rfl, rfl⟩ := h
            refine ⟨rfl, ?_⟩
            intro b hb i hi
            simp [leavesL, Tree.leaves] at hi; subst hi
            simp only [Bool.and_eq_true] at hm
            have := hm.2; simp [fenceOk, hb] at this; exact this
          · simp [hm] at h
        · simp [hj] at h
      | seq a b =>
        simp only [run] at h
        split at h <;> try simp at h
        rename_i ta st1 ha
        split at h <;> try simp at h
        rename_i tb st2 hb
        obtain ⟨rfl, rfl⟩ := h
        have h1 := ihR _ _ _ _ ha; have h2 := ihR _ _ _ _ hb
        exact ⟨h2.1.trans h1.1, h1.2.append (h1.1 ▸ h2.2)⟩
      | alt a b =>
        simp only [run] at h
        split at h
        · simp at h
        · rename_i r ha; simp at h; subst h; exact ihR _ _ _ _ ha
        · exact ihR _ _ _ _ h
      | star g =>
        simp only [run] at h
        split at h
        · simp at h
        · simp at h; obtain ⟨rfl, rfl⟩ := h; exact ⟨rfl, Bounded.nil _⟩
        · rename_i t1 st1 h1
          have i1 := ihR _ _ _ _ h1
          split at h
          · simp at h; obtain ⟨rfl, rfl⟩ := h; exact i1
          · split at h
            · simp at h
            · simp at h; obtain ⟨rfl, rfl⟩ := h; exact i1
            · rename_i t2 st2 h2
              simp at h; obtain ⟨rfl, rfl⟩ := h
              have i2 := ihR _ _ _ _ h2
              exact ⟨i2.1.trans i1.1, i1.2.append (i1.1 ▸ i2.2)⟩
      | nt k => simp only [run] at h; exact ihR _ _ _ _ h
      | hard g =>
        simp only [run] at h
        split at h <;> try simp at h
        rename_i r hg; subst h; exact ihR _ _ _ _ hg
      | node k g =>
        simp only [run] at h
        split at h <;> try simp at h
        rename_i ts1 st1 hg
        obtain ⟨rfl, rfl⟩ := h
        have := ihR _ _ _ _ hg
        exact ⟨this.1, by intro b hb i hi; simp [leavesL, Tree.leaves] at hi; exact this.2 b hb i hi⟩
      | chain first sfx =>
        simp only [run] at h
        split at h <;> try simp at h
        rename_i t1 st1 h1
        have i1 := ihR _ _ _ _ h1
        have := ihC _ _ _ _ _ (i1.1 ▸ i1.2) h
        exact ⟨this.1.trans i1.1, i1.1 ▸ this.2⟩
      | fence g =>
        simp only [run] at h
        split at h <;> try simp at h
        rename_i ts1 st1 hg
        obtain ⟨rfl, rfl⟩ := h
        have := ihR _ _ _ _ hg
        refine ⟨rfl, ?_⟩
        intro b hb i hi
        have hb' := this.2
        simp only [hb] at hb'
        have := hb' (min b (nextNewline toks st.pos)) rfl i hi
        omega
      | prevTokIs p =>
        simp only [run] at h
        split at h
        · split at h
          · simp at h; obtain ⟨rfl, rfl⟩ := h; exact ⟨rfl, Bounded.nil _⟩
          · simp at h
        · simp at h
      | notAhead g =>
        simp only [run] at h
        split at h <;> try simp at h
        obtain ⟨rfl, rfl⟩ := h; exact ⟨rfl, Bounded.nil _⟩
      | filterTop ks g =>
        simp only [run] at h
        split at h <;> try simp at h
        rename_i ts1 st1 hg
        by_cases hk : topKindIn ks ts1 = true
        · simp [hk] at h; obtain ⟨rfl, rfl⟩ := h; exact ihR _ _ _ _ hg
        · simp [hk] at h
    · intro sfx acc st ts st' hacc h
      simp only [run.chainLoop] at h
      split at h
      · simp at h
      · simp at h; obtain ⟨rfl, rfl⟩ := h; exact ⟨rfl, hacc⟩
      · rename_i ts1 st1 h1
        have i1 := ihR _ _ _ _ h1
        have hacc' : Bounded st1.maxPos (reparent acc ts1) := i1.1 ▸ (hacc.reparent i1.2)
        split at h
        · simp at h; obtain ⟨rfl, rfl⟩ := h; exact ⟨i1.1, i1.1 ▸ hacc'⟩
        · have := ihC _ _ _ _ _ hacc' h
          exact ⟨this.1.trans i1.1, i1.1 ▸ this.2⟩

/-- the short-if body never contains a token at or after the next newline -/
theorem fence_body_before_newline (gram : Nat → G) (toks : Array Tok) (fuel) (g st ts st')
    (h : run gram toks (fuel+1) (.fence g) st = .ok (some (ts, st'))) :
    ∀ i ∈ leavesL ts, i < nextNewline toks st.pos := by
  simp only [run] at h
  split at h <;> try simp at h
  rename_i ts1 st1 hg
  obtain ⟨rfl, rfl⟩ := h
  have := ((fence_inv gram toks fuel).1 _ _ _ _ hg).2
  intro i hi
  cases hm : st.maxPos with
  | none => simp only [hm] at this; exact this _ rfl i hi
  | some s => simp only [hm] at this; have := this _ rfl i hi; omega
end Pico.Peg
