import PicoVerif.Lemmas.C03Basic
import PicoVerif.Model.Sections
/-! The two-byte sfx note get/set round trip (65,536 cases, checked by the kernel). -/
namespace Pico.Sections

def noteOK (lsb msb : UInt8) : Bool :=
  let p := lsb &&& 0x3f
  let w := ((msb &&& 0x80) >>> 4) ||| ((msb &&& 0x01) <<< 2) ||| ((lsb &&& 0xc0) >>> 6)
  let v := (msb &&& 0x0e) >>> 1
  let e := (msb &&& 0x70) >>> 4
  let wv := (w <<< 4) ||| v
  setNote 0 0 p.toNat (wv.toNat / 16) (wv.toNat % 16) (e.toNat % 16) == some (lsb, msb)

def noteBlock (k : Nat) : Bool :=
  (List.range 32).all (fun a => (List.range 256).all (fun b => noteOK (a + 32 * k).toUInt8 b.toUInt8))

set_option maxRecDepth 100000 in
theorem note_blk0 : noteBlock 0 = true := by decide +kernel
set_option maxRecDepth 100000 in
theorem note_blk1 : noteBlock 1 = true := by decide +kernel
set_option maxRecDepth 100000 in
theorem note_blk2 : noteBlock 2 = true := by decide +kernel
set_option maxRecDepth 100000 in
theorem note_blk3 : noteBlock 3 = true := by decide +kernel
set_option maxRecDepth 100000 in
theorem note_blk4 : noteBlock 4 = true := by decide +kernel
set_option maxRecDepth 100000 in
theorem note_blk5 : noteBlock 5 = true := by decide +kernel
set_option maxRecDepth 100000 in
theorem note_blk6 : noteBlock 6 = true := by decide +kernel
set_option maxRecDepth 100000 in
theorem note_blk7 : noteBlock 7 = true := by decide +kernel

theorem note_blocks : ∀ k, k < 8 → noteBlock k = true := by
  intro k hk
  have : k = 0 ∨ k = 1 ∨ k = 2 ∨ k = 3 ∨ k = 4 ∨ k = 5 ∨ k = 6 ∨ k = 7 := by omega
  rcases this with rfl | rfl | rfl | rfl | rfl | rfl | rfl | rfl
  · exact note_blk0
  · exact note_blk1
  · exact note_blk2
  · exact note_blk3
  · exact note_blk4
  · exact note_blk5
  · exact note_blk6
  · exact note_blk7

theorem note_rt (lsb msb : UInt8) : noteOK lsb msb = true := by
  have hl := lsb.toNat_lt
  have hb := note_blocks (lsb.toNat / 32) (by omega)
  unfold noteBlock at hb
  have h1 := all_range hb (lsb.toNat % 32) (by omega)
  have h2 := all_range h1 msb.toNat msb.toNat_lt
  have : lsb.toNat % 32 + 32 * (lsb.toNat / 32) = lsb.toNat := by omega
  rw [this] at h2
  simpa using h2

end Pico.Sections
