import PicoVerif.Model.AstWriters
import PicoVerif.Lemmas.C10
/-! Lemmas for C10.line_start_indent_whole: where the `k`-th walked token and its rendered run stand in the output of a
successful `assemble`, and the run-level fact that a run ending in a line feed plus blanks renders to
`… ++ [10] ++ indent`. -/
namespace Pico.Ast
open Pico.Lex Pico.Peg

/-- the output of a successful `assemble` starts with the accumulator -/
theorem assemble_acc_prefix (fmt : RunFmt) (toks : Array Tok) (walk : List (Nat × Nat)) (pos : Nat) (acc out : Bytes)
    (h : assemble fmt toks walk pos acc = .ok out) : ∃ tail, out = acc ++ tail := by
  induction walk generalizing pos acc with
  | nil =>
    simp only [assemble] at h
    split at h
    · simp at h
    · injection h with h
      exact ⟨_, h.symm⟩
  | cons x rest ih =>
    obtain ⟨i, d⟩ := x
    simp only [assemble] at h
    split at h
    · simp at h
    · obtain ⟨tail, ht⟩ := ih _ _ h
      exact ⟨fmt d (pos == 0) false (runText toks pos i) ++ (toks.getD i default).code ++ tail,
        by rw [ht]; simp only [List.append_assoc]⟩

/-- where the run in front of the `k`-th walked token starts when `assemble` is entered at `pos` -/
def runStartFrom (walk : List (Nat × Nat)) (pos k : Nat) : Nat :=
  if k = 0 then pos else (walk.getD (k - 1) (0, 0)).1 + 1

/-- in the output of a successful `assemble`, the `k`-th walked token's code stands right after the rendering (at the
token's indent level, not at the end of the stream) of the trivia between the previous walked token and it -/
theorem assemble_nth (fmt : RunFmt) (toks : Array Tok) (walk : List (Nat × Nat)) (pos : Nat) (acc out : Bytes)
    (h : assemble fmt toks walk pos acc = .ok out) (k i d : Nat) (hk : walk[k]? = some (i, d)) :
    ∃ a b, out = a ++ fmt d (runStartFrom walk pos k == 0) false (runText toks (runStartFrom walk pos k) i) ++
      (toks.getD i default).code ++ b := by
  induction walk generalizing pos acc k with
  | nil => simp at hk
  | cons x rest ih =>
    obtain ⟨i0, d0⟩ := x
    simp only [assemble] at h
    split at h
    · simp at h
    · cases k with
      | zero =>
        simp only [List.getElem?_cons_zero, Option.some.injEq, Prod.mk.injEq] at hk
        obtain ⟨rfl, rfl⟩ := hk
        obtain ⟨tail, ht⟩ := assemble_acc_prefix fmt toks rest _ _ out h
        refine ⟨acc, tail, ?_⟩
        rw [ht]
        simp only [runStartFrom, if_true, List.append_assoc]
      | succ k' =>
        simp only [List.getElem?_cons_succ] at hk
        obtain ⟨a, b, hab⟩ := ih _ _ h k' hk
        have hp : runStartFrom rest (i0 + 1) k' = runStartFrom ((i0, d0) :: rest) pos (k' + 1) := by
          unfold runStartFrom
          cases k' with
          | zero => simp
          | succ k'' => simp
        rw [hp] at hab
        exact ⟨a, b, hab⟩

/-- a successful `astWrite` is the successful `assemble` of the walk of the parser's trees (the walk itself exposed) -/
theorem astWrite_ok_walk (fmt : RunFmt) (toks : List Tok) (out : Bytes) (h : astWrite fmt toks = .ok out) :
    ∃ ts st',
      Peg.run Gram.gram toks.toArray (50 * toks.toArray.size + 200) (.nt Gram.nChunk) { pos := 0, maxPos := none } = .ok (some (ts, st')) ∧
      assemble fmt toks.toArray (ts.flatMap fun t => walkInd toks.toArray t 0) 0 [] = .ok out := by
  simp only [astWrite] at h
  split at h
  · simp at h
  · simp at h
  · rename_i ts st' hrun
    exact ⟨ts, st', hrun, h⟩

/-- a run whose last line consists of blanks only (spaces or tabs) renders to `… ++ [10] ++ indent` -/
theorem normRun_line_start (w d : Nat) (st : Bool) (pre ws : Bytes) (hws : ws.all (fun c => c == 32 || c == 9) = true)
    (hpre : pre.getLast? ≠ some 13) :
    ∃ body, normRun w d st false (pre ++ [10] ++ ws) = body ++ [10] ++ List.replicate (w * d) 32 := by
  have h1 := normRun_leading w d st false pre ws [] hws (Or.inl rfl)
  simp only [List.append_nil] at h1
  obtain ⟨body, h2, _⟩ := normRun_indent w d st pre 0 hpre
  simp only [List.replicate_zero, List.append_nil] at h2
  exact ⟨body, by rw [h1, h2]⟩

end Pico.Ast
