import PicoVerif.Model.Compress
import PicoVerif.Spec.Stream
/-! Helper lemmas for C05 (code compression). -/
namespace Pico.Compress
open Pico.Spec

/-! ### basic array facts -/

theorem getD_push (a : Array UInt8) (b : UInt8) (j : Nat) :
    (a.push b).getD j 0 = if j < a.size then a.getD j 0 else if j = a.size then b else 0 := by
  simp only [Array.getD_eq_getD_getElem?, Array.getElem?_push]
  by_cases h1 : j < a.size
  · have : ¬ j = a.size := by omega
    simp [h1, this]
  · by_cases h2 : j = a.size
    · simp [h2]
    · have : a.size ≤ j := by omega
      simp [h1, h2]

theorem toUInt8_toNat_of_lt (n : Nat) (h : n < 256) : n.toUInt8.toNat = n := by
  simp [Nat.toUInt8]; omega

/-! ### literal index -/

def litOK (b : UInt8) : Bool :=
  decide (literalIndex b < 60) && (literalIndex b == 0 || Gen.charTable[literalIndex b]? == some b)

theorem lit_ok : ∀ b, litOK b = true := forall_u8 _ (by decide +kernel)

theorem literalIndex_spec (b : UInt8) :
    literalIndex b < 60 ∧ (literalIndex b ≠ 0 → Gen.charTable[literalIndex b]? = some b) := by
  have h := lit_ok b
  simp only [litOK, Bool.and_eq_true, decide_eq_true_eq, Bool.or_eq_true, beq_iff_eq] at h
  refine ⟨h.1, fun hne => ?_⟩
  rcases h.2 with h0 | h1
  · exact absurd h0 hne
  · exact h1

/-! ### findBlock -/

theorem matchLen_spec (dat : Array UInt8) (i pos maxLen : Nat) :
    ∀ fuel k, k ≤ maxLen → i + k ≤ pos →
      (∀ j, j < k → dat.getD (i + j) 0 = dat.getD (pos + j) 0) →
      matchLen dat i pos maxLen fuel k ≤ maxLen ∧ i + matchLen dat i pos maxLen fuel k ≤ pos ∧
      (∀ j, j < matchLen dat i pos maxLen fuel k → dat.getD (i + j) 0 = dat.getD (pos + j) 0) := by
  intro fuel
  induction fuel with
  | zero => intro k h1 h2 h3; exact ⟨h1, h2, h3⟩
  | succ fuel ih =>
    intro k h1 h2 h3
    unfold matchLen
    split
    · rename_i hc
      apply ih (k + 1) (by omega) (by omega)
      intro j hj
      by_cases hjk : j = k
      · subst hjk; exact hc.2.2
      · exact h3 j (by omega)
    · exact ⟨h1, h2, h3⟩

/-- invariant of the outer scan -/
def ScanInv (dat : Array UInt8) (pos maxLen lo : Nat) (best : Nat × Int) : Prop :=
  best.1 ≤ maxLen ∧ (best.1 > 0 → ∃ i : Nat, best.2 = (i : Int) ∧ lo ≤ i ∧ i < pos ∧ best.1 ≤ pos - i ∧
    ∀ k, k < best.1 → dat.getD (i + k) 0 = dat.getD (pos + k) 0)

theorem scan_spec (dat : Array UInt8) (pos maxLen lo : Nat) :
    ∀ fuel i best, lo ≤ i → ScanInv dat pos maxLen lo best →
      ScanInv dat pos maxLen lo (scan dat pos maxLen fuel i best) := by
  intro fuel
  induction fuel with
  | zero => intro i best _ h; exact h
  | succ fuel ih =>
    intro i best hlo h
    unfold scan
    split
    · rename_i hi
      apply ih (i + 1) _ (by omega)
      have hm := matchLen_spec dat i pos maxLen maxLen 0 (by omega) (by omega) (by intro j hj; omega)
      split
      · refine ⟨hm.1, fun _ => ⟨i, rfl, hlo, hi, by have := hm.2.1; omega, hm.2.2⟩⟩
      · exact h
    · exact h

theorem findBlock_spec (dat : Array UInt8) (pos : Nat) (hpos : pos < dat.size) :
    (findBlock dat pos).1 ≤ 17 ∧ pos + (findBlock dat pos).1 ≤ dat.size ∧
    ((findBlock dat pos).1 ≥ 3 → 1 ≤ (findBlock dat pos).2 ∧ (findBlock dat pos).2 ≤ min pos 3120 ∧
      (findBlock dat pos).1 ≤ (findBlock dat pos).2.toNat ∧
      ∀ k, k < (findBlock dat pos).1 →
        dat.getD (pos - (findBlock dat pos).2.toNat + k) 0 = dat.getD (pos + k) 0) := by
  have hh : maxHistLen = 3120 := by decide
  have hinv := scan_spec dat pos (min maxBlockLen (dat.size - pos)) (pos - min maxHistLen pos)
    (min maxHistLen pos) (pos - min maxHistLen pos) (0, -100000) (Nat.le_refl _)
    ⟨by simp, by simp⟩
  unfold findBlock
  simp only []
  generalize scan dat pos (min maxBlockLen (dat.size - pos)) (min maxHistLen pos)
    (pos - min maxHistLen pos) (0, -100000) = best at hinv
  obtain ⟨bl, bi⟩ := best
  obtain ⟨h1, h2⟩ := hinv
  simp only [maxBlockLen, hh] at h1 h2 ⊢
  refine ⟨by omega, by omega, fun h3 => ?_⟩
  obtain ⟨i, hi, hlo, hlt, hle, hm⟩ := h2 (by omega)
  subst hi
  clear h2
  have e : ((pos : Int) - (i : Int)).toNat = pos - i := by omega
  refine ⟨by omega, by omega, by omega, fun k hk => ?_⟩
  rw [e]
  have : pos - (pos - i) + k = i + k := by omega
  rw [this]; exact hm k hk

/-! ### producer vs reference decoder -/

/-- the bytes a run of `compressLoop` appends -/
def emit (dat : Array UInt8) : Nat → Nat → List UInt8
  | 0, _ => []
  | fuel + 1, pos =>
    if pos < dat.size then
      if (findBlock dat pos).1 ≥ 3 then
        let o := (findBlock dat pos).2.toNat
        (o / 16 + tableLen).toUInt8 :: (o % 16 + ((findBlock dat pos).1 - 2) * 16).toUInt8 ::
          emit dat fuel (pos + (findBlock dat pos).1)
      else
        let b := dat.getD pos 0
        if literalIndex b = 0 then (0 : UInt8) :: b :: emit dat fuel (pos + 1)
        else (literalIndex b).toUInt8 :: emit dat fuel (pos + 1)
    else []

theorem compressLoop_eq_emit (dat : Array UInt8) :
    ∀ fuel pos out, (compressLoop dat fuel pos out).toList = out.toList ++ emit dat fuel pos := by
  intro fuel
  induction fuel with
  | zero => intro pos out; simp [compressLoop, emit]
  | succ fuel ih =>
    intro pos out
    unfold compressLoop emit
    by_cases hp : pos < dat.size
    · simp only [hp, if_true]
      by_cases hb : (findBlock dat pos).1 ≥ 3
      · simp only [hb, if_true]
        rw [ih]; simp
      · simp only [hb, if_false]
        by_cases hl : literalIndex (dat.getD pos 0) = 0
        · simp only [hl, if_true]
          rw [ih]; simp [Nat.toUInt8]
        · simp only [hl, if_false]
          rw [ih]; simp
    · simp [hp]

/-- `acc` is the first `p` bytes of `dat` -/
def Agree (acc dat : Array UInt8) (p : Nat) : Prop :=
  acc.size = p ∧ ∀ j, j < p → acc.getD j 0 = dat.getD j 0

theorem Agree.push {acc dat : Array UInt8} {p : Nat} (h : Agree acc dat p) :
    Agree (acc.push (dat.getD p 0)) dat (p + 1) := by
  obtain ⟨h1, h2⟩ := h
  refine ⟨by simp [h1], fun j hj => ?_⟩
  rw [getD_push]
  by_cases hjp : j < acc.size
  · rw [if_pos hjp]; exact h2 j (by omega)
  · have : j = acc.size := by omega
    rw [if_neg hjp, if_pos this]; subst this; rw [h1]

theorem copyBack_agree (dat : Array UInt8) (o : Nat) (ho : 1 ≤ o) :
    ∀ l acc p, Agree acc dat p → o ≤ p →
      (∀ j, j < l → dat.getD (p - o + j) 0 = dat.getD (p + j) 0) →
      Agree (copyBack o l acc) dat (p + l) := by
  intro l
  induction l with
  | zero => intro acc p h _ _; simpa [copyBack] using h
  | succ l ih =>
    intro acc p h hop hm
    unfold copyBack
    have hb : acc.getD (acc.size - o) 0 = dat.getD p 0 := by
      rw [h.1, h.2 (p - o) (by omega)]
      have := hm 0 (by omega)
      simpa using this
    rw [hb]
    have := ih (acc.push (dat.getD p 0)) (p + 1) h.push (by omega) (by
      intro j hj
      have := hm (j + 1) (by omega)
      have e1 : p + 1 - o + j = p - o + (j + 1) := by omega
      have e2 : p + 1 + j = p + (j + 1) := by omega
      rw [e1, e2]; exact this)
    have e : p + (l + 1) = p + 1 + l := by omega
    rw [e]; exact this

theorem agree_full {acc dat : Array UInt8} (h : Agree acc dat dat.size) : acc = dat := by
  obtain ⟨h1, h2⟩ := h
  apply Array.ext h1
  intro i hi1 hi2
  have := h2 i hi2
  simpa [Array.getD, hi1, hi2] using this

theorem refDecodeAux_emit (dat : Array UInt8) :
    ∀ fuel pos acc, pos ≤ dat.size → dat.size - pos ≤ fuel → Agree acc dat pos →
      refDecodeAux (emit dat fuel pos) acc = some dat := by
  intro fuel
  induction fuel with
  | zero =>
    intro pos acc h1 h2 h3
    have : pos = dat.size := by omega
    subst this
    simp [emit, refDecodeAux, agree_full h3]
  | succ fuel ih =>
    intro pos acc h1 h2 h3
    unfold emit
    by_cases hp : pos < dat.size
    · simp only [hp, if_true]
      have hfb := findBlock_spec dat pos hp
      by_cases hb : (findBlock dat pos).1 ≥ 3
      · simp only [hb, if_true]
        obtain ⟨hl17, hsz, hrest⟩ := hfb
        obtain ⟨ho1, ho2, hlo, hm⟩ := hrest hb
        generalize (findBlock dat pos).1 = bl at *
        generalize (findBlock dat pos).2 = bo at *
        have hT : tableLen = 60 := by decide
        have hL : Gen.charTable.length = 60 := by decide
        have hon : 1 ≤ bo.toNat ∧ bo.toNat ≤ 3120 ∧ bo.toNat ≤ pos := by omega
        generalize bo.toNat = o at *
        have hc : (o / 16 + tableLen).toUInt8.toNat = o / 16 + 60 := by
          rw [hT]; exact toUInt8_toNat_of_lt _ (by omega)
        have hd : (o % 16 + (bl - 2) * 16).toUInt8.toNat = o % 16 + (bl - 2) * 16 :=
          toUInt8_toNat_of_lt _ (by omega)
        have hc0 : ¬ (o / 16 + tableLen).toUInt8 = 0 := by
          intro h; have := congrArg UInt8.toNat h; rw [hc] at this; simp at this
        unfold refDecodeAux
        simp only [hc0, if_false, hc, hd, hL]
        rw [if_neg (by omega)]
        have eo : (o / 16 + 60 - 60) * 16 + (o % 16 + (bl - 2) * 16) % 16 = o := by omega
        have el : (o % 16 + (bl - 2) * 16) / 16 + 2 = bl := by omega
        simp only [eo, el]
        rw [if_neg (by rw [h3.1]; omega)]
        apply ih (pos + bl) _ (by omega) (by omega)
        exact copyBack_agree dat o (by omega) bl acc pos h3 (by omega) hm
      · simp only [hb, if_false]
        obtain ⟨hli, hlt⟩ := literalIndex_spec (dat.getD pos 0)
        by_cases hl : literalIndex (dat.getD pos 0) = 0
        · simp only [hl, if_true]
          unfold refDecodeAux
          simp only [if_true]
          exact ih (pos + 1) _ (by omega) (by omega) h3.push
        · simp only [hl, if_false]
          have hn : (literalIndex (dat.getD pos 0)).toUInt8.toNat = literalIndex (dat.getD pos 0) :=
            toUInt8_toNat_of_lt _ (by omega)
          have hc0 : ¬ (literalIndex (dat.getD pos 0)).toUInt8 = 0 := by
            intro h; have := congrArg UInt8.toNat h; rw [hn] at this; exact hl (by simpa using this)
          have hL : Gen.charTable.length = 60 := by decide
          unfold refDecodeAux
          simp only [hc0, if_false, hn, hL, hli, if_true, hlt hl]
          exact ih (pos + 1) _ (by omega) (by omega) h3.push
    · have : pos = dat.size := by omega
      subst this
      simp [refDecodeAux, agree_full h3]

theorem refDecodeAux_compress (t : Bytes) :
    refDecodeAux (compress t) #[] = some (withSuffix t).toArray := by
  unfold compress
  simp only []
  rw [compressLoop_eq_emit]
  simp only [List.nil_append]
  exact refDecodeAux_emit _ _ 0 #[] (by omega) (by omega) ⟨by simp, by intro j hj; omega⟩

theorem refDecode_compress (t : Bytes) : refDecode (compress t) = some (withSuffix t) := by
  unfold refDecode
  rw [refDecodeAux_compress]
  simp

/-! ### decoder loop vs reference decoder -/

theorem copyBack_prefix (o : Nat) : ∀ l acc, acc.toList <+: (copyBack o l acc).toList := by
  intro l
  induction l with
  | zero => intro acc; simp [copyBack]
  | succ l ih =>
    intro acc
    unfold copyBack
    refine List.IsPrefix.trans ?_ (ih _)
    simp

theorem refDecodeAux_prefix : ∀ s acc full, refDecodeAux s acc = some full →
    acc.toList <+: full.toList := by
  intro s acc
  fun_induction refDecodeAux s acc
  case case1 => intro full h; simp at h; subst h; simp
  case case3 ih => intro full h; exact List.IsPrefix.trans (by simp) (ih full h)
  case case4 ih => intro full h; exact List.IsPrefix.trans (by simp) (ih full h)
  case case8 ih => intro full h; exact List.IsPrefix.trans (copyBack_prefix _ _ _) (ih full h)
  all_goals (intro full h; simp at h)

theorem decodeLoop_stop (cd : Array UInt8) (n fuel : Nat) (st : DSt)
    (h : ¬ (st.out.size < n ∧ st.inI < cd.size)) : decodeLoop cd n fuel st = .ok st := by
  cases fuel with
  | zero => rfl
  | succ f => unfold decodeLoop; rw [if_neg h]

theorem take_eq_of_lt {out acc : Array UInt8} {n : Nat} (h : out.toList = acc.toList.take n)
    (hn : out.size < n) : out = acc := by
  have hl := congrArg List.length h
  simp only [Array.length_toList, List.length_take] at hl
  have : acc.toList.length ≤ n := by simp; omega
  rw [List.take_of_length_le this] at h
  exact Array.toList_inj.mp h

theorem take_eq_of_ge {out acc full : Array UInt8} {n : Nat} (h : out.toList = acc.toList.take n)
    (hn : ¬ out.size < n) (hp : acc.toList <+: full.toList) : out.toList = full.toList.take n := by
  have hl := congrArg List.length h
  simp only [Array.length_toList, List.length_take] at hl
  obtain ⟨r, hr⟩ := hp
  rw [← hr, List.take_append_of_le_length (by simp; omega)]
  exact h

theorem push_take (acc : Array UInt8) (b : UInt8) (n : Nat) (h : acc.size < n) :
    (acc.push b).toList = (acc.push b).toList.take n := by
  rw [List.take_of_length_le (by simp; omega)]

theorem getD_of_toList (cd : Array UInt8) (done x : List UInt8) (c : UInt8)
    (h : cd.toList = done ++ c :: x) : cd.getD done.length 0 = c ∧ done.length < cd.size := by
  have : cd = (done ++ c :: x).toArray := by rw [← h]
  subst this
  simp

theorem copyBlock_sim (n o : Nat) (ho : 1 ≤ o) :
    ∀ l out acc, o ≤ acc.size → out.toList = acc.toList.take n →
      ∃ out', copyBlock n o l out = .ok out' ∧ out'.toList = (copyBack o l acc).toList.take n := by
  intro l
  induction l with
  | zero => intro out acc _ h; exact ⟨out, rfl, h⟩
  | succ l ih =>
    intro out acc hoa h
    unfold copyBlock
    by_cases hn : out.size < n
    · have := take_eq_of_lt h hn; subst this
      rw [if_neg (by omega)]
      have hr : readBack n out o = .ok (out.getD (out.size - o) 0) := by
        unfold readBack
        rw [if_pos hoa, if_neg (by omega)]
      rw [hr]
      unfold copyBack
      exact ih _ _ (by simp; omega) (push_take _ _ _ hn)
    · rw [if_pos (by omega)]
      exact ⟨out, rfl, take_eq_of_ge h hn (copyBack_prefix _ _ _)⟩

theorem decodeLoop_sim (cd : Array UInt8) (n : Nat) (pad : List UInt8) :
    ∀ fuel s acc full done out, refDecodeAux s acc = some full → (pad = [] ∨ n ≤ full.size) →
      cd.toList = done ++ (s ++ pad) → s.length + 1 ≤ fuel → out.toList = acc.toList.take n →
      ∃ st, decodeLoop cd n fuel ⟨done.length, out⟩ = .ok st ∧
        st.out.toList = full.toList.take n := by
  intro fuel
  induction fuel with
  | zero => intro s acc full done out _ _ _ hf; omega
  | succ fuel ih =>
    intro s acc full done out h hp hcd hf ho
    by_cases hn : out.size < n
    · have hoa := take_eq_of_lt ho hn
      subst hoa
      cases s with
      | nil =>
        simp only [refDecodeAux, Option.some.injEq] at h
        subst h
        refine ⟨_, decodeLoop_stop _ _ _ _ ?_, ?_⟩
        · rcases hp with hp | hp
          · subst hp
            have : cd.size = done.length := by
              have := congrArg List.length hcd; simpa using this
            simp only []; omega
          · simp only []; omega
        · simp only []
          rw [List.take_of_length_le (by simp; omega)]
      | cons c rest =>
        obtain ⟨hc, hlt⟩ := getD_of_toList cd done (rest ++ pad) c (by simpa using hcd)
        unfold decodeLoop
        simp only []
        rw [if_pos ⟨hn, hlt⟩, hc]
        unfold refDecodeAux at h
        by_cases hc0 : c = 0
        · simp only [hc0, if_true] at h ⊢
          cases rest with
          | nil => simp at h
          | cons b rest' =>
            simp only [] at h
            obtain ⟨hb, hlt2⟩ := getD_of_toList cd (done ++ [c]) (rest' ++ pad) b (by simpa using hcd)
            simp only [List.length_append, List.length_cons, List.length_nil] at hb hlt2
            rw [if_pos hlt2, hb]
            have := ih rest' (out.push b) full (done ++ [c, b]) (out.push b) h hp
              (by simpa using hcd) (by simp at hf; omega) (push_take _ _ _ hn)
            simpa using this
        · simp only [hc0, if_false] at h ⊢
          have hL : Gen.charTable.length = 60 := by decide
          rw [hL] at h
          by_cases hlt60 : c.toNat < 60
          · have hle : c ≤ 0x3b := by rw [UInt8.le_iff_toNat_le]; simp; omega
            rw [if_pos hlt60] at h
            rw [if_pos hle]
            cases hch : Gen.charTable[c.toNat]? with
            | none => rw [hch] at h; simp at h
            | some ch =>
              rw [hch] at h
              simp only [] at h ⊢
              have := ih rest (out.push ch) full (done ++ [c]) (out.push ch) h hp
                (by simpa using hcd) (by simp at hf; omega) (push_take _ _ _ hn)
              simpa using this
          · have hle : ¬ c ≤ 0x3b := by rw [UInt8.le_iff_toNat_le]; simp; omega
            rw [if_neg hlt60] at h
            rw [if_neg hle]
            cases rest with
            | nil => simp at h
            | cons d rest' =>
              simp only [] at h
              obtain ⟨hb, hlt2⟩ := getD_of_toList cd (done ++ [c]) (rest' ++ pad) d (by simpa using hcd)
              simp only [List.length_append, List.length_cons, List.length_nil] at hb hlt2
              rw [if_pos hlt2, hb]
              split at h
              · simp at h
              · rename_i hcond
                obtain ⟨out', hcb, hout'⟩ := copyBlock_sim n ((c.toNat - 60) * 16 + d.toNat % 16)
                  (by omega) (d.toNat / 16 + 2) out out (by omega)
                  (by rw [List.take_of_length_le (by simp; omega)])
                rw [hcb]
                have := ih rest' _ full (done ++ [c, d]) out' h hp
                  (by simpa using hcd) (by simp at hf; omega) hout'
                simpa using this
    · exact ⟨_, decodeLoop_stop _ _ _ _ (by simp only []; omega),
        take_eq_of_ge ho hn (refDecodeAux_prefix _ _ _ h)⟩

/-- the decoder loop on a stream after an 8-byte zero header (the shape `decodeBody` runs) -/
theorem decodeLoop_body (s : Bytes) (fa : Array UInt8) (n : Nat)
    (hr : refDecodeAux s #[] = some fa) :
    ∃ st, decodeLoop (List.replicate 8 (0 : UInt8) ++ s).toArray n
        ((List.replicate 8 (0 : UInt8) ++ s).toArray.size + 1) ⟨8, #[]⟩ = .ok st ∧
      st.out.toList = fa.toList.take n := by
  have h := decodeLoop_sim (List.replicate 8 (0 : UInt8) ++ s).toArray n []
    ((List.replicate 8 (0 : UInt8) ++ s).toArray.size + 1) s #[] fa (List.replicate 8 0) #[] hr
    (Or.inl rfl) (by simp) (by simp) (by simp)
  have h8 : (List.replicate 8 (0 : UInt8)).length = 8 := rfl
  rw [h8] at h
  exact h

/-! ### the code area -/

theorem withSuffix_prefix (t : Bytes) : t <+: withSuffix t := by
  unfold withSuffix
  split
  · split
    · rw [List.append_assoc]; exact List.prefix_append _ _
    · exact List.prefix_append _ _
  · exact List.prefix_rfl

theorem stripSuffix_noop (code suffix : Bytes) (h : ¬ suffix.isSuffixOf code = true) :
    stripSuffix code suffix = code := by
  unfold stripSuffix; rw [if_neg h]

theorem header_len_bytes (n : Nat) (h : n < 65536) :
    (n / 256).toUInt8.toNat * 256 + (n % 256).toUInt8.toNat = n := by
  rw [toUInt8_toNat_of_lt _ (by omega), toUInt8_toNat_of_lt _ (by omega)]; omega

theorem decompress_area (t : Bytes) (hlen : t.length < 65536)
    (h1 : ¬ Gen.futureCode1.isSuffixOf t = true) (h2 : ¬ Gen.futureCode2.isSuffixOf t = true)
    (pad : Bytes) :
    ∃ sz, decompress (header t ++ compress t ++ pad) = .ok (t.length, t, sz) := by
  obtain ⟨r, hr⟩ := withSuffix_prefix t
  have hle : t.length ≤ (withSuffix t).length := by rw [← hr]; simp
  obtain ⟨st, hst, hout⟩ := decodeLoop_sim (header t ++ compress t ++ pad).toArray t.length pad
    ((header t ++ compress t ++ pad).toArray.size + 1) (compress t) #[] (withSuffix t).toArray
    (header t) #[] (refDecodeAux_compress t) (Or.inr (by simpa using hle)) (by simp)
    (by simp; omega) (by simp)
  have hout' : st.out.toList = t := by
    rw [hout]; simp only []; rw [← hr]; simp
  have hhl : (header t).length = 8 := rfl
  rw [hhl] at hst
  refine ⟨st.inI, ?_⟩
  unfold decompress
  simp only []
  rw [if_neg (by simp [header])]
  have hcl : ((header t ++ compress t ++ pad).toArray.getD 4 0).toNat * 256 +
      ((header t ++ compress t ++ pad).toArray.getD 5 0).toNat = t.length := by
    have e4 : (header t ++ compress t ++ pad).toArray.getD 4 0 = (t.length / 256).toUInt8 := by
      simp [header]
    have e5 : (header t ++ compress t ++ pad).toArray.getD 5 0 = (t.length % 256).toUInt8 := by
      simp [header]
    rw [e4, e5]; exact header_len_bytes _ hlen
  rw [hcl]
  rw [if_neg (by simp [header, pySlice])]
  rw [hst]
  simp only [hout', stripSuffix_noop _ _ h1, stripSuffix_noop _ _ h2]

end Pico.Compress
