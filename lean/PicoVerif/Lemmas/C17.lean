import PicoVerif.Model.Accessors
/-! Helper lemmas for C17 (section accessors). -/
namespace Pico.Acc
open Pico.Sections

/-! ### basic byte-list access -/

theorem setAt_ok (l : Bytes) (i : Nat) (v : UInt8) (h : i < l.length) :
    setAt l i v = .ok (l.set i v) := by
  simp [setAt, h]

theorem getAt_ok (l : Bytes) (i : Nat) (h : i < l.length) : getAt l i = .ok l[i] := by
  simp [getAt, List.getElem?_eq_getElem h]

theorem getAt_of_getElem? (l : Bytes) (i : Nat) (b : UInt8) (h : l[i]? = some b) :
    getAt l i = .ok b := by
  simp [getAt, h]

/-- lifting a table over (byte, small nat) -/
theorem forall_u8_nat (n : Nat) (p : UInt8 → Nat → Bool)
    (h : (List.range 256).all (fun a => (List.range n).all (fun k => p a.toUInt8 k)) = true) :
    ∀ b k, k < n → p b k = true := by
  intro b k hk
  have h1 := forall_u8 (fun a => (List.range n).all (fun k => p a k)) h b
  exact all_range h1 k hk

theorem toUInt8_toNat (v : UInt8) : v.toNat.toUInt8 = v := by
  simp


/-! ### flags -/

theorem flags_all (gff : Bytes) (id fl : Nat) (hlt : id < gff.length) (hid : id ≤ 255) :
    setFlags gff id fl = .ok (gff.set id (gff[id] ||| (fl % 256).toUInt8)) ∧
    clearFlags gff id fl = .ok (gff.set id (gff[id] &&& ~~~ (fl % 256).toUInt8)) ∧
    resetFlags gff id fl = .ok (gff.set id (fl % 256).toUInt8) ∧
    getFlags gff id fl = .ok (gff[id].toNat &&& fl) := by
  have hn : ¬ id > 255 := by omega
  refine ⟨?_, ?_, ?_, ?_⟩
  · simp only [setFlags, if_neg hn, getAt_ok _ _ hlt]
    exact setAt_ok _ _ _ hlt
  · simp only [clearFlags, if_neg hn, getAt_ok _ _ hlt]
    exact setAt_ok _ _ _ hlt
  · simp only [resetFlags, if_neg hn]
    exact setAt_ok _ _ _ hlt
  · simp only [getFlags, if_neg hn, getAt_ok _ _ hlt]
    rfl

/-! ### music -/

def chanOK (b : UInt8) (p : Nat) : Bool :=
  ((((b &&& 0x80) ||| p.toUInt8) &&& 0x7f).toNat == p) &&
  ((((b &&& 0x80) ||| p.toUInt8) &&& 0x80) == (b &&& 0x80))

theorem chan_ok : ∀ b p, p < 70 → chanOK b p = true :=
  forall_u8_nat 70 _ (by decide +kernel)

def highOK (b : UInt8) : Bool :=
  ((((b &&& 0x7f) ||| 0x80) &&& 0x7f) == (b &&& 0x7f)) &&
  ((((b &&& 0x7f) ||| 0) &&& 0x7f) == (b &&& 0x7f)) &&
  (decide ((((b &&& 0x7f) ||| 0x80) &&& 0x80) > 0)) &&
  (!(decide ((((b &&& 0x7f) ||| 0) &&& 0x80) > 0)))

theorem high_ok : ∀ b, highOK b = true := forall_u8 _ (by decide +kernel)

theorem setHigh_spec (mus : Bytes) (i : Nat) (o : Option Bool) (hi : i < mus.length) :
    ∃ m', setHigh mus i o = .ok m' ∧ m'.length = mus.length ∧
      (∀ j, j ≠ i → m'[j]? = mus[j]?) ∧
      (∀ j, (m'.getD j 0) &&& 0x7f = (mus.getD j 0) &&& 0x7f) ∧
      ∃ b', m'[i]? = some b' ∧ decide ((b' &&& 0x80) > 0) = o.getD (decide ((mus[i] &&& 0x80) > 0)) := by
  cases o with
  | none =>
    exact ⟨mus, rfl, rfl, fun _ _ => rfl, fun _ => rfl, mus[i], List.getElem?_eq_getElem hi, rfl⟩
  | some f =>
    have hb := high_ok mus[i]
    simp only [highOK, Bool.and_eq_true, beq_iff_eq, decide_eq_true_eq, Bool.not_eq_true',
      decide_eq_false_iff_not] at hb
    obtain ⟨⟨⟨h1, h2⟩, h3⟩, h4⟩ := hb
    refine ⟨mus.set i ((mus[i] &&& 0x7f) ||| (if f then 0x80 else 0)), ?_, by simp, ?_, ?_, ?_⟩
    · simp only [setHigh, getAt_ok _ _ hi]
      exact setAt_ok _ _ _ hi
    · intro j hj
      rw [List.getElem?_set_ne (Ne.symm hj)]
    · intro j
      by_cases hj : j = i
      · subst hj
        simp only [List.getD_eq_getElem?_getD, List.getElem?_set_self hi, Option.getD_some,
          List.getElem?_eq_getElem hi]
        cases f
        · simpa using h2
        · simpa using h1
      · simp only [List.getD_eq_getElem?_getD, List.getElem?_set_ne (Ne.symm hj)]
    · refine ⟨_, List.getElem?_set_self hi, ?_⟩
      cases f
      · simpa using h4
      · simpa using h3


theorem setChannel_core (mus : Bytes) (i p : Nat) (hlt : i < mus.length) (hp70 : p < 70) :
    ∃ m', setAt mus i ((mus[i] &&& 0x80) ||| p.toUInt8) = .ok m' ∧ m'.length = mus.length ∧
      (do let b ← getAt m' i; pure (b &&& 0x7f).toNat : Except Err Nat) = .ok p ∧
      (m'.getD i 0) &&& 0x80 = mus[i] &&& 0x80 ∧
      ∀ j, j ≠ i → m'[j]? = mus[j]? := by
  have hb := chan_ok mus[i] p hp70
  simp only [chanOK, Bool.and_eq_true, beq_iff_eq] at hb
  refine ⟨mus.set i ((mus[i] &&& 0x80) ||| p.toUInt8), setAt_ok _ _ _ hlt, by simp, ?_, ?_, ?_⟩
  · simp only [bind, Except.bind,
      getAt_of_getElem? _ _ _ (List.getElem?_set_self hlt), hb.1, pure, Except.pure]
  · simp only [List.getD_eq_getElem?_getD, List.getElem?_set_self hlt, Option.getD_some]
    exact hb.2
  · intro j hj
    rw [List.getElem?_set_ne (Ne.symm hj)]

theorem setChannel_spec (mus : Bytes) (id ch : Nat) (pat : Option Nat) (hlt : id * 4 + ch < mus.length)
    (hid : id ≤ 63) (hch : ch ≤ 3) (hp : pat.getD 0 ≤ 63) :
    ∃ m', musSetChannel mus id ch pat = .ok m' ∧ m'.length = mus.length ∧
      musGetChannel m' id ch = .ok pat ∧
      (m'.getD (id * 4 + ch) 0) &&& 0x80 = mus[id * 4 + ch] &&& 0x80 ∧
      ∀ i, i ≠ id * 4 + ch → m'[i]? = mus[i]? := by
  have hn : ¬ (id > 63 ∨ ch > 3 ∨ pat.getD 0 > 63) := by omega
  have hn' : ¬ (id > 63 ∨ ch > 3) := by omega
  cases pat with
  | none =>
    obtain ⟨m', h1, h2, h3, h4, h5⟩ := setChannel_core mus (id * 4 + ch) (0x40 + ch + 1) hlt (by omega)
    refine ⟨m', ?_, h2, ?_, h4, h5⟩
    · simp only [musSetChannel, if_neg hn, getAt_ok _ _ hlt, bind, Except.bind]
      exact h1
    · simp only [musGetChannel, if_neg hn']
      cases hg : getAt m' (id * 4 + ch) with
      | error e => simp [hg, bind, Except.bind] at h3
      | ok b =>
        simp only [hg, bind, Except.bind, pure, Except.pure, Except.ok.injEq] at h3 ⊢
        rw [h3, if_pos (by omega)]
  | some q =>
    simp at hp
    obtain ⟨m', h1, h2, h3, h4, h5⟩ := setChannel_core mus (id * 4 + ch) q hlt (by omega)
    refine ⟨m', ?_, h2, ?_, h4, h5⟩
    · simp only [musSetChannel, if_neg hn, getAt_ok _ _ hlt, bind, Except.bind]
      exact h1
    · simp only [musGetChannel, if_neg hn']
      cases hg : getAt m' (id * 4 + ch) with
      | error e => simp [hg, bind, Except.bind] at h3
      | ok b =>
        simp only [hg, bind, Except.bind, pure, Except.pure, Except.ok.injEq] at h3 ⊢
        rw [h3, if_neg (by omega)]

theorem setOpt_spec (l : Bytes) (i : Nat) (o : Option Nat) (hi : i < l.length) (ho : o.getD 0 ≤ 255) :
    ∃ m', setOpt l i o = .ok m' ∧ m'.length = l.length ∧ (∀ j, j ≠ i → m'[j]? = l[j]?) ∧
      ∀ b, l[i]? = some b → m'[i]? = some ((o.map (·.toUInt8)).getD b) := by
  cases o with
  | none => exact ⟨l, rfl, rfl, fun _ _ => rfl, fun b hb => by simpa using hb⟩
  | some v =>
    simp at ho
    refine ⟨l.set i v.toUInt8, ?_, by simp, ?_, ?_⟩
    · simp only [setOpt, if_neg (show ¬ v > 255 by omega)]
      exact setAt_ok _ _ _ hi
    · intro j hj
      rw [List.getElem?_set_ne (Ne.symm hj)]
    · intro b _
      simp [List.getElem?_set_self hi]

theorem sfxSetProps_spec (sfx : Bytes) (id : Nat) (a b c d : Option Nat) (h : id * 68 + 67 < sfx.length)
    (ha : a.getD 0 ≤ 255) (hb : b.getD 0 ≤ 255) (hc : c.getD 0 ≤ 255) (hd : d.getD 0 ≤ 255) :
    ∃ s' old, sfxSetProps sfx id a b c d = .ok s' ∧ s'.length = sfx.length ∧
      sfxGetProps sfx id = .ok old ∧
      sfxGetProps s' id = .ok ((a.map (·.toUInt8)).getD old.1, (b.map (·.toUInt8)).getD old.2.1,
                               (c.map (·.toUInt8)).getD old.2.2.1, (d.map (·.toUInt8)).getD old.2.2.2) ∧
      ∀ i, (i < id * 68 + 64 ∨ i > id * 68 + 67) → s'[i]? = sfx[i]? := by
  obtain ⟨s1, e1, l1, f1, g1⟩ := setOpt_spec sfx (id * 68 + 64) a (by omega) ha
  obtain ⟨s2, e2, l2, f2, g2⟩ := setOpt_spec s1 (id * 68 + 65) b (by omega) hb
  obtain ⟨s3, e3, l3, f3, g3⟩ := setOpt_spec s2 (id * 68 + 66) c (by omega) hc
  obtain ⟨s4, e4, l4, f4, g4⟩ := setOpt_spec s3 (id * 68 + 67) d (by omega) hd
  have q0 : sfx[id * 68 + 64]? = some sfx[id * 68 + 64] := List.getElem?_eq_getElem (by omega)
  have q1 : sfx[id * 68 + 65]? = some sfx[id * 68 + 65] := List.getElem?_eq_getElem (by omega)
  have q2 : sfx[id * 68 + 66]? = some sfx[id * 68 + 66] := List.getElem?_eq_getElem (by omega)
  have q3 : sfx[id * 68 + 67]? = some sfx[id * 68 + 67] := List.getElem?_eq_getElem (by omega)
  refine ⟨s4, (sfx[id * 68 + 64], sfx[id * 68 + 65], sfx[id * 68 + 66], sfx[id * 68 + 67]),
    ?_, by omega, ?_, ?_, ?_⟩
  · simp only [sfxSetProps, e1, e2, e3, e4, bind, Except.bind]
  · simp only [sfxGetProps, getAt_of_getElem? _ _ _ q0, getAt_of_getElem? _ _ _ q1,
      getAt_of_getElem? _ _ _ q2, getAt_of_getElem? _ _ _ q3, bind, Except.bind, pure, Except.pure]
  · have r0 : s4[id * 68 + 64]? = some ((a.map (·.toUInt8)).getD sfx[id * 68 + 64]) := by
      rw [f4 _ (by omega), f3 _ (by omega), f2 _ (by omega)]; exact g1 _ q0
    have r1 : s4[id * 68 + 65]? = some ((b.map (·.toUInt8)).getD sfx[id * 68 + 65]) := by
      rw [f4 _ (by omega), f3 _ (by omega)]; exact g2 _ (by rw [f1 _ (by omega)]; exact q1)
    have r2 : s4[id * 68 + 66]? = some ((c.map (·.toUInt8)).getD sfx[id * 68 + 66]) := by
      rw [f4 _ (by omega)]; exact g3 _ (by rw [f2 _ (by omega), f1 _ (by omega)]; exact q2)
    have r3 : s4[id * 68 + 67]? = some ((d.map (·.toUInt8)).getD sfx[id * 68 + 67]) :=
      g4 _ (by rw [f3 _ (by omega), f2 _ (by omega), f1 _ (by omega)]; exact q3)
    simp only [sfxGetProps, getAt_of_getElem? _ _ _ r0, getAt_of_getElem? _ _ _ r1,
      getAt_of_getElem? _ _ _ r2, getAt_of_getElem? _ _ _ r3, bind, Except.bind, pure, Except.pure]
  · intro i hi
    rw [f4 _ (by omega), f3 _ (by omega), f2 _ (by omega), f1 _ (by omega)]

theorem musSetProps_spec (mus : Bytes) (id : Nat) (bg en st : Option Bool) (h : mus.length = 0x100) (hid : id ≤ 63) :
    ∃ m' old, musSetProps mus id bg en st = .ok m' ∧ m'.length = 0x100 ∧
      musGetProps mus id = .ok old ∧
      musGetProps m' id = .ok (bg.getD old.1, en.getD old.2.1, st.getD old.2.2) ∧
      (∀ i, i < 0x100 → (m'.getD i 0) &&& 0x7f = (mus.getD i 0) &&& 0x7f) ∧
      ∀ i, (i < id * 4 ∨ i > id * 4 + 2) → m'[i]? = mus[i]? := by
  have hn : ¬ id > 63 := by omega
  have h0 : id * 4 < mus.length := by omega
  obtain ⟨m1, e1, l1, f1, k1, b1, g1, v1⟩ := setHigh_spec mus (id * 4) bg h0
  obtain ⟨m2, e2, l2, f2, k2, b2, g2, v2⟩ := setHigh_spec m1 (id * 4 + 1) en (by omega)
  obtain ⟨m3, e3, l3, f3, k3, b3, g3, v3⟩ := setHigh_spec m2 (id * 4 + 2) st (by omega)
  refine ⟨m3, (decide ((mus[id * 4] &&& 0x80) > 0), decide ((mus[id * 4 + 1] &&& 0x80) > 0),
    decide ((mus[id * 4 + 2] &&& 0x80) > 0)), ?_, by omega, ?_, ?_, ?_, ?_⟩
  · simp only [musSetProps, e1, e2, e3, bind, Except.bind]
  · simp only [musGetProps, if_neg hn, getAt_ok mus (id * 4) h0, getAt_ok mus (id * 4 + 1) (by omega),
      getAt_ok mus (id * 4 + 2) (by omega), bind, Except.bind, pure, Except.pure]
  · have a1 : m3[id * 4]? = some b1 := by
      rw [f3 _ (by omega), f2 _ (by omega), g1]
    have a2 : m3[id * 4 + 1]? = some b2 := by
      rw [f3 _ (by omega), g2]
    have w2 : m1[id * 4 + 1]'(by omega) = mus[id * 4 + 1] := by
      have := f1 (id * 4 + 1) (by omega)
      rw [List.getElem?_eq_getElem (by omega), List.getElem?_eq_getElem (by omega)] at this
      exact Option.some.inj this
    have w3 : m2[id * 4 + 2]'(by omega) = mus[id * 4 + 2] := by
      have := f2 (id * 4 + 2) (by omega)
      rw [f1 _ (by omega), List.getElem?_eq_getElem (by omega), List.getElem?_eq_getElem (by omega)] at this
      exact Option.some.inj this
    simp only [musGetProps, if_neg hn, getAt_of_getElem? _ _ _ a1, getAt_of_getElem? _ _ _ a2,
      getAt_of_getElem? _ _ _ g3, bind, Except.bind, pure, Except.pure, v1, v2, v3, w2, w3]
  · intro i _
    rw [k3, k2, k1]
  · intro i hi
    rw [f3 _ (by omega), f2 _ (by omega), f1 _ (by omega)]

/-! ### sfx notes -/

def setP (x : UInt8) (p : Nat) : UInt8 := (x &&& 0xc0) ||| p.toUInt8
def setWL (x : UInt8) (w : Nat) : UInt8 := (x &&& 0x3f) ||| ((w.toUInt8 &&& 3) <<< (6 : UInt8))
def setWM (x : UInt8) (w : Nat) : UInt8 :=
  (x &&& 0x7e) ||| ((w.toUInt8 &&& 4) >>> (2 : UInt8)) ||| ((w.toUInt8 &&& 8) <<< (4 : UInt8))
def setV (x : UInt8) (v : Nat) : UInt8 := (x &&& 0xf1) ||| (v.toUInt8 <<< (1 : UInt8))
def setE (x : UInt8) (e : Nat) : UInt8 := (x &&& 0x8f) ||| (e.toUInt8 <<< (4 : UInt8))

def setPOK (x : UInt8) (p : Nat) : Bool :=
  (setP x p &&& 0x3f == p.toUInt8) && (setP x p &&& 0xc0 == x &&& 0xc0)
def setWLOK (x : UInt8) (w : Nat) : Bool :=
  (setWL x w &&& 0x3f == x &&& 0x3f) && ((setWL x w &&& 0xc0) >>> 6 == w.toUInt8 &&& 3)
def setWMOK (x : UInt8) (w : Nat) : Bool :=
  (setWM x w &&& 0x0e == x &&& 0x0e) && (setWM x w &&& 0x70 == x &&& 0x70) &&
  (((setWM x w &&& 0x80) >>> 4) ||| ((setWM x w &&& 0x01) <<< 2) ||| (w.toUInt8 &&& 3) == w.toUInt8)
def setVOK (x : UInt8) (v : Nat) : Bool :=
  ((setV x v &&& 0x0e) >>> 1 == v.toUInt8) && (setV x v &&& 0x80 == x &&& 0x80) &&
  (setV x v &&& 0x01 == x &&& 0x01) && (setV x v &&& 0x70 == x &&& 0x70)
def setEOK (x : UInt8) (e : Nat) : Bool :=
  ((setE x e &&& 0x70) >>> 4 == e.toUInt8) && (setE x e &&& 0x80 == x &&& 0x80) &&
  (setE x e &&& 0x01 == x &&& 0x01) && (setE x e &&& 0x0e == x &&& 0x0e)

theorem setP_ok : ∀ x p, p < 64 → setPOK x p = true := forall_u8_nat 64 _ (by decide +kernel)
theorem setWL_ok : ∀ x w, w < 16 → setWLOK x w = true := forall_u8_nat 16 _ (by decide +kernel)
theorem setWM_ok : ∀ x w, w < 16 → setWMOK x w = true := forall_u8_nat 16 _ (by decide +kernel)
theorem setV_ok : ∀ x v, v < 8 → setVOK x v = true := forall_u8_nat 8 _ (by decide +kernel)
theorem setE_ok : ∀ x e, e < 8 → setEOK x e = true := forall_u8_nat 8 _ (by decide +kernel)

def noteLsb (lsb : UInt8) (p w : Option Nat) : UInt8 :=
  let lsb1 : UInt8 := match p with | some p => setP lsb p | none => lsb
  match w with | some w => setWL lsb1 w | none => lsb1

def noteMsb (msb : UInt8) (w v e : Option Nat) : UInt8 :=
  let msb1 : UInt8 := match w with | some w => setWM msb w | none => msb
  let msb2 : UInt8 := match v with | some v => setV msb1 v | none => msb1
  match e with | some e => setE msb2 e | none => msb2

theorem note_bytes (lsb msb : UInt8) (p w v e : Option Nat)
    (hp : p.getD 0 ≤ 63) (hw : w.getD 0 ≤ 15) (hv : v.getD 0 ≤ 7) (he : e.getD 0 ≤ 7) :
    getNote (noteLsb lsb p w) (noteMsb msb w v e) =
      ((p.map (·.toUInt8)).getD (getNote lsb msb).1, (w.map (·.toUInt8)).getD (getNote lsb msb).2.1,
       (v.map (·.toUInt8)).getD (getNote lsb msb).2.2.1, (e.map (·.toUInt8)).getD (getNote lsb msb).2.2.2) := by
  have P := fun x => setP_ok x (p.getD 0) (by omega)
  have WL := fun x => setWL_ok x (w.getD 0) (by omega)
  have WM := fun x => setWM_ok x (w.getD 0) (by omega)
  have V := fun x => setV_ok x (v.getD 0) (by omega)
  have E := fun x => setE_ok x (e.getD 0) (by omega)
  simp only [setPOK, setWLOK, setWMOK, setVOK, setEOK, Bool.and_eq_true, beq_iff_eq] at P WL WM V E
  cases p <;> cases w <;> cases v <;> cases e <;>
    simp only [Option.getD_some, Option.getD_none] at P WL WM V E <;>
    simp only [getNote, noteLsb, noteMsb, Option.map_some, Option.map_none, Option.getD_some,
      Option.getD_none, P, WL, WM, V, E]

theorem sfxSetNote_eq (sfx : Bytes) (id note : Nat) (p w v e : Option Nat)
    (h1 : id * 68 + note * 2 + 1 < sfx.length)
    (hp : p.getD 0 ≤ 63) (hw : w.getD 0 ≤ 15) (hv : v.getD 0 ≤ 7) (he : e.getD 0 ≤ 7) :
    sfxSetNote sfx id note p w v e =
      .ok ((sfx.set (id * 68 + note * 2) (noteLsb (sfx[id * 68 + note * 2]) p w)).set
        (id * 68 + note * 2 + 1) (noteMsb (sfx[id * 68 + note * 2 + 1]) w v e)) := by
  have h0 : id * 68 + note * 2 < sfx.length := by omega
  have hn : ¬ (p.getD 0 > 63 ∨ w.getD 0 > 15 ∨ v.getD 0 > 7 ∨ e.getD 0 > 7) := by omega
  simp only [sfxSetNote, getAt_ok _ _ h0, getAt_ok _ _ h1, bind, Except.bind, if_neg hn]
  rw [setAt_ok _ _ _ h0]
  simp only []
  rw [setAt_ok _ _ _ (by simpa using h1)]
  rfl

theorem sfxSetNote_spec (sfx : Bytes) (id note : Nat) (p w v e : Option Nat)
    (h1 : id * 68 + note * 2 + 1 < sfx.length)
    (hp : p.getD 0 ≤ 63) (hw : w.getD 0 ≤ 15) (hv : v.getD 0 ≤ 7) (he : e.getD 0 ≤ 7) :
    ∃ s' old, sfxSetNote sfx id note p w v e = .ok s' ∧ s'.length = sfx.length ∧
      sfxGetNote sfx id note = .ok old ∧
      sfxGetNote s' id note = .ok ((p.map (·.toUInt8)).getD old.1, (w.map (·.toUInt8)).getD old.2.1,
                                   (v.map (·.toUInt8)).getD old.2.2.1, (e.map (·.toUInt8)).getD old.2.2.2) ∧
      ∀ i, i ≠ id * 68 + note * 2 → i ≠ id * 68 + note * 2 + 1 → s'[i]? = sfx[i]? := by
  have h0 : id * 68 + note * 2 < sfx.length := by omega
  refine ⟨_, getNote sfx[id * 68 + note * 2] sfx[id * 68 + note * 2 + 1],
    sfxSetNote_eq sfx id note p w v e h1 hp hw hv he, by simp, ?_, ?_, ?_⟩
  · simp only [sfxGetNote, getAt_ok _ _ h0, getAt_ok _ _ h1, bind, Except.bind, pure, Except.pure]
  · have a0 : ((sfx.set (id * 68 + note * 2) (noteLsb (sfx[id * 68 + note * 2]) p w)).set
        (id * 68 + note * 2 + 1) (noteMsb (sfx[id * 68 + note * 2 + 1]) w v e))[id * 68 + note * 2]? =
        some (noteLsb (sfx[id * 68 + note * 2]) p w) := by
      rw [List.getElem?_set_ne (by omega), List.getElem?_set_self h0]
    have a1 : ((sfx.set (id * 68 + note * 2) (noteLsb (sfx[id * 68 + note * 2]) p w)).set
        (id * 68 + note * 2 + 1) (noteMsb (sfx[id * 68 + note * 2 + 1]) w v e))[id * 68 + note * 2 + 1]? =
        some (noteMsb (sfx[id * 68 + note * 2 + 1]) w v e) := by
      rw [List.getElem?_set_self (by simpa using h1)]
    simp only [sfxGetNote, getAt_of_getElem? _ _ _ a0, getAt_of_getElem? _ _ _ a1, bind, Except.bind,
      pure, Except.pure, note_bytes _ _ p w v e hp hw hv he]
  · intro i hi0 hi1
    rw [List.getElem?_set_ne (Ne.symm hi1), List.getElem?_set_ne (Ne.symm hi0)]

/-! ### gfx pixels -/

def nib (b : UInt8) (px : Nat) : UInt8 :=
  if px % 2 = 0 then b &&& 0x0f else (b &&& 0xf0) >>> (4 : UInt8)

def putNib (b : UInt8) (px : Nat) (v : UInt8) : UInt8 :=
  if px % 2 = 0 then (b &&& 0xf0) + v else (b &&& 0x0f) + (v <<< (4 : UInt8))

def nibOK (b : UInt8) (k : Nat) : Bool :=
  (nib (putNib b 0 k.toUInt8) 0 == k.toUInt8) && (nib (putNib b 0 k.toUInt8) 1 == nib b 1) &&
  (nib (putNib b 1 k.toUInt8) 1 == k.toUInt8) && (nib (putNib b 1 k.toUInt8) 0 == nib b 0)

theorem nib_ok : ∀ b k, k < 16 → nibOK b k = true := forall_u8_nat 16 _ (by decide +kernel)

theorem nib_congr (b : UInt8) (p q : Nat) (h : p % 2 = q % 2) : nib b p = nib b q := by
  simp only [nib, h]

theorem putNib_congr (b : UInt8) (p q : Nat) (v : UInt8) (h : p % 2 = q % 2) : putNib b p v = putNib b q v := by
  simp only [putNib, h]

theorem nib_putNib (b v : UInt8) (hv : v < 16) (p q : Nat) :
    nib (putNib b p v) q = if p % 2 = q % 2 then v else nib b q := by
  have hk : v.toNat < 16 := by simpa [UInt8.lt_iff_toNat_lt] using hv
  have h := nib_ok b v.toNat hk
  simp only [nibOK, toUInt8_toNat, Bool.and_eq_true, beq_iff_eq] at h
  obtain ⟨⟨⟨h1, h2⟩, h3⟩, h4⟩ := h
  rcases Nat.mod_two_eq_zero_or_one p with hp | hp <;> rcases Nat.mod_two_eq_zero_or_one q with hq | hq
  · rw [putNib_congr b p 0 v (by omega), nib_congr _ q 0 (by omega), if_pos (by omega)]; exact h1
  · rw [putNib_congr b p 0 v (by omega), nib_congr _ q 1 (by omega), if_neg (by omega),
      nib_congr b q 1 (by omega)]; exact h2
  · rw [putNib_congr b p 1 v (by omega), nib_congr _ q 0 (by omega), if_neg (by omega),
      nib_congr b q 0 (by omega)]; exact h4
  · rw [putNib_congr b p 1 v (by omega), nib_congr _ q 1 (by omega), if_pos (by omega)]; exact h3

theorem pixelAt_of_getElem? (g : Bytes) (qx qy : Nat) (b : UInt8) (h : g[qy * 64 + qx / 2]? = some b) :
    pixelAt g qx qy = .ok (nib b qx) := by
  simp only [pixelAt, getAt_of_getElem? _ _ _ h, bind, Except.bind, pure, Except.pure, nib]

theorem setPixel_spec (gfx : Bytes) (px py : Nat) (v : UInt8) (hl : gfx.length = 0x2000)
    (hx : px < 128) (hy : py < 128) (hv : v < 16) :
    ∃ g', setPixel gfx px py v = .ok g' ∧ g'.length = 0x2000 ∧
      ∀ qx qy, qx < 128 → qy < 128 →
        pixelAt g' qx qy = if qx = px ∧ qy = py then .ok v else pixelAt gfx qx qy := by
  have hloc : py * 64 + px / 2 < gfx.length := by omega
  refine ⟨gfx.set (py * 64 + px / 2) (putNib gfx[py * 64 + px / 2] px v), ?_, by simpa using hl, ?_⟩
  · simp only [setPixel, getAt_ok _ _ hloc, bind, Except.bind]
    exact setAt_ok _ _ _ hloc
  · intro qx qy hqx hqy
    have hq : qy * 64 + qx / 2 < gfx.length := by omega
    rw [pixelAt_of_getElem? gfx qx qy _ (List.getElem?_eq_getElem hq)]
    by_cases hsame : qy * 64 + qx / 2 = py * 64 + px / 2
    · have e : (gfx.set (py * 64 + px / 2) (putNib gfx[py * 64 + px / 2] px v))[qy * 64 + qx / 2]? =
          some (putNib gfx[py * 64 + px / 2] px v) := by
        rw [hsame]; exact List.getElem?_set_self hloc
      rw [pixelAt_of_getElem? _ qx qy _ e, nib_putNib _ _ hv]
      have hqy' : qy = py := by omega
      by_cases hpar : px % 2 = qx % 2
      · rw [if_pos hpar, if_pos (by omega)]
      · rw [if_neg hpar, if_neg (by omega)]
        simp only [hsame]
    · have e : (gfx.set (py * 64 + px / 2) (putNib gfx[py * 64 + px / 2] px v))[qy * 64 + qx / 2]? =
          some gfx[qy * 64 + qx / 2] := by
        rw [List.getElem?_set_ne (Ne.symm hsame)]; exact List.getElem?_eq_getElem hq
      rw [pixelAt_of_getElem? _ qx qy _ e, if_neg (by omega)]

/-! ### map cells -/

theorem getAt_set (l : Bytes) (i j : Nat) (v : UInt8) (hi : i < l.length) :
    getAt (l.set i v) j = if j = i then .ok v else getAt l j := by
  by_cases h : j = i
  · subst h
    rw [if_pos rfl]
    exact getAt_of_getElem? _ _ _ (List.getElem?_set_self hi)
  · rw [if_neg h]
    simp only [getAt, List.getElem?_set_ne (Ne.symm h)]

theorem setCell_spec (s : MG) (x y v : Nat) (hm : s.map.length = 0x1000) (hg : s.gfx.length = 0x2000)
    (hx : x ≤ 127) (hy : y ≤ 63) (hv : v ≤ 255) :
    ∃ s', setCell s x y v = .ok s' ∧ s'.map.length = 0x1000 ∧ s'.gfx.length = 0x2000 ∧
      (∀ x' y', x' ≤ 127 → y' ≤ 63 →
        getCell s' x' y' = if x' = x ∧ y' = y then .ok v.toUInt8 else getCell s x' y') ∧
      (∀ i, i < 0x1000 → s'.gfx[i]? = s.gfx[i]?) := by
  have hn : ¬ (x > 127 ∨ y > 63 ∨ v > 255) := by omega
  by_cases hy31 : y ≤ 31
  · have hi : y * 128 + x < s.map.length := by omega
    refine ⟨{ s with map := s.map.set (y * 128 + x) v.toUInt8 }, ?_, by simpa using hm, hg, ?_,
      fun i _ => rfl⟩
    · simp only [setCell, if_neg hn, if_pos hy31, setAt_ok _ _ _ hi, bind, Except.bind, pure, Except.pure]
    · intro x' y' hx' hy'
      have hn' : ¬ (x' > 127 ∨ y' > 63) := by omega
      simp only [getCell, if_neg hn']
      by_cases h31 : y' ≤ 31
      · simp only [if_pos h31]
        rw [getAt_set _ _ _ _ hi]
        by_cases hc : x' = x ∧ y' = y
        · rw [if_pos hc, if_pos (by omega)]
        · rw [if_neg hc, if_neg (by omega)]
      · simp only [if_neg h31]
        rw [if_neg (by omega)]
  · have hi : 4096 + (y - 32) * 128 + x < s.gfx.length := by omega
    refine ⟨{ s with gfx := s.gfx.set (4096 + (y - 32) * 128 + x) v.toUInt8 }, ?_, hm, by simpa using hg,
      ?_, ?_⟩
    · simp only [setCell, if_neg hn, if_neg hy31, setAt_ok _ _ _ hi, bind, Except.bind, pure, Except.pure]
    · intro x' y' hx' hy'
      have hn' : ¬ (x' > 127 ∨ y' > 63) := by omega
      simp only [getCell, if_neg hn']
      by_cases h31 : y' ≤ 31
      · simp only [if_pos h31]
        rw [if_neg (by omega)]
      · simp only [if_neg h31]
        rw [getAt_set _ _ _ _ hi]
        by_cases hc : x' = x ∧ y' = y
        · rw [if_pos hc, if_pos (by omega)]
        · rw [if_neg hc, if_neg (by omega)]
    · intro i hi'
      simp only []
      rw [List.getElem?_set_ne (by omega)]

def nibJoinOK (b : UInt8) : Bool := b == (nib b 0 ||| (nib b 1 <<< (4 : UInt8)))

theorem nib_join : ∀ b, nibJoinOK b = true := forall_u8 _ (by decide +kernel)

theorem byte_eq_of_nibs (a b : UInt8) (h0 : nib a 0 = nib b 0) (h1 : nib a 1 = nib b 1) : a = b := by
  have ha := nib_join a
  have hb := nib_join b
  simp only [nibJoinOK, beq_iff_eq] at ha hb
  rw [ha, hb, h0, h1]

theorem pixels_determine_aux (g1 g2 : Bytes) (h1 : g1.length = 0x2000) (h2 : g2.length = 0x2000)
    (h : ∀ qx qy, qx < 128 → qy < 128 → pixelAt g1 qx qy = pixelAt g2 qx qy) : g1 = g2 := by
  apply List.ext_getElem (by omega)
  intro i hi1 hi2
  have e0 : i / 64 * 64 + (2 * (i % 64)) / 2 = i := by omega
  have e1 : i / 64 * 64 + (2 * (i % 64) + 1) / 2 = i := by omega
  have a0 := h (2 * (i % 64)) (i / 64) (by omega) (by omega)
  have a1 := h (2 * (i % 64) + 1) (i / 64) (by omega) (by omega)
  rw [pixelAt_of_getElem? g1 _ _ g1[i] (by rw [e0]; exact List.getElem?_eq_getElem hi1),
    pixelAt_of_getElem? g2 _ _ g2[i] (by rw [e0]; exact List.getElem?_eq_getElem hi2)] at a0
  rw [pixelAt_of_getElem? g1 _ _ g1[i] (by rw [e1]; exact List.getElem?_eq_getElem hi1),
    pixelAt_of_getElem? g2 _ _ g2[i] (by rw [e1]; exact List.getElem?_eq_getElem hi2)] at a1
  have b0 := Except.ok.inj a0
  have b1 := Except.ok.inj a1
  rw [nib_congr _ _ 0 (by omega), nib_congr g2[i] _ 0 (by omega)] at b0
  rw [nib_congr _ _ 1 (by omega), nib_congr g2[i] _ 1 (by omega)] at b1
  exact byte_eq_of_nibs _ _ b0 b1

/-! ### set_sprite -/

/-- `some v` overrides with `.ok v`, `none` keeps the default -/
def orOk (o : Option Nat) (d : Except Err UInt8) : Except Err UInt8 :=
  match o with | some v => .ok v.toUInt8 | none => d

def rowPaint (row : List Nat) (x0 qx : Nat) : Option Nat :=
  if qx < x0 then none else
  match row[qx - x0]? with
  | some v => if v = 16 then none else some v
  | none => none

theorem rowPaint_lt (row : List Nat) (x0 qx : Nat) (h : qx < x0) : rowPaint row x0 qx = none := by
  simp only [rowPaint, if_pos h]

theorem rowPaint_nil (x0 qx : Nat) : rowPaint [] x0 qx = none := by
  simp [rowPaint]

theorem rowPaint_cons (v : Nat) (rest : List Nat) (x0 qx : Nat) :
    rowPaint (v :: rest) x0 qx =
      if qx = x0 then (if v = 16 then none else some v) else rowPaint rest (x0 + 1) qx := by
  by_cases h1 : qx < x0
  · rw [rowPaint_lt _ _ _ h1, if_neg (by omega), rowPaint_lt _ _ _ (by omega)]
  · by_cases h2 : qx = x0
    · subst h2
      simp [rowPaint]
    · rw [if_neg h2]
      have e : qx - x0 = (qx - (x0 + 1)) + 1 := by omega
      simp only [rowPaint, if_neg h1, if_neg (show ¬ qx < x0 + 1 by omega)]
      rw [e, List.getElem?_cons_succ]

theorem toUInt8_lt16 (v : Nat) (h : v < 16) : v.toUInt8 < 16 := by
  rw [UInt8.lt_iff_toNat_lt]
  simp
  omega

theorem setSpriteRow_spec (fx py : Nat) : ∀ (row : List Nat) (x : Nat) (gfx : Bytes),
    gfx.length = 0x2000 → (∀ v ∈ row, v ≤ 16) →
    ∃ g', setSpriteRow fx py row x gfx = .ok g' ∧ g'.length = 0x2000 ∧
      ∀ qx qy, qx < 128 → qy < 128 →
        pixelAt g' qx qy = orOk (if qy = py then rowPaint row (fx + x) qx else none) (pixelAt gfx qx qy)
  | [], x, gfx, hl, _ => ⟨gfx, rfl, hl, fun qx qy _ _ => by simp [rowPaint_nil, orOk]⟩
  | val :: rest, x, gfx, hl, hv => by
    have hval : val ≤ 16 := hv val List.mem_cons_self
    have hrest : ∀ v ∈ rest, v ≤ 16 := fun v h => hv v (List.mem_cons_of_mem _ h)
    have hn16 : ¬ val > 16 := by omega
    by_cases hskip : val = 16 ∨ py ≥ 128 ∨ fx + x ≥ 128
    · obtain ⟨g', e, l, f⟩ := setSpriteRow_spec fx py rest (x + 1) gfx hl hrest
      refine ⟨g', ?_, l, ?_⟩
      · simp only [setSpriteRow, if_neg hn16, if_pos hskip]; exact e
      · intro qx qy hqx hqy
        rw [f qx qy hqx hqy]
        congr 1
        by_cases hq : qy = py
        · rw [if_pos hq, if_pos hq, rowPaint_cons]
          by_cases hqx' : qx = fx + x
          · rw [if_pos hqx', if_pos (show val = 16 by omega), rowPaint_lt _ _ _ (show qx < fx + (x + 1) by omega)]
          · rw [if_neg hqx']; rfl
        · rw [if_neg hq, if_neg hq]
    · obtain ⟨g1, e1, l1, f1⟩ := setPixel_spec gfx (fx + x) py val.toUInt8 hl (by omega) (by omega)
        (toUInt8_lt16 val (by omega))
      obtain ⟨g', e, l, f⟩ := setSpriteRow_spec fx py rest (x + 1) g1 l1 hrest
      refine ⟨g', ?_, l, ?_⟩
      · simp only [setSpriteRow, if_neg hn16, if_neg hskip, e1, bind, Except.bind]; exact e
      · intro qx qy hqx hqy
        rw [f qx qy hqx hqy, f1 qx qy hqx hqy]
        by_cases hq : qy = py
        · rw [if_pos hq, if_pos hq, rowPaint_cons]
          by_cases hqx' : qx = fx + x
          · rw [if_pos hqx', if_neg (show ¬ val = 16 by omega), rowPaint_lt _ _ _ (show qx < fx + (x + 1) by omega),
              if_pos (And.intro hqx' hq)]
            rfl
          · rw [if_neg hqx', if_neg (fun hh => hqx' hh.1)]; rfl
        · rw [if_neg hq, if_neg hq, if_neg (fun hh => hq hh.2)]

def sprPaint (sprite : List (List Nat)) (fx fy qx qy : Nat) : Option Nat :=
  if qy < fy then none else
  match sprite[qy - fy]? with
  | none => none
  | some row => rowPaint row fx qx

theorem sprPaint_lt (sprite : List (List Nat)) (fx fy qx qy : Nat) (h : qy < fy) :
    sprPaint sprite fx fy qx qy = none := by
  simp only [sprPaint, if_pos h]

theorem sprPaint_cons (row : List Nat) (rest : List (List Nat)) (fx fy qx qy : Nat) :
    sprPaint (row :: rest) fx fy qx qy =
      if qy = fy then rowPaint row fx qx else sprPaint rest fx (fy + 1) qx qy := by
  by_cases h1 : qy < fy
  · rw [sprPaint_lt _ _ _ _ _ h1, if_neg (by omega), sprPaint_lt _ _ _ _ _ (by omega)]
  · by_cases h2 : qy = fy
    · subst h2
      simp [sprPaint]
    · rw [if_neg h2]
      have e : qy - fy = (qy - (fy + 1)) + 1 := by omega
      simp only [sprPaint, if_neg h1, if_neg (show ¬ qy < fy + 1 by omega)]
      rw [e, List.getElem?_cons_succ]

theorem setSpriteRows_spec (fx fy : Nat) : ∀ (rows : List (List Nat)) (y : Nat) (gfx : Bytes),
    gfx.length = 0x2000 → (∀ row ∈ rows, ∀ v ∈ row, v ≤ 16) →
    ∃ g', setSpriteRows fx fy rows y gfx = .ok g' ∧ g'.length = 0x2000 ∧
      ∀ qx qy, qx < 128 → qy < 128 →
        pixelAt g' qx qy = orOk (sprPaint rows fx (fy + y) qx qy) (pixelAt gfx qx qy)
  | [], y, gfx, hl, _ => ⟨gfx, rfl, hl, fun qx qy _ _ => by simp [sprPaint, orOk]⟩
  | row :: rest, y, gfx, hl, hv => by
    obtain ⟨g1, e1, l1, f1⟩ := setSpriteRow_spec fx (fy + y) row 0 gfx hl (hv row List.mem_cons_self)
    obtain ⟨g', e, l, f⟩ := setSpriteRows_spec fx fy rest (y + 1) g1 l1
      (fun r h => hv r (List.mem_cons_of_mem _ h))
    refine ⟨g', ?_, l, ?_⟩
    · simp only [setSpriteRows, e1, bind, Except.bind]; exact e
    · intro qx qy hqx hqy
      rw [f qx qy hqx hqy, f1 qx qy hqx hqy, sprPaint_cons]
      by_cases hq : qy = fy + y
      · rw [if_pos hq, if_pos hq, sprPaint_lt _ _ _ _ _ (by omega)]
        rfl
      · rw [if_neg hq, if_neg hq]
        rfl

/-! ### set_rect_tiles -/

def rectRow (row : List Nat) (x0 qx : Nat) : Option Nat :=
  if qx < x0 then none else row[qx - x0]?

theorem rectRow_lt (row : List Nat) (x0 qx : Nat) (h : qx < x0) : rectRow row x0 qx = none := by
  simp only [rectRow, if_pos h]

theorem rectRow_cons (v : Nat) (rest : List Nat) (x0 qx : Nat) :
    rectRow (v :: rest) x0 qx = if qx = x0 then some v else rectRow rest (x0 + 1) qx := by
  by_cases h1 : qx < x0
  · rw [rectRow_lt _ _ _ h1, if_neg (by omega), rectRow_lt _ _ _ (by omega)]
  · by_cases h2 : qx = x0
    · subst h2
      simp [rectRow]
    · rw [if_neg h2]
      have e : qx - x0 = (qx - (x0 + 1)) + 1 := by omega
      simp only [rectRow, if_neg h1, if_neg (show ¬ qx < x0 + 1 by omega)]
      rw [e, List.getElem?_cons_succ]

theorem setRectRow_spec (x ty : Nat) : ∀ (row : List Nat) (dx : Nat) (s : MG),
    s.map.length = 0x1000 → s.gfx.length = 0x2000 → (∀ v ∈ row, v ≤ 255) →
    ∃ s', setRectRow x ty row dx s = .ok s' ∧ s'.map.length = 0x1000 ∧ s'.gfx.length = 0x2000 ∧
      (∀ qx qy, qx ≤ 127 → qy ≤ 63 →
        getCell s' qx qy = orOk (if qy = ty then rectRow row (dx + x) qx else none) (getCell s qx qy)) ∧
      (∀ i, i < 0x1000 → s'.gfx[i]? = s.gfx[i]?)
  | [], dx, s, hm, hg, _ =>
    ⟨s, rfl, hm, hg, fun qx qy _ _ => by simp [rectRow, orOk], fun _ _ => rfl⟩
  | val :: rest, dx, s, hm, hg, hv => by
    have hval : val ≤ 255 := hv val List.mem_cons_self
    have hrest : ∀ v ∈ rest, v ≤ 255 := fun v h => hv v (List.mem_cons_of_mem _ h)
    have hadd : dx + 1 + x = dx + x + 1 := by omega
    by_cases hskip : ty > 63 ∨ dx + x > 127
    · obtain ⟨s', e, lm, lg, f, fr⟩ := setRectRow_spec x ty rest (dx + 1) s hm hg hrest
      refine ⟨s', ?_, lm, lg, ?_, fr⟩
      · simp only [setRectRow, if_pos hskip]; exact e
      · intro qx qy hqx hqy
        rw [f qx qy hqx hqy, hadd]
        congr 1
        by_cases hq : qy = ty
        · rw [if_pos hq, if_pos hq, rectRow_cons, if_neg (show ¬ qx = dx + x by omega)]
        · rw [if_neg hq, if_neg hq]
    · obtain ⟨s1, e1, lm1, lg1, f1, fr1⟩ := setCell_spec s (dx + x) ty val hm hg (by omega) (by omega) hval
      obtain ⟨s', e, lm, lg, f, fr⟩ := setRectRow_spec x ty rest (dx + 1) s1 lm1 lg1 hrest
      refine ⟨s', ?_, lm, lg, ?_, ?_⟩
      · simp only [setRectRow, if_neg hskip, e1, bind, Except.bind]; exact e
      · intro qx qy hqx hqy
        rw [f qx qy hqx hqy, f1 qx qy hqx hqy, hadd]
        by_cases hq : qy = ty
        · rw [if_pos hq, if_pos hq, rectRow_cons]
          by_cases hqx' : qx = dx + x
          · rw [if_pos hqx', rectRow_lt _ _ _ (show qx < dx + x + 1 by omega), if_pos (And.intro hqx' hq)]
            rfl
          · rw [if_neg hqx', if_neg (fun hh => hqx' hh.1)]
        · rw [if_neg hq, if_neg hq, if_neg (fun hh => hq hh.2)]
      · intro i hi
        rw [fr i hi, fr1 i hi]

def rectPaint (rect : List (List Nat)) (x y qx qy : Nat) : Option Nat :=
  if qy < y then none else
  match rect[qy - y]? with
  | none => none
  | some row => rectRow row x qx

theorem rectPaint_lt (rect : List (List Nat)) (x y qx qy : Nat) (h : qy < y) :
    rectPaint rect x y qx qy = none := by
  simp only [rectPaint, if_pos h]

theorem rectPaint_cons (row : List Nat) (rest : List (List Nat)) (x y qx qy : Nat) :
    rectPaint (row :: rest) x y qx qy =
      if qy = y then rectRow row x qx else rectPaint rest x (y + 1) qx qy := by
  by_cases h1 : qy < y
  · rw [rectPaint_lt _ _ _ _ _ h1, if_neg (by omega), rectPaint_lt _ _ _ _ _ (by omega)]
  · by_cases h2 : qy = y
    · subst h2
      simp [rectPaint]
    · rw [if_neg h2]
      have e : qy - y = (qy - (y + 1)) + 1 := by omega
      simp only [rectPaint, if_neg h1, if_neg (show ¬ qy < y + 1 by omega)]
      rw [e, List.getElem?_cons_succ]

theorem setRectTiles_spec (x y : Nat) : ∀ (rows : List (List Nat)) (dy : Nat) (s : MG),
    s.map.length = 0x1000 → s.gfx.length = 0x2000 → (∀ row ∈ rows, ∀ v ∈ row, v ≤ 255) →
    ∃ s', setRectTiles x y rows dy s = .ok s' ∧ s'.map.length = 0x1000 ∧ s'.gfx.length = 0x2000 ∧
      (∀ qx qy, qx ≤ 127 → qy ≤ 63 →
        getCell s' qx qy = orOk (rectPaint rows x (dy + y) qx qy) (getCell s qx qy)) ∧
      (∀ i, i < 0x1000 → s'.gfx[i]? = s.gfx[i]?)
  | [], dy, s, hm, hg, _ =>
    ⟨s, rfl, hm, hg, fun qx qy _ _ => by simp [rectPaint, orOk], fun _ _ => rfl⟩
  | row :: rest, dy, s, hm, hg, hv => by
    have hadd : dy + 1 + y = dy + y + 1 := by omega
    obtain ⟨s1, e1, lm1, lg1, f1, fr1⟩ := setRectRow_spec x (dy + y) row 0 s hm hg (hv row List.mem_cons_self)
    obtain ⟨s', e, lm, lg, f, fr⟩ := setRectTiles_spec x y rest (dy + 1) s1 lm1 lg1
      (fun r h => hv r (List.mem_cons_of_mem _ h))
    refine ⟨s', ?_, lm, lg, ?_, ?_⟩
    · simp only [setRectTiles, e1, bind, Except.bind]; exact e
    · intro qx qy hqx hqy
      rw [f qx qy hqx hqy, f1 qx qy hqx hqy, rectPaint_cons, hadd, Nat.zero_add]
      by_cases hq : qy = dy + y
      · rw [if_pos hq, if_pos hq, rectPaint_lt _ _ _ _ _ (show qy < dy + y + 1 by omega)]
        rfl
      · rw [if_neg hq, if_neg hq]
        rfl
    · intro i hi
      rw [fr i hi, fr1 i hi]

/-! ### mapM, get_rect_tiles, get_sprite -/

theorem mapM_ok_of {α β : Type} (f : α → Except Err β) : ∀ (l : List α),
    (∀ (i : Nat) a, l[i]? = some a → ∃ b, f a = .ok b) →
    ∃ bs, l.mapM f = .ok bs ∧ bs.length = l.length ∧
      ∀ (i : Nat) a, l[i]? = some a → ∃ b, bs[i]? = some b ∧ f a = .ok b
  | [], _ => ⟨[], by simp [pure, Except.pure], rfl, by simp⟩
  | a :: l, h => by
    obtain ⟨b, hb⟩ := h 0 a rfl
    obtain ⟨bs, hbs, hlen, hall⟩ := mapM_ok_of f l (fun i a' hi => h (i + 1) a' (by simpa using hi))
    refine ⟨b :: bs, ?_, by simp [hlen], ?_⟩
    · simp [List.mapM_cons, hb, hbs, bind, Except.bind, pure, Except.pure]
    · intro i a' hi
      cases i with
      | zero =>
        simp at hi
        subst hi
        exact ⟨b, rfl, hb⟩
      | succ j => simpa using hall j a' (by simpa using hi)

theorem getCell_ok (s : MG) (x y : Nat) (hm : s.map.length = 0x1000) (hg : s.gfx.length = 0x2000)
    (hx : x ≤ 127) (hy : y ≤ 63) : ∃ b, getCell s x y = .ok b := by
  have hn : ¬ (x > 127 ∨ y > 63) := by omega
  simp only [getCell, if_neg hn]
  by_cases h31 : y ≤ 31
  · rw [if_pos h31]; exact ⟨_, getAt_ok _ _ (by omega)⟩
  · rw [if_neg h31]; exact ⟨_, getAt_ok _ _ (by omega)⟩

theorem getRectTiles_spec (s : MG) (x y w h : Nat) (hm : s.map.length = 0x1000) (hg : s.gfx.length = 0x2000)
    (hx : x ≤ 127) (hw : 1 ≤ w) (hh : 1 ≤ h) (hy : y + h ≤ 64) :
    ∃ rows, getRectTiles s x y w h = .ok rows ∧ rows.length = h ∧
      ∀ r, r < h → ∃ row, rows[r]? = some row ∧ row.length = w ∧
        ∀ c, c < w → (.ok (row.getD c 0) : Except Err UInt8) =
          if x + c ≤ 127 then getCell s (x + c) (y + r) else .ok 0 := by
  have hn : ¬ (x > 127 ∨ w < 1 ∨ h < 1 ∨ y + h > 64) := by omega
  have inner : ∀ dy, dy < h → ∃ bs, ((List.range w).mapM fun dx =>
      if y + dy > 63 ∨ x + dx > 127 then (.ok 0 : Except Err UInt8) else getCell s (x + dx) (y + dy)) = .ok bs ∧
      bs.length = w ∧ ∀ c, c < w → ∃ b, bs[c]? = some b ∧
        (if y + dy > 63 ∨ x + c > 127 then (.ok 0 : Except Err UInt8) else getCell s (x + c) (y + dy)) = .ok b := by
    intro dy hdy
    obtain ⟨bs, e, l, f⟩ := mapM_ok_of (fun dx =>
      if y + dy > 63 ∨ x + dx > 127 then (.ok 0 : Except Err UInt8) else getCell s (x + dx) (y + dy))
      (List.range w) (by
        intro i a hi
        by_cases hc : y + dy > 63 ∨ x + a > 127
        · exact ⟨0, by simp only [if_pos hc]⟩
        · simp only [if_neg hc]; exact getCell_ok s _ _ hm hg (by omega) (by omega))
    refine ⟨bs, e, by simpa using l, fun c hc => ?_⟩
    exact f c c (by simp [hc])
  obtain ⟨rows, e, l, f⟩ := mapM_ok_of (fun dy => (List.range w).mapM fun dx =>
      if y + dy > 63 ∨ x + dx > 127 then (.ok 0 : Except Err UInt8) else getCell s (x + dx) (y + dy))
    (List.range h) (by
      intro i a hi
      have ha : a < h := by
        have := List.mem_range.mp (List.mem_of_getElem? hi); exact this
      obtain ⟨bs, e, _⟩ := inner a ha
      exact ⟨bs, e⟩)
  refine ⟨rows, ?_, by simpa using l, ?_⟩
  · simp only [getRectTiles, if_neg hn]; exact e
  · intro r hr
    obtain ⟨row, hrow, hf⟩ := f r r (by simp [hr])
    obtain ⟨bs, e', l', f'⟩ := inner r hr
    have : bs = row := by
      have := e'.symm.trans hf
      exact Except.ok.inj this
    subst this
    refine ⟨bs, hrow, l', fun c hc => ?_⟩
    obtain ⟨b, hb, hv⟩ := f' c hc
    rw [List.getD_eq_getElem?_getD, hb, Option.getD_some, ← hv]
    by_cases hxc : x + c ≤ 127
    · rw [if_pos hxc, if_neg (by omega)]
    · rw [if_neg hxc, if_pos (by omega)]

/-! ### get_sprite -/

theorem pixelAt_ok (g : Bytes) (qx qy : Nat) (hl : g.length = 0x2000) (hx : qx < 128) (hy : qy < 128) :
    ∃ b, pixelAt g qx qy = .ok b :=
  ⟨_, pixelAt_of_getElem? g qx qy _ (List.getElem?_eq_getElem (show qy * 64 + qx / 2 < g.length by omega))⟩

theorem flat8 (a : Nat) : ∀ (th : Nat),
    ((List.range th).flatMap fun dy => (List.range 8).map fun yo => (a + dy, yo)).length = 8 * th ∧
    ∀ r, r < 8 * th →
      ((List.range th).flatMap fun dy => (List.range 8).map fun yo => (a + dy, yo))[r]? = some (a + r / 8, r % 8)
  | 0 => ⟨by simp, fun r hr => by omega⟩
  | th + 1 => by
    obtain ⟨hl, hg⟩ := flat8 a th
    rw [show List.range (th + 1) = List.range th ++ [th] from List.range_succ, List.flatMap_append]
    refine ⟨?_, fun r hr => ?_⟩
    · rw [List.length_append, hl]; simp; omega
    · by_cases h : r < 8 * th
      · rw [List.getElem?_append_left (by omega)]; exact hg r h
      · rw [List.getElem?_append_right (by omega), hl]
        have e1 : r / 8 = th := by omega
        have e2 : r % 8 = r - 8 * th := by omega
        simp only [List.flatMap_cons, List.flatMap_nil, List.append_nil, List.getElem?_map]
        rw [List.getElem?_range (by omega), e1, e2]
        rfl

theorem spriteSeg_spec (gfx : Bytes) (ty yo tx : Nat) (hl : gfx.length = 0x2000) (hyo : yo < 8) :
    ∃ seg, (if tx > 15 ∨ ty > 15 then .ok (List.replicate 8 0)
            else (List.range 8).mapM fun xo => pixelAt gfx (tx * 8 + xo) (ty * 8 + yo)) = .ok seg ∧
      seg.length = 8 ∧ ∀ c, c < 8 → ∃ b, seg[c]? = some b ∧
        (.ok b : Except Err UInt8) =
          if tx > 15 ∨ ty > 15 then .ok 0 else pixelAt gfx (tx * 8 + c) (ty * 8 + yo) := by
  by_cases hc : tx > 15 ∨ ty > 15
  · simp only [if_pos hc]
    refine ⟨_, rfl, by simp, fun c hc8 => ⟨0, ?_, rfl⟩⟩
    rw [List.getElem?_replicate, if_pos hc8]
  · simp only [if_neg hc]
    obtain ⟨seg, e, l, f⟩ := mapM_ok_of (fun xo => pixelAt gfx (tx * 8 + xo) (ty * 8 + yo)) (List.range 8) (by
      intro i a hi
      have ha : a < 8 := List.mem_range.mp (List.mem_of_getElem? hi)
      exact pixelAt_ok gfx _ _ hl (by omega) (by omega))
    refine ⟨seg, e, by simpa using l, fun c hc8 => ?_⟩
    obtain ⟨b, hb, hv⟩ := f c c (by simp [hc8])
    exact ⟨b, hb, hv.symm⟩

theorem spriteRow_spec (gfx : Bytes) (ty yo : Nat) (hl : gfx.length = 0x2000) (hyo : yo < 8) :
    ∀ (tw tx : Nat), ∃ row, spriteRow gfx ty yo tw tx = .ok row ∧ row.length = 8 * tw ∧
      ∀ c, c < 8 * tw → ∃ b, row[c]? = some b ∧
        (.ok b : Except Err UInt8) =
          if tx + c / 8 > 15 ∨ ty > 15 then .ok 0
          else pixelAt gfx ((tx + c / 8) * 8 + c % 8) (ty * 8 + yo)
  | 0, tx => ⟨[], rfl, rfl, fun c hc => by omega⟩
  | tw + 1, tx => by
    obtain ⟨seg, es, ls, fs⟩ := spriteSeg_spec gfx ty yo tx hl hyo
    obtain ⟨rest, er, lr, fr⟩ := spriteRow_spec gfx ty yo hl hyo tw (tx + 1)
    refine ⟨seg ++ rest, ?_, by rw [List.length_append, ls, lr]; omega, fun c hc => ?_⟩
    · simp only [spriteRow, es, er, bind, Except.bind, pure, Except.pure]
    · by_cases h8 : c < 8
      · obtain ⟨b, hb, hv⟩ := fs c h8
        refine ⟨b, by rw [List.getElem?_append_left (by omega)]; exact hb, ?_⟩
        have e1 : c / 8 = 0 := by omega
        have e2 : c % 8 = c := by omega
        rw [e1, e2, Nat.add_zero]; exact hv
      · obtain ⟨b, hb, hv⟩ := fr (c - 8) (by omega)
        refine ⟨b, by rw [List.getElem?_append_right (by omega), ls]; exact hb, ?_⟩
        have e1 : tx + 1 + (c - 8) / 8 = tx + c / 8 := by omega
        have e2 : (c - 8) % 8 = c % 8 := by omega
        rw [e1, e2] at hv; exact hv

theorem getSprite_spec (gfx : Bytes) (id tw th : Nat) (hl : gfx.length = 0x2000) (hid : id ≤ 255)
    (htw : 1 ≤ tw) (hth : 1 ≤ th) :
    ∃ rows, getSprite gfx id tw th = .ok rows ∧ rows.length = 8 * th ∧
      ∀ r, r < 8 * th → ∃ row, rows[r]? = some row ∧ row.length = 8 * tw ∧
        ∀ c, c < 8 * tw →
          (.ok (row.getD c 0) : Except Err UInt8) =
            if id % 16 * 8 + c < 128 ∧ id / 16 * 8 + r < 128 then pixelAt gfx (id % 16 * 8 + c) (id / 16 * 8 + r)
            else .ok 0 := by
  have hn : ¬ (id > 255 ∨ tw < 1 ∨ th < 1) := by omega
  obtain ⟨hL, gL⟩ := flat8 (id / 16) th
  have hyo : ∀ (i : Nat) (a : Nat × Nat),
      ((List.range th).flatMap fun dy => (List.range 8).map fun yo => (id / 16 + dy, yo))[i]? = some a →
      i < 8 * th ∧ a = (id / 16 + i / 8, i % 8) := by
    intro i a hi
    have hlt : i < 8 * th := by
      rw [← hL]; exact (List.getElem?_eq_some_iff.mp hi).1
    rw [gL i hlt] at hi
    exact ⟨hlt, (Option.some.inj hi).symm⟩
  obtain ⟨rows, e, l, f⟩ := mapM_ok_of (fun (p : Nat × Nat) => spriteRow gfx p.1 p.2 tw (id % 16))
    ((List.range th).flatMap fun dy => (List.range 8).map fun yo => (id / 16 + dy, yo)) (by
      intro i a hi
      obtain ⟨hlt, ha⟩ := hyo i a hi
      subst ha
      obtain ⟨row, er, _⟩ := spriteRow_spec gfx (id / 16 + i / 8) (i % 8) hl (by omega) tw (id % 16)
      exact ⟨row, er⟩)
  refine ⟨rows, ?_, by rw [l, hL], fun r hr => ?_⟩
  · simp only [getSprite, if_neg hn]; exact e
  · obtain ⟨row, hrow, hf⟩ := f r _ (gL r hr)
    obtain ⟨row', er, lr, fr⟩ := spriteRow_spec gfx (id / 16 + r / 8) (r % 8) hl (by omega) tw (id % 16)
    have : row' = row := Except.ok.inj (er.symm.trans hf)
    subst this
    refine ⟨row', hrow, lr, fun c hc => ?_⟩
    obtain ⟨b, hb, hv⟩ := fr c hc
    rw [List.getD_eq_getElem?_getD, hb, Option.getD_some, hv]
    have e1 : (id % 16 + c / 8) * 8 + c % 8 = id % 16 * 8 + c := by omega
    have e2 : (id / 16 + r / 8) * 8 + r % 8 = id / 16 * 8 + r := by omega
    rw [e1, e2]
    by_cases hin : id % 16 * 8 + c < 128 ∧ id / 16 * 8 + r < 128
    · rw [if_pos hin, if_neg (by omega)]
    · rw [if_neg hin, if_pos (by omega)]

end Pico.Acc
